"""Shared plumbing of the checks: evidence files, verdict lines, known findings, parallel maps,
batch trace validation through TLC."""
import json
import multiprocessing as mp
import os
import shutil
import sys
import time
import traceback

from . import tlc

ROOT = os.path.dirname(os.path.dirname(os.path.abspath(__file__)))
# VERIF_OUT redirects evidence/replays (used when the checks are run against a scratch copy of the
# repository, e.g. a seeded mutant via VERIF_REPO, so that the committed evidence is not overwritten)
_OUT = os.environ.get('VERIF_OUT') or ROOT
EVIDENCE_DIR = os.path.join(_OUT, 'evidence')
REPLAY_DIR = os.path.join(_OUT, 'replays')
KNOWN_FILE = os.path.join(ROOT, 'KNOWN_FINDINGS.txt')
NCPU = int(os.environ.get('VERIF_NCPU', os.cpu_count() or 4))


class MachineryError(Exception):
    pass


CURRENT = None      # the Outcome of the running check (so that main_wrapper can still report what was found)


def seed_from_env(default=20260927):
    try:
        return int(os.environ.get('VERIF_SEED', default))
    except ValueError:
        return default


# --------------------------------------------------------------------------- known findings
def known_findings(prop):
    """Lines `known: property=<id> sig=<signature> <text>` of KNOWN_FINDINGS.txt -> {sig: text}."""
    out = {}
    if not os.path.exists(KNOWN_FILE):
        return out
    for line in open(KNOWN_FILE, encoding='utf-8'):
        line = line.strip()
        if not line.startswith('known:'):
            continue
        parts = line.split(None, 3)
        if len(parts) < 3 or parts[1] != 'property=' + prop or not parts[2].startswith('sig='):
            continue
        out[parts[2][4:]] = parts[3] if len(parts) > 3 else ''
    return out


# --------------------------------------------------------------------------- result object
class Outcome:
    """Collects what one check run covered and what it found."""

    def __init__(self, prop, tier, seed):
        global CURRENT
        if CURRENT is None:          # the first Outcome of a run is the check's own (helpers create scratch ones)
            CURRENT = self
        self.prop = prop
        self.tier = tier
        self.seed = seed
        self.t0 = time.time()
        self.states = 0
        self.transitions = 0
        self.tlc_runs = []
        self.traces = 0              # traces recorded from the real code and judged by TLC
        self.evaluations = 0
        self.samples = []
        self.violations = []         # dicts: sig, clause, detail, replay(dict)
        self.assumptions = []
        self.extra = {}
        self.sensitivity = {}
        self.conformance = {}
        self.exhaustive = False
        self.rule = ''
        self.distinct = 0

    def add_tlc(self, name, r):
        self.states += r.distinct
        self.transitions += r.generated
        d = r.summary()
        d['config'] = name
        if r.coverage:
            d['coverage'] = {k: list(v) for k, v in sorted(r.coverage.items())}
        self.tlc_runs.append(d)

    def violation(self, sig, clause, detail, replay):
        self.violations.append({'sig': sig, 'clause': clause, 'detail': detail, 'replay': replay})

    def finish(self):
        """Write evidence, print verdict lines, return the exit code."""
        known = known_findings(self.prop)
        os.makedirs(EVIDENCE_DIR, exist_ok=True)
        os.makedirs(REPLAY_DIR, exist_ok=True)
        new, listed = [], {}
        for v in self.violations:
            if v['sig'] in known:
                listed.setdefault(v['sig'], []).append(v)
            else:
                new.append(v)
        ev = {
            'property_id': self.prop, 'tier': self.tier, 'seed': self.seed,
            'level': 'model_checking',
            'coverage': {
                'states': max(1, self.states), 'transitions': max(1, self.transitions),
                'traces_validated_against_impl': self.traces,
                'samples': self.samples[:8] or ['(none)'],
                'evaluations': self.evaluations, 'distinct_nontrivial': self.distinct,
                'rule': self.rule, 'exhaustive': self.exhaustive,
                'tlc_runs': self.tlc_runs, 'conformance': self.conformance,
                'sensitivity': self.sensitivity,
            },
            'assumptions': self.assumptions,
            'wall_s': round(time.time() - self.t0, 2),
            'violations': len(new),
            'known_findings_seen': sorted(listed),
        }
        ev['coverage'].update(self.extra)
        with open(os.path.join(EVIDENCE_DIR, self.prop + '.json'), 'w') as f:
            json.dump(ev, f, indent=1, default=str)
        for sig, vs in sorted(listed.items()):
            print('KNOWN-FINDING: property=%s sig=%s %s (%d occurrence(s) this run)' %
                  (self.prop, sig, known[sig], len(vs)))
        if new:
            seen = set()
            for v in new:
                if v['sig'] in seen:
                    continue
                seen.add(v['sig'])
                path = os.path.join(REPLAY_DIR, '%s-%s.json' % (self.prop, _safe(v['sig'])))
                with open(path, 'w') as f:
                    json.dump({'property': self.prop, 'sig': v['sig'], 'clause': v['clause'],
                               'detail': v['detail'], 'replay': v['replay']}, f, indent=1, default=str)
                print('VIOLATION property=%s replay=%s' % (self.prop, path))
                print('  clause=%s sig=%s %s' % (v['clause'], v['sig'], str(v['detail'])[:300]))
            return 1
        print('OK property=%s tier=%s states=%d traces=%d wall=%.1fs' %
              (self.prop, self.tier, self.states, self.traces, time.time() - self.t0))
        return 0


def _safe(s):
    return ''.join(c if c.isalnum() or c in '-_.' else '_' for c in s)[:80]


# --------------------------------------------------------------------------- parallel map
_INIT_ERR = None


def _init_worker(init, initargs):
    # an exception escaping a Pool initializer makes the pool respawn workers for ever
    global _INIT_ERR
    try:
        if init:
            init(*initargs)
    except BaseException:
        _INIT_ERR = traceback.format_exc()


def _guarded(job):
    fn, x = job
    if _INIT_ERR:
        raise MachineryError('worker initialisation failed:\n' + _INIT_ERR)
    return fn(x)


def pmap(fn, items, nproc=None, init=None, initargs=(), chunksize=None, maxtasks=None):
    """Fork-based parallel map (workers re-import /repo's current tree through `init`)."""
    items = list(items)
    nproc = min(nproc or NCPU, max(1, len(items)))
    if nproc <= 1 or len(items) < 4:
        _init_worker(init, initargs)
        return [_guarded((fn, x)) for x in items]
    ctx = mp.get_context('fork')
    cs = chunksize or max(1, len(items) // (nproc * 8))
    with ctx.Pool(nproc, initializer=_init_worker, initargs=(init, initargs),
                  maxtasksperchild=maxtasks) as pool:
        return pool.map(_guarded, [(fn, x) for x in items], chunksize=cs)


# --------------------------------------------------------------------------- trace batches
def _run_batch(args):
    spec, cfg, path, timeout, env = args
    e = {'TRACE_FILE': path}
    e.update(env or {})
    r = tlc.run(spec, cfg, workers=1, timeout=timeout, env=e, heap='3g')
    return (r.output, r.distinct, r.generated, r.wall_s, r.violated)


def validate_traces(spec, cfg, traces, chunk=None, nproc=None, timeout=1800, env=None, tag='VERDICT'):
    """Send recorded traces through TLC with the trace spec.  Every trace must come back with
    exactly one verdict tuple <<"VERDICT", id, ...>>; returns ({id: [fields...]}, stats)."""
    if not traces:
        return {}, {'states': 0, 'transitions': 0, 'wall_s': 0.0, 'batches': 0}
    nproc = nproc or NCPU
    chunk = chunk or max(1, min(4000, (len(traces) + nproc - 1) // nproc))
    d = tlc.scratch_dir('traces-')
    try:
        jobs = []
        for i in range(0, len(traces), chunk):
            p = os.path.join(d, 'batch%d.json' % (i // chunk))
            with open(p, 'w') as f:
                json.dump(traces[i:i + chunk], f, separators=(',', ':'))
            jobs.append((spec, cfg, p, timeout, env))
        ctx = mp.get_context('fork')
        if len(jobs) == 1:
            outs = [_run_batch(jobs[0])]
        else:
            with ctx.Pool(min(nproc, len(jobs))) as pool:
                outs = pool.map(_run_batch, jobs)
    finally:
        shutil.rmtree(d, ignore_errors=True)
    verdicts = {}
    st = {'states': 0, 'transitions': 0, 'wall_s': 0.0, 'batches': len(jobs)}
    for (out, distinct, generated, wall, violated) in outs:
        if violated:
            raise MachineryError('trace spec %s run reported %s:\n%s' % (spec, violated, out[-3000:]))
        st['states'] += distinct
        st['transitions'] += generated
        st['wall_s'] += wall
        for v in tlc.printed_tuples(out, tag):
            verdicts[v[0]] = v[1:]
    missing = [t['id'] for t in traces if t['id'] not in verdicts]
    if missing:
        raise MachineryError('%d traces got no verdict from %s (first ids %s)\n%s' %
                             (len(missing), spec, missing[:5], outs[0][0][-3000:]))
    return verdicts, st


def main_wrapper(fn):
    """Run a check's main(); machinery failures exit 2 and are never phrased as violations.
    Violations of the real code that TLC had already judged when a later step (typically a
    sensitivity self-test that no longer fits a changed tree) failed are still reported: a
    self-test must not turn a detection into a machinery failure."""
    try:
        rc = fn()
    except (MachineryError, tlc.TLCError) as e:
        print('MACHINERY-FAILURE: %s' % e, file=sys.stderr)
        rc = _salvage()
    except Exception:
        traceback.print_exc()
        print('MACHINERY-FAILURE: unexpected harness exception', file=sys.stderr)
        rc = _salvage()
    sys.exit(rc)


def _salvage():
    out = CURRENT
    if out is not None and any(v['sig'] not in known_findings(out.prop) for v in out.violations):
        out.extra['machinery_failure_after_verdict'] = True
        if out.finish() == 1:
            return 1
    return 2
