"""Running TLC and reading what it writes: summary statistics, coverage, invariant violations,
`-dump dot,actionlabels` state graphs, `-simulate file=` behaviours, PrintT lines."""
import json
import os
import re
import shutil
import subprocess
import tempfile
import time

JAR = '/opt/veriftools/tla/tla2tools.jar:/opt/veriftools/tla/CommunityModules-deps.jar'
SPEC_DIR = os.path.join(os.path.dirname(os.path.dirname(os.path.abspath(__file__))), 'spec')


class TLCError(Exception):
    """Machinery failure (parse error, crash, timeout) -- never a property verdict."""


# --------------------------------------------------------------------------- TLA+ value parser
class FcnSeq(list):
    pass


class _P:
    def __init__(self, s):
        self.s = s
        self.i = 0

    def ws(self):
        s, n = self.s, len(self.s)
        while self.i < n and s[self.i] in ' \t\r\n':
            self.i += 1

    def peek(self, t):
        self.ws()
        return self.s.startswith(t, self.i)

    def eat(self, t):
        self.ws()
        if not self.s.startswith(t, self.i):
            raise TLCError('TLA value parse error at %d: expected %r in %r' % (self.i, t, self.s[self.i:self.i + 40]))
        self.i += len(t)

    def value(self):
        self.ws()
        s = self.s
        c = s[self.i]
        if c == '<' and s.startswith('<<', self.i):
            self.i += 2
            out = []
            if self.peek('>>'):
                self.eat('>>')
                return out
            while True:
                out.append(self.value())
                if self.peek(','):
                    self.eat(',')
                    continue
                self.eat('>>')
                return out
        if c == '{':
            self.i += 1
            out = []
            if self.peek('}'):
                self.eat('}')
                return frozenset()
            while True:
                out.append(_freeze(self.value()))
                if self.peek(','):
                    self.eat(',')
                    continue
                self.eat('}')
                return frozenset(out)
        if c == '[':
            self.i += 1
            d = {}
            while True:
                self.ws()
                m = re.compile(r'[A-Za-z_][A-Za-z0-9_]*').match(s, self.i)
                k = m.group(0)
                self.i = m.end()
                self.eat('|->')
                d[k] = self.value()
                if self.peek(','):
                    self.eat(',')
                    continue
                self.eat(']')
                return d
        if c == '(':
            # function literal  (k1 :> v1 @@ k2 :> v2)
            self.i += 1
            d = {}
            while True:
                k = self.value()
                self.eat(':>')
                d[_freeze(k)] = self.value()
                if self.peek('@@'):
                    self.eat('@@')
                    continue
                self.eat(')')
                return d
        if c == '"':
            j = self.i + 1
            out = []
            while s[j] != '"':
                if s[j] == '\\':
                    j += 1
                out.append(s[j])
                j += 1
            self.i = j + 1
            return ''.join(out)
        m = re.compile(r'-?\d+').match(s, self.i)
        if m:
            self.i = m.end()
            if s.startswith('..', self.i):       # interval a..b
                self.i += 2
                m2 = re.compile(r'-?\d+').match(s, self.i)
                self.i = m2.end()
                return frozenset(range(int(m.group(0)), int(m2.group(0)) + 1))
            return int(m.group(0))
        m = re.compile(r'[A-Za-z_][A-Za-z0-9_]*').match(s, self.i)
        if m:
            self.i = m.end()
            w = m.group(0)
            if w == 'TRUE':
                return True
            if w == 'FALSE':
                return False
            return w            # model value
        raise TLCError('TLA value parse error at %d: %r' % (self.i, s[self.i:self.i + 40]))


def _freeze(v):
    if isinstance(v, list):
        return tuple(_freeze(x) for x in v)
    if isinstance(v, dict):
        return tuple(sorted((k, _freeze(x)) for k, x in v.items()))
    return v


def parse_value(text):
    p = _P(text)
    v = p.value()
    p.ws()
    if p.i != len(p.s):
        raise TLCError('trailing text in TLA value: %r' % p.s[p.i:p.i + 40])
    return v


def parse_state(text):
    """'/\\ a = 1\n/\\ b = <<>>' -> {'a': 1, 'b': []}"""
    p = _P(text)
    d = {}
    while True:
        p.ws()
        if p.i >= len(p.s):
            return d
        p.eat('/\\')
        p.ws()
        m = re.compile(r'[A-Za-z_][A-Za-z0-9_]*').match(p.s, p.i)
        p.i = m.end()
        p.eat('=')
        d[m.group(0)] = p.value()


# --------------------------------------------------------------------------- running
class Result:
    def __init__(self):
        self.ok = False
        self.violated = None         # name of violated invariant / 'deadlock' / 'temporal' / 'assert'
        self.generated = 0
        self.distinct = 0
        self.depth = 0
        self.wall_s = 0.0
        self.output = ''
        self.printed = []            # raw PrintT lines
        self.coverage = {}           # action name -> (distinct, total)
        self.cmd = ''
        self.error_trace = []        # [(action label, state dict)]

    def summary(self):
        return {'states': self.distinct, 'transitions': self.generated, 'depth': self.depth,
                'wall_s': round(self.wall_s, 2), 'ok': self.ok, 'violated': self.violated}


def _die_with_parent():
    # a TLC whose harness process was killed must not keep running (PR_SET_PDEATHSIG = 1)
    try:
        import ctypes
        import signal
        ctypes.CDLL('libc.so.6', use_errno=True).prctl(1, signal.SIGKILL)
    except Exception:
        pass


def scratch_dir(prefix='verif-'):
    base = os.environ.get('VERIF_SCRATCH') or tempfile.gettempdir()
    return tempfile.mkdtemp(prefix=prefix, dir=base)


def run(spec, cfg, workers=None, timeout=1200, simulate=None, depth=None, seed=None, dump=None,
        coverage=False, env=None, extra=(), deadlock=None, cwd=None, jvm=(), heap='8g', dfs=False,
        expect_violation=False, _retry=False, _killed=0):
    """Run TLC on spec (module name or path, relative to spec/) with cfg.  Raises TLCError on
    machinery failures; property-ish outcomes (invariant violated, deadlock) are returned."""
    cwd = cwd or SPEC_DIR
    meta = scratch_dir('tlcmeta-')
    w = str(workers or os.cpu_count() or 4)
    cmd = ['java', '-XX:+UseParallelGC', '-Xmx' + heap, '-Djava.io.tmpdir=' + meta]
    if dfs:
        cmd.append('-Dtlc2.tool.queue.IStateQueue=StateDeque')
    cmd += list(jvm)
    cmd += ['-cp', JAR, 'tlc2.TLC', '-metadir', meta, '-noGenerateSpecTE', '-config', cfg]
    if simulate:
        cmd += ['-simulate', simulate]
        w = '1' if 'file=' in simulate else w
    cmd += ['-workers', w]
    if depth is not None:
        cmd += ['-depth', str(depth)]
    if seed is not None:
        cmd += ['-seed', str(seed)]
    if dump:
        cmd += ['-dump', 'dot,actionlabels', dump]
    if coverage:
        cmd += ['-coverage', '1']
    if deadlock is False:
        cmd += ['-deadlock']
    cmd += list(extra)
    cmd.append(spec)
    e = dict(os.environ)
    if env:
        e.update({k: str(v) for k, v in env.items()})
    r = Result()
    r.cmd = ' '.join(cmd)
    t0 = time.time()
    try:
        p = subprocess.run(cmd, cwd=cwd, env=e, stdout=subprocess.PIPE, stderr=subprocess.STDOUT,
                           timeout=timeout, text=True, errors='replace', preexec_fn=_die_with_parent)
    except subprocess.TimeoutExpired as ex:
        out = ex.stdout or ''
        if isinstance(out, bytes):
            out = out.decode(errors='replace')
        shutil.rmtree(meta, ignore_errors=True)
        raise TLCError('TLC timed out after %ss: %s\n%s' % (timeout, r.cmd, out[-2000:]))
    finally:
        shutil.rmtree(meta, ignore_errors=True)
    r.wall_s = time.time() - t0
    out = p.stdout
    r.output = out
    m = re.search(r'(\d+) states generated, (\d+) distinct states found', out)
    if m:
        r.generated, r.distinct = int(m.group(1)), int(m.group(2))
    else:
        m = re.search(r'The number of states generated: (\d+)', out)
        if m:
            r.generated = r.distinct = int(m.group(1))
    m = re.search(r'depth of the complete state graph search is (\d+)', out)
    if m:
        r.depth = int(m.group(1))
    if coverage:
        for m in re.finditer(r'<(\w+) line \d+, col \d+ to line \d+, col \d+ of module (\w+)>: (\d+):(\d+)', out):
            name = m.group(1)
            a, b = int(m.group(3)), int(m.group(4))
            pa, pb = r.coverage.get(name, (0, 0))
            r.coverage[name] = (pa + a, pb + b)
    m = re.search(r'Invariant (\S+) is violated', out)
    if m:
        r.violated = m.group(1)
    elif 'Deadlock reached' in out:
        r.violated = 'deadlock'
    elif 'Temporal properties were violated' in out or re.search(r'Temporal property \S+ was violated', out):
        r.violated = 'temporal'
    elif re.search(r'Action property (\S+) is violated', out):
        r.violated = re.search(r'Action property (\S+) is violated', out).group(1)
    elif 'The first argument of Assert evaluated to FALSE' in out:
        r.violated = 'assert'
    elif re.search(r'Postcondition|POSTCONDITION', out) and 'violated' in out:
        r.violated = 'postcondition'
    if r.violated:
        r.error_trace = _parse_error_trace(out)
    r.ok = (p.returncode == 0 and r.violated is None and
            ('No error has been found' in out or 'Finished in' in out))
    if not r.ok and r.violated is None:
        if 'TLC threw an unexpected exception' in out and w != '1' and not simulate and not _retry:
            # TLC 1.8 occasionally fails with "Attempted to select nonexistent field ... from the record"
            # (for a field that is there) when several workers evaluate the same un-normalised record
            # value: a tool race, not a property of the spec.  One retry with a single worker.
            return run(spec, cfg, workers=1, timeout=timeout, simulate=simulate, depth=depth, seed=seed, dump=dump,
                       coverage=coverage, env=env, extra=extra, deadlock=deadlock, cwd=cwd, jvm=jvm, heap=heap, dfs=dfs,
                       expect_violation=expect_violation, _retry=True)
        if p.returncode in (-9, 137) and _killed < 2:
            # the JVM was killed from outside (kernel OOM killer when the machine is shared with
            # other memory-hungry jobs): wait, then try again with a smaller heap
            time.sleep(30 * (_killed + 1))
            return run(spec, cfg, workers=workers, timeout=timeout, simulate=simulate, depth=depth, seed=seed, dump=dump,
                       coverage=coverage, env=env, extra=extra, deadlock=deadlock, cwd=cwd, jvm=jvm,
                       heap='4g' if heap == '8g' else heap, dfs=dfs,
                       expect_violation=expect_violation, _retry=_retry, _killed=_killed + 1)
        raise TLCError('TLC failed (rc=%s): %s\n%s' % (p.returncode, r.cmd, out[-4000:]))
    return r


def _parse_error_trace(out):
    tr = []
    for m in re.finditer(r'State (\d+): <(Initial predicate|.*? line \d+, col \d+ to line \d+, col \d+ of module \w+)>\n'
                         r'((?:(?!\nState \d+:|\n\n).|\n(?!State \d+:|\n))*)', out):
        label = m.group(2)
        label = re.sub(r' line \d+, col \d+ to line \d+, col \d+ of module \w+', '', label).strip()
        try:
            st = parse_state(m.group(3))
        except Exception:
            st = {'_raw': m.group(3)}
        tr.append((label, st))
    return tr


def check(spec, cfg, **kw):
    """Exhaustive check that must pass; returns Result; raises TLCError when it does not."""
    r = run(spec, cfg, **kw)
    if not r.ok:
        raise TLCError('design spec %s/%s does not satisfy its properties: %s\n%s' %
                       (spec, cfg, r.violated, r.output[-3000:]))
    return r


def expect_violation(spec, cfg, **kw):
    """A Bug_* configuration must be refuted; returns the violated property name."""
    r = run(spec, cfg, **kw)
    if r.ok or not r.violated:
        raise TLCError('bug configuration %s/%s was NOT refuted -- invariant is vacuous' % (spec, cfg))
    return r


# --------------------------------------------------------------------------- graph dumps
_NODE = re.compile(r'^(-?\d+) \[label="((?:[^"\\]|\\.)*)"')
_EDGE = re.compile(r'^(-?\d+) -> (-?\d+) \[label="((?:[^"\\]|\\.)*)"')


def _unesc(s):
    return s.replace('\\n', '\n').replace('\\"', '"').replace('\\\\', '\\')


class Graph:
    def __init__(self):
        self.states = {}     # id -> dict
        self.init = []       # ids
        self.edges = {}      # id -> [(label, dst)]

    def n_edges(self):
        return sum(len(v) for v in self.edges.values())


def read_dot(path, parse=True):
    g = Graph()
    with open(path, encoding='utf-8', errors='replace') as f:
        for line in f:
            m = _EDGE.match(line)
            if m:
                g.edges.setdefault(m.group(1), []).append((_unesc(m.group(3)), m.group(2)))
                continue
            m = _NODE.match(line)
            if m:
                nid = m.group(1)
                txt = _unesc(m.group(2))
                g.states[nid] = parse_state(txt) if parse else txt
                if 'style = filled' in line:
                    g.init.append(nid)
    return g


def dump_graph(spec, cfg, **kw):
    d = scratch_dir('tlcdump-')
    try:
        r = run(spec, cfg, dump=os.path.join(d, 'g'), **kw)
        if not r.ok:
            raise TLCError('dump run failed: %s %s' % (r.violated, r.output[-2000:]))
        g = read_dot(os.path.join(d, 'g.dot'))
        return r, g
    finally:
        shutil.rmtree(d, ignore_errors=True)


def parse_label(label):
    """'Inc(1, "a")' -> ('Inc', [1, 'a'])"""
    m = re.match(r'^(\w+)(?:\((.*)\))?$', label.strip(), re.S)
    if not m:
        return label, []
    if m.group(2) is None or m.group(2).strip() == '':
        return m.group(1), []
    return m.group(1), parse_value('<<' + m.group(2) + '>>')


def tour(g, max_paths=None, max_len=None):
    """Transition tour: paths from initial states that together cover every edge.  Greedy DFS
    over uncovered edges with BFS reconnects through covered ones."""
    from collections import deque
    covered = set()
    total = g.n_edges()
    paths = []
    # precompute for reconnects
    while len(covered) < total:
        progressed = False
        for init in g.init:
            path = []
            cur = init
            while True:
                nxt = None
                for (lab, dst) in g.edges.get(cur, []):
                    if (cur, lab, dst) not in covered:
                        nxt = (lab, dst)
                        break
                if nxt is None:
                    # BFS to the closest state with an uncovered out-edge
                    seen = {cur: None}
                    dq = deque([cur])
                    target = None
                    while dq:
                        u = dq.popleft()
                        if u != cur and any((u, l, d) not in covered for (l, d) in g.edges.get(u, [])):
                            target = u
                            break
                        for (l, d) in g.edges.get(u, []):
                            if d not in seen:
                                seen[d] = (u, l)
                                dq.append(d)
                    if target is None:
                        break
                    seg = []
                    u = target
                    while seen[u] is not None:
                        pu, l = seen[u]
                        seg.append((l, u))
                        u = pu
                    seg.reverse()
                    if max_len and len(path) + len(seg) >= max_len:
                        break
                    path.extend(seg)
                    cur = target
                    continue
                lab, dst = nxt
                covered.add((cur, lab, dst))
                path.append((lab, dst))
                progressed = True
                cur = dst
                if max_len and len(path) >= max_len:
                    break
            if path:
                paths.append((init, path))
            if max_paths and len(paths) >= max_paths:
                return paths, len(covered), total
        if not progressed:
            break
    return paths, len(covered), total


# --------------------------------------------------------------------------- simulate files
_SIMHDR = re.compile(r'^\\\* <(.*?) line \d+, col \d+ to line \d+, col \d+ of module \w+>\s*$')


def read_sim_file(path):
    beh = []
    label = None
    buf = []
    with open(path, encoding='utf-8', errors='replace') as f:
        for line in f:
            m = _SIMHDR.match(line)
            if m:
                label = m.group(1)
                continue
            if line.startswith('STATE_'):
                buf = []
                continue
            if line.startswith('====') or (line.strip() == '' and buf):
                if buf and label is not None:
                    beh.append((label, parse_state(''.join(buf))))
                    buf = []
                    label = None
                continue
            if line.startswith('----'):
                continue
            if label is not None:
                buf.append(line)
    if buf and label is not None:
        beh.append((label, parse_state(''.join(buf))))
    return beh


def simulate(spec, cfg, num, depth, seed, **kw):
    d = scratch_dir('tlcsim-')
    try:
        r = run(spec, cfg, simulate='file=%s/tr,num=%d' % (d, num), depth=depth, seed=seed, **kw)
        behs = []
        for fn in sorted(os.listdir(d)):
            if fn.startswith('tr_'):
                behs.append(read_sim_file(os.path.join(d, fn)))
        return r, behs
    finally:
        shutil.rmtree(d, ignore_errors=True)


# --------------------------------------------------------------------------- trace batches
def printed_json(out, tag):
    """PrintT(<<tag, jsonstring>>) lines -> parsed JSON values; PrintT("TAG {...}") too."""
    vals = []
    for line in out.splitlines():
        line = line.strip()
        if line.startswith('"' + tag + ' '):
            body = line[len(tag) + 2:-1]
            body = body.replace('\\"', '"').replace('\\\\', '\\')
            vals.append(json.loads(body))
    return vals


def printed_tuples(out, tag):
    """PrintT(<<"TAG", a, b, ...>>) lines -> lists."""
    vals = []
    for line in out.splitlines():
        line = line.strip()
        if line.startswith('<<"' + tag + '"'):
            try:
                vals.append(parse_value(line)[1:])
            except TLCError:
                pass
    return vals
