"""C03 helpers: device tables of contents, a recording / scriptable simulated device and the
tocsim:// link driver (subclasses of simdev.core; nothing in core.py / services.py is changed).

Table layouts [dis = /repo/tools/crtp-dissector.lua, fw = firmware headers as remembered]:
  log item type byte   = type code 1..8 [dis get_log_types]
  param item type byte = low nibble type code, 0x10 extended, 0x20 core, 0x40 read-only [dis get_param_types]
  packet budget        = 30 data bytes [cflib CRTPPacket.MAX_DATA_SIZE / fw CRTP_MAX_DATA_SIZE]:
                         V2 item reply [2, idx u16, type, group 0 name 0] -> len(group)+len(name) <= 24
                         V1 item reply [0, idx u8, type, group 0 name 0]  -> len(group)+len(name) <= 25
"""
import struct

from . import core as sd
from . import services as sv

LOG_CODES = [1, 2, 3, 4, 5, 6, 7, 8]
PARAM_CODES = [0x08, 0x09, 0x0A, 0x0B, 0x00, 0x01, 0x02, 0x03, 0x05, 0x06, 0x07]
PARAM_WIDTH = {0x08: 1, 0x09: 2, 0x0A: 4, 0x0B: 8, 0x00: 1, 0x01: 2, 0x02: 4, 0x03: 8, 0x05: 2, 0x06: 4, 0x07: 8}
NAME_BYTES = [b for b in range(1, 256) if b != 0x2E]        # no NUL, no '.'
IDENT_BYTES = list(b'abcdefghijklmnopqrstuvwxyzABCDEFGHIJKLMNOPQRSTUVWXYZ0123456789_')


def name_budget(v2):
    return 24 if v2 else 25


def length_pairs(v2):
    """every (len(group), len(name)) with both >= 1 that fits an item reply"""
    m = name_budget(v2)
    return [(a, b) for a in range(1, m) for b in range(1, m - a + 1)]


def gen_table(kind, n, v2, rng, style='mixed'):
    """n distinct group.name entries.  style: 'mixed' (identifier-like names, some shared groups,
    every length pair in rotation), 'latin1' (any byte 1..255 except '.'), 'short'."""
    pairs = length_pairs(v2)
    rng.shuffle(pairs)
    # the extreme pairs first so that small tables see them too
    m = name_budget(v2)
    front = [(1, 1), (1, m - 1), (m - 1, 1), (m // 2, m - m // 2)]
    pairs = front + [p for p in pairs if p not in front]
    codes = LOG_CODES if kind == 'log' else PARAM_CODES
    off = rng.randrange(len(codes))
    seen = set()
    groups = []
    out = []
    for i in range(n):
        lg, ln = pairs[i % len(pairs)] if style != 'short' else (1 + i % 2, 2)
        alpha = NAME_BYTES if style == 'latin1' or (style == 'mixed' and rng.random() < 0.15) else IDENT_BYTES
        while True:
            reuse = [g for g in groups if len(g) == lg]
            if reuse and rng.random() < 0.5:
                g = rng.choice(reuse)
            else:
                g = bytes(rng.choice(alpha) for _ in range(lg))
            nm = bytes(rng.choice(alpha) for _ in range(ln))
            if (g, nm) not in seen:
                break
            if lg == 1 and ln == 1 and len(seen) > 200:
                ln = 2          # the 1+1 name space may be exhausted in big tables
        seen.add((g, nm))
        if g not in groups:
            groups.append(g)
        code = codes[(i + off) % len(codes)]
        e = {'group': g, 'name': nm}
        if kind == 'log':
            e['type'] = code
            e['xt'] = 0
        else:
            t = code
            if rng.random() < 0.4:
                t |= 0x40
            if rng.random() < 0.2:
                t |= 0x20
            ext = rng.random() < 0.4
            if ext:
                t |= 0x10
            e['type'] = t
            # the extended type answered by the device: 1 = persistent; non-extended entries are
            # never asked, their value must not matter
            e['xt'] = rng.choice([0, 1, 1]) if ext else rng.choice([0, 1])
            w = PARAM_WIDTH[code]
            e['value'] = bytes(rng.randrange(256) for _ in range(w))
            e['default'] = bytes(w)
        out.append(e)
    return out


def service_entries(entries):
    """entries in the form simdev.services expects (ParamService reads 'ext' as the extended type)"""
    out = []
    for e in entries:
        d = {'group': bytes(e['group']), 'name': bytes(e['name']), 'type': e['type']}
        if 'value' in e:
            d.update(value=bytes(e['value']), default=bytes(e['default']), ext=e['xt'], stored=None)
        out.append(d)
    return out


def table_json(entries):
    return [{'group': list(e['group']), 'name': list(e['name']), 'type': e['type'], 'xt': e['xt']} for e in entries]


def kind_of(port, chan, data):
    """'log' / 'param' for packets of the table download (TOC channel, extended-type query)"""
    if port == sv.PORT_LOG and chan == 0:
        return 'log'
    if port == sv.PORT_LOG and chan == 1 and len(data) >= 1 and data[0] == 5:
        return 'log'            # RESET command / reply: the front end of the log download
    if port == sv.PORT_PARAM and chan == 0:
        return 'param'
    if port == sv.PORT_PARAM and chan == 3 and len(data) >= 1 and data[0] == 2:
        return 'param'
    return None


class ScriptFaults(sd.Faults):
    """downlink faults addressed by (kind, k) = k-th download reply of that table (1-based; for
    the log table the RESET reply is the first): script[kind][str(k)] = list of actions
    ('deliver' | 'dup' | ['hold', j]); ['deliver', ['hold', j]] = a duplicate that arrives j
    downlink packets later.  kind 'setup' = the other replies of the connection set-up in order
    of appearance (link-service source, protocol version, memory count), until connected."""

    def __init__(self, script=None):
        self.script = script or {}
        self.count = {'log': 0, 'param': 0, 'setup': 0}
        self.setup_on = True
        self.setup_seen = []

    def new_session(self):
        self.count = {'log': 0, 'param': 0, 'setup': 0}
        self.setup_on = True

    def downlink(self, dev, n, pk):
        k = kind_of(pk.port, pk.channel, bytes(pk.data))
        if k is None:
            if not self.setup_on or pk.port not in (sv.PORT_LINK, sv.PORT_PLATFORM, sv.PORT_MEM):
                return ['deliver']
            k = 'setup'
            self.setup_seen.append((pk.port, pk.channel))
        self.count[k] += 1
        acts = self.script.get(k, {}).get(str(self.count[k]))
        if not acts:
            return ['deliver']
        return [tuple(a) if isinstance(a, list) else a for a in acts]


class TocDevice(sd.Device):
    """Device that reports the download traffic to `rec(event)` and, for `manual` = 'log' /
    'param', leaves the delivery of that table's traffic to the harness (spec -> code replay):
    requests wait in `upq` until dev_reply(), replies wait in `bag` until deliver(i) / dup(i)."""

    def __init__(self, services, rec, manual=None, context=None, **kw):
        super().__init__(services, **kw)
        self.rec = rec
        self.manual = manual
        self.context = context or (lambda: None)     # () -> 'timeout' | 'ext' | None (who is sending)
        # (resends are reported by the harness at the moment the library decides them)
        self.upq = []
        self.bag = []
        self.n_up = {'log': 0, 'param': 0}

    def attach(self, link, attempt):
        r = super().attach(link, attempt)
        self.upq = []
        self.bag = []
        if hasattr(self.faults, 'new_session'):
            self.faults.new_session()
        return r

    def _process(self, link, pk, verdict):
        k = kind_of(pk.port, pk.channel, bytes(pk.data))
        if k is not None:
            self.n_up[k] += 1
            ctx = self.context()
            if ctx == 'ext' and pk.channel == 3:
                d = bytes(pk.data)
                self.rec({'e': 'extsend', 'kind': k, 'id': d[1] | (d[2] << 8)})
            if self.manual == k:
                self.upq.append((link, pk))
                return
        super()._process(link, pk, verdict)

    def downlink(self, link, pk):
        k = kind_of(pk.port, pk.channel, bytes(pk.data))
        if k is not None and link is self.link:
            self.rec({'e': 'devreply', 'kind': k, 'ch': pk.channel, 'd': list(pk.data)})
            if self.manual == k:
                self.bag.append(pk)
                return
        self._downlink(link, pk)

    def _downlink(self, link, pk):
        """Device.downlink, safe against flush_held() running in another virtual thread: the due
        packets leave `held` before the first yield point (queue.put inside _deliver)"""
        if link is None or link is not self.link:
            return
        self.down_n += 1
        acts = self.faults.downlink(self, self.down_n, pk)
        k = kind_of(pk.port, pk.channel, bytes(pk.data))
        copies = sum(1 for a in acts if a in ('deliver', 'dup') or (isinstance(a, tuple) and a[0] == 'hold'))
        if k is not None:
            for _ in range(max(0, copies - 1)):      # every copy beyond the first is a duplicate on the link
                self.rec({'e': 'dup', 'kind': k, 'ch': pk.channel, 'd': list(pk.data)})
        due = []
        for h in list(self.held):
            h[0] -= 1
            if h[0] <= 0:
                due.append(h)
        for h in due:
            self.held.remove(h)
        for a in acts:
            if isinstance(a, tuple) and a[0] == 'hold':
                self.held.append([a[1], pk])
        for a in acts:
            if a == 'deliver':
                self._deliver(link, pk, 'deliver')
            elif a == 'dup':
                self._deliver(link, pk, 'dup')
        for h in due:
            self._deliver(link, h[1], 'late')
        if 'fail' in acts:
            # the link dies while the library waits for this reply (reported by a driver thread)
            self._fail_driver(link)

    def set_tables(self, log_entries, param_entries, log_crc, param_crc):
        """the device was reflashed between two connections: other tables, other checksums"""
        self.services[sv.PORT_LOG].table = sv.TocTable(service_entries(log_entries), log_crc)
        self.services[sv.PORT_PARAM].table = sv.TocTable(service_entries(param_entries), param_crc)

    # ---- manual mode (called by the harness between scheduler runs)
    def dev_reply(self):
        link, pk = self.upq.pop(0)
        svc = self.services.get(pk.port)
        for r in (svc.handle(pk) if svc is not None else []):
            self.downlink(link, r)

    def find(self, ch, data):
        for i, pk in enumerate(self.bag):
            if pk.channel == ch and list(pk.data) == list(data):
                return i
        return None

    def deliver(self, i):
        pk = self.bag.pop(i)
        sd.Device._deliver(self, self.link, pk, 'deliver')

    def dup(self, i):
        pk = self.bag[i]
        self.rec({'e': 'dup', 'kind': kind_of(pk.port, pk.channel, bytes(pk.data)), 'ch': pk.channel,
                  'd': list(pk.data)})
        self.bag.append(pk)


class TocDriver(sd.SimDriver):
    """sim driver under the scheme tocsim://; tells the harness when the dispatcher comes back for
    the next packet (= the previous one has been handled completely)."""
    on_idle = None

    def connect(self, uri, radio_link_statistics_callback, link_error_callback):
        from cflib.crtp.exceptions import WrongUriType
        if not uri.startswith('tocsim://'):
            raise WrongUriType('Not a tocsim URI')
        super().connect('sim://' + uri[9:], radio_link_statistics_callback, link_error_callback)

    def receive_packet(self, wait=0):
        h = TocDriver.on_idle
        if h is not None:
            h()
        return super().receive_packet(wait)


def install():
    import cflib.crtp
    if TocDriver not in cflib.crtp.CLASSES:
        cflib.crtp.CLASSES.append(TocDriver)


def build_device(log_entries, param_entries, protocol_version, rec, log_crc=0x1A2B3C4D, param_crc=0x5E6F7081, **kw):
    svcs = {
        sv.PORT_LINK: sv.LinkService(magic=protocol_version >= 0),   # -1: no version service at all (oldest firmware)
        sv.PORT_PLATFORM: sv.PlatformService(max(0, protocol_version)),
        sv.PORT_LOG: sv.LogService(sv.TocTable(service_entries(log_entries), log_crc)),
        sv.PORT_PARAM: sv.ParamService(sv.TocTable(service_entries(param_entries), param_crc)),
        sv.PORT_MEM: sv.MemoryService([]),
    }
    v2 = protocol_version >= 4
    svcs[sv.PORT_LOG].v2 = v2
    svcs[sv.PORT_PARAM].v2 = v2
    return TocDevice(svcs, rec, **kw)


_ = struct
