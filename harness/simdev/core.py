"""Simulated Crazyflie at the CRTP byte level + the sim:// link driver.

The device is the executable twin of the Device* actions of the specs.  Firmware behaviour is
a stated assumption (DESIGN 3 "Device"), reconstructed from the library's decoders, the in-repo
dissector and the protocol docs; each service names its source.

A `World` holds the devices of one execution; `sim://<key>/<attempt>` selects a device.  The
driver class is appended to cflib.crtp.CLASSES by install()."""
from ..vsched import core as vcore
from ..vsched import vqueue, vthreading


class World:
    current = None

    def __init__(self):
        self.devices = {}
        self.log = []            # global, totally ordered event log of the execution
        self.seq = 0

    def event(self, **kw):
        self.seq += 1
        s = vcore.CUR
        kw['t'] = int(round(s.now * 1000)) if s is not None else 0
        self.log.append(kw)
        return kw

    def add(self, key, dev):
        self.devices[str(key)] = dev
        dev.world = self
        dev.key = str(key)
        return dev


def set_world(w):
    World.current = w
    return w


class Faults:
    """Default fault policy: nothing goes wrong.  Subclass / replace attributes per check.
    All hooks are deterministic functions of counters (or of a seeded rng the check installs)."""

    def connect(self, dev, attempt):
        """return None or an exception to raise from connect()"""
        return None

    def uplink(self, dev, n, pk):
        """n = number of uplink packets of this session so far (1-based).
        return 'ok' | 'lose' | 'fail_sender' (report link error synchronously from the sender,
        packet not delivered) | 'fail_driver' (packet delivered; error reported by driver thread)"""
        return 'ok'

    def downlink(self, dev, n, pk):
        """n = number of downlink packets generated this session (1-based).  return a list of
        actions for this reply: 'deliver', 'drop', 'dup', ('hold', k) = deliver after k further
        downlink packets, 'fail_driver' = report link failure (driver thread) after delivering"""
        return ['deliver']


class Device:
    """A simulated Crazyflie.  mode 'sync': replies are queued to the host inside send_packet
    (sender's thread).  mode 'thread': a virtual device thread processes uplink packets."""

    def __init__(self, services=None, mode='sync', needs_resending=False, faults=None):
        self.services = services or {}
        self.mode = mode
        self.needs_resending = needs_resending
        self.faults = faults or Faults()
        self.link = None             # attached SimDriver
        self.session = 0
        self.up_n = 0
        self.down_n = 0
        self.held = []               # [remaining, pk]
        self.rxq = None
        self.thread = None
        self.world = None
        self.key = '0'
        self.on_uplink = None        # observer(pk) after handling
        self.tagger = None           # optional () -> value stored on the packet as pk._sim_hint (sender context)

    # -- link management
    def attach(self, link, attempt):
        exc = self.faults.connect(self, attempt)
        if exc is not None:
            raise exc
        self.session += 1
        self.link = link
        self.up_n = 0
        self.down_n = 0
        self.held = []
        for svc in self.services.values():
            if hasattr(svc, 'new_session'):
                svc.new_session()
        if self.mode == 'thread':
            self.rxq = vqueue.Queue()
            self.thread = vthreading.Thread(target=self._run, args=(link, self.rxq))
            self.thread._vs_base_name = 'simdev'
            self.thread.daemon = True
            self.thread.start()
        self.world.event(e='attach', dev=self.key, session=self.session)
        return self.session

    def detach(self, link):
        if self.link is link:
            self.link = None
            if self.rxq is not None:
                self.rxq.put(None)
            self.world.event(e='detach', dev=self.key, session=self.session)

    # -- uplink
    def uplink(self, link, pk):
        if link is not self.link:
            self.world.event(e='up_stale', dev=self.key, hdr=pk.header & 0xF3, data=list(pk.data))
            return
        self.up_n += 1
        pk._sim_hint = self.tagger() if self.tagger else 0
        verdict = self.faults.uplink(self, self.up_n, pk)
        self.world.event(e='up', dev=self.key, session=self.session, n=self.up_n, port=pk.port,
                         chan=pk.channel, data=list(pk.data), fate=verdict, hint=pk._sim_hint)
        if verdict == 'lose':
            return
        if verdict == 'fail_sender':
            self.world.event(e='link_error', dev=self.key, by='sender', n=self.up_n)
            link.report_error('simulated link failure (reported from sender) after %d packets' % self.up_n)
            return
        if self.mode == 'thread':
            self.rxq.put((pk, verdict))
        else:
            self._process(link, pk, verdict)

    def _run(self, link, rxq):
        while True:
            item = rxq.get()
            if item is None:
                return
            if callable(item):
                item()
                continue
            pk, verdict = item
            self._process(link, pk, verdict)

    def _process(self, link, pk, verdict):
        svc = self.services.get(pk.port)
        replies = svc.handle(pk) if svc is not None else []
        if self.on_uplink:
            self.on_uplink(pk)
        for r in replies:
            self.downlink(link, r)
        if verdict == 'fail_driver':
            self._fail_driver(link)

    def _fail_driver(self, link):
        # reported from a thread of the driver's own, like the radio driver thread does
        def report():
            self.world.event(e='link_error', dev=self.key, by='driver', n=self.up_n)
            link.report_error('simulated link failure (reported from driver thread)')
        t = vthreading.Thread(target=report)
        t._vs_base_name = 'simdriver'
        t.daemon = True
        t.start()

    # -- downlink
    def downlink(self, link, pk):
        if link is None or link is not self.link:
            return
        self.down_n += 1
        acts = self.faults.downlink(self, self.down_n, pk)
        # release held packets whose time has come
        due = []
        for h in self.held:
            h[0] -= 1
            if h[0] <= 0:
                due.append(h)
        for a in acts:
            if a == 'deliver':
                self._deliver(link, pk, 'deliver')
            elif a == 'dup':
                self._deliver(link, pk, 'dup')
            elif a == 'drop':
                self.world.event(e='down_drop', dev=self.key, n=self.down_n, port=pk.port, chan=pk.channel,
                                 data=list(pk.data))
            elif isinstance(a, tuple) and a[0] == 'hold':
                self.held.append([a[1], pk])
            elif a == 'fail_driver':
                self._fail_driver(link)
        for h in due:
            self.held.remove(h)
            self._deliver(link, h[1], 'late')

    def flush_held(self):
        link = self.link
        held, self.held = self.held, []
        for h in held:
            if link is not None:
                self._deliver(link, h[1], 'late')

    def _deliver(self, link, pk, how):
        if link.closed:
            return
        from cflib.crtp.crtpstack import CRTPPacket
        cp = CRTPPacket(pk.header & 0xF3, bytes(pk.data))
        self.world.event(e='down', dev=self.key, session=self.session, port=cp.port, chan=cp.channel,
                         data=list(cp.data), how=how)
        link.in_queue.put(cp)

    def emit(self, pk):
        """Unsolicited downlink packet (log data, notifications)."""
        if self.link is not None:
            self.downlink(self.link, pk)


def reply(port, chan, data):
    from cflib.crtp.crtpstack import CRTPPacket
    return CRTPPacket(((port & 0xF) << 4) | (chan & 3), bytes(bytearray(data)))


class SimDriver:
    """cflib link driver for sim:// URIs (duck-typed CRTPDriver)."""

    def __init__(self):
        self.needs_resending = True
        self.closed = True
        self.dev = None
        self.in_queue = None
        self.link_error_callback = None
        self.uri = ''

    def connect(self, uri, radio_link_statistics_callback, link_error_callback):
        from cflib.crtp.exceptions import WrongUriType
        if not uri.startswith('sim://'):
            raise WrongUriType('Not a sim URI')
        parts = uri[6:].split('/')
        key = parts[0]
        attempt = int(parts[1]) if len(parts) > 1 and parts[1].isdigit() else 0
        w = World.current
        if w is None or key not in w.devices:
            raise Exception('No simulated device %r' % key)
        self.uri = uri
        self.dev = w.devices[key]
        self.in_queue = vqueue.Queue()
        self.link_error_callback = link_error_callback
        self.needs_resending = self.dev.needs_resending
        self.closed = False
        self.dev.attach(self, attempt)

    def report_error(self, msg):
        if self.link_error_callback is not None:
            self.link_error_callback(msg)

    def send_packet(self, pk):
        if self.closed or self.dev is None:
            w = World.current
            if w is not None:
                w.event(e='up_closed', uri=self.uri, port=pk.port, chan=pk.channel, data=list(pk.data))
            return
        self.dev.uplink(self, pk)

    def receive_packet(self, wait=0):
        try:
            if wait == 0:
                return self.in_queue.get(False)
            elif wait < 0:
                return self.in_queue.get(True)
            return self.in_queue.get(True, wait)
        except vqueue.Empty:
            return None

    def get_status(self):
        return 'sim'

    def get_name(self):
        return 'sim'

    def scan_interface(self, address=None):
        return []

    def enum(self):
        return []

    def get_help(self):
        return None

    def close(self):
        if not self.closed:
            self.closed = True
            if self.dev is not None:
                self.dev.detach(self)


def install():
    """Register the sim driver with cflib.crtp (idempotent)."""
    import cflib.crtp
    if SimDriver not in cflib.crtp.CLASSES:
        cflib.crtp.CLASSES.append(SimDriver)
