"""Protocol services of the simulated Crazyflie.

Sources for the layouts (independent of the encoders under test where possible):
  [dis]  /repo/tools/crtp-dissector.lua (firmware structs quoted there)
  [doc]  /repo/docs
  [dec]  the library's decoder for the opposite direction
  [fw]   recollection of crazyflie-firmware (mem.c, log.c, param_logic.c, platformservice.c)
"""
import struct

from .core import reply

PORT_CONSOLE, PORT_PARAM, PORT_COMMANDER, PORT_MEM, PORT_LOG = 0, 2, 3, 4, 5
PORT_LOC, PORT_SETPOINT, PORT_HL, PORT_PLATFORM, PORT_LINK = 6, 7, 8, 13, 15


class LinkService:
    """Port 15.  ch0 echo (latency ping), ch1 source ("Bitcraze Crazyflie" magic) [fw crtpservice.c],
    ch3 = null/safelink packets (ignored)."""

    def __init__(self, magic=True):
        self.magic = magic

    def handle(self, pk):
        if pk.channel == 0:
            return [reply(PORT_LINK, 0, pk.data)]
        if pk.channel == 1:
            if self.magic:
                return [reply(PORT_LINK, 1, b'Bitcraze Crazyflie' + b'\x00' * 12)]
            return [reply(PORT_LINK, 1, b'\x00' * 30)]
        return []


class PlatformService:
    """Port 13.  ch1 version: cmd 0 -> [0, protocol version] [dec platformservice.py][fw]."""

    def __init__(self, protocol_version=10):
        self.protocol_version = protocol_version
        self.commands = []

    def handle(self, pk):
        if pk.channel == 1 and len(pk.data) >= 1:
            if pk.data[0] == 0:
                return [reply(PORT_PLATFORM, 1, bytes([0, self.protocol_version]))]
            if pk.data[0] == 1:
                return [reply(PORT_PLATFORM, 1, bytes([1]) + b'sim-fw')]
        if pk.channel == 0:
            self.commands.append(bytes(pk.data))
        return []


class MemoryService:
    """Port 4 [fw mem.c][dec mem/__init__.py].
    ch0 info: [1] -> [1, nbr];  [2, i] -> [2, i, type, size u32, addr 8 bytes] (or [2, i] if i invalid)
    ch1 read: [id, addr u32, len] -> [id, addr u32, status, data...]
    ch2 write: [id, addr u32, data...] -> [id, addr u32, status]"""

    def __init__(self, mems=None):
        # mems: list of dict(type, size, image: bytearray, addr: 8 bytes)
        self.mems = mems or []
        self.status = None      # optional hook(kind, id, addr, n) -> status byte
        self.n = 0

    def handle(self, pk):
        d = bytes(pk.data)
        if pk.channel == 0:
            if d[:1] == b'\x01':
                return [reply(PORT_MEM, 0, bytes([1, len(self.mems)]))]
            if d[:1] == b'\x02' and len(d) >= 2:
                i = d[1]
                if i < len(self.mems):
                    m = self.mems[i]
                    return [reply(PORT_MEM, 0, bytes([2, i, m['type']]) + struct.pack('<I', m['size']) +
                                  bytes(m.get('addr', b'\x00' * 8)))]
                return [reply(PORT_MEM, 0, bytes([2, i]))]
            if d[:1] == b'\x00':
                return [reply(PORT_MEM, 0, bytes([0, 1]))]
            return []
        if pk.channel == 1 and len(d) >= 6:
            mid, addr, ln = struct.unpack('<BIB', d[:6])
            self.n += 1
            st = self.status('read', mid, addr, self.n) if self.status else 0
            if mid >= len(self.mems):
                st = st or 2      # ENOENT
            if st == 0:
                img = self.mems[mid]['image']
                if addr + ln > len(img):
                    st = 22       # EINVAL-ish
            if st != 0:
                return [reply(PORT_MEM, 1, struct.pack('<BIB', mid, addr, st))]
            return [reply(PORT_MEM, 1, struct.pack('<BIB', mid, addr, 0) + bytes(img[addr:addr + ln]))]
        if pk.channel == 2 and len(d) >= 5:
            mid, addr = struct.unpack('<BI', d[:5])
            data = d[5:]
            self.n += 1
            st = self.status('write', mid, addr, self.n) if self.status else 0
            if mid >= len(self.mems):
                st = st or 2
            if st == 0:
                img = self.mems[mid]['image']
                if addr + len(data) > len(img):
                    st = 22
                else:
                    img[addr:addr + len(data)] = data
            return [reply(PORT_MEM, 2, struct.pack('<BIB', mid, addr, st))]
        return []


def _toc_item_bytes(kind_byte, group, name):
    return bytes([kind_byte]) + group + b'\x00' + name + b'\x00'


class TocTable:
    """A device table of contents.  entries: list of dict(group: bytes, name: bytes, type: int
    (wire type byte incl. flag bits), plus service-specific keys).  crc: u32 announced."""

    def __init__(self, entries, crc):
        self.entries = entries
        self.crc = crc

    def handle_toc(self, port, pk, v2_extra=b''):
        """ch0 TOC commands [dis: toc v2 info/item][dec toc.py].
        V1: [1] -> [1, n u8, crc u32 (+ extras)]; [0, i] -> [0, i, type, group\\0name\\0]
        V2: [3] -> [3, n u16, crc u32 (+ extras)]; [2, i u16] -> [2, i u16, type, group\\0name\\0]
        An index beyond the table gets an empty item reply [cmd] (fw: "if (n<count) ... else p.size=1")."""
        d = bytes(pk.data)
        if not d:
            return []
        c = d[0]
        n = len(self.entries)
        if c == 1:
            return [reply(port, 0, bytes([1, n & 0xFF]) + struct.pack('<I', self.crc) + v2_extra)]
        if c == 3:
            return [reply(port, 0, bytes([3]) + struct.pack('<HI', n, self.crc) + v2_extra)]
        if c == 0 and len(d) >= 2:
            i = d[1]
            if i < n:
                e = self.entries[i]
                return [reply(port, 0, bytes([0, i]) + _toc_item_bytes(e['type'], e['group'], e['name']))]
            return [reply(port, 0, bytes([0]))]
        if c == 2 and len(d) >= 3:
            i = d[1] | (d[2] << 8)
            if i < n:
                e = self.entries[i]
                return [reply(port, 0, bytes([2, d[1], d[2]]) + _toc_item_bytes(e['type'], e['group'], e['name']))]
            return [reply(port, 0, bytes([2]))]
        return []


LOG_SIZES = {1: 1, 2: 2, 3: 4, 4: 1, 5: 2, 6: 4, 7: 4, 8: 2}   # [fw log.h typeLength]


class LogService:
    """Port 5 [fw log.c][dec log.py].  ch1 control: reply is always [cmd, id, status].
    CREATE_BLOCK_V2 [6, id, (type, idx u16)*], APPEND_BLOCK_V2 [7, id, (type, idx u16)*]
    (the firmware consumes whole 3-byte entries: ops = (len-2)/3, a trailing remainder is ignored),
    V1: CREATE [0, id, (type, idx u8)*], APPEND [1, ...]; a type byte with stored-nibble 0 ... raw
    memory variables are (type, addr u32) [fw: logType & 0x0F == 0 -> memory] -- see note in handle.
    DELETE [2, id], START [3, id, period], STOP [4, id], RESET [5]."""

    def __init__(self, table):
        self.table = table
        self.blocks = {}       # id -> dict(vars: [(typebyte, kind, ref)], started, period)
        self.control = []      # every control message received: (cmd, bytes)
        self.status = None     # hook(cmd, id) -> status override
        self.v2 = True

    def new_session(self):
        self.blocks = {}

    def _parse_vars(self, d, v2):
        """firmware-side decode of the variable list of a create/append message"""
        out = []
        i = 0
        while True:
            if v2:
                if i + 3 > len(d):
                    break
                t = d[i]
                out.append((t, 'toc', d[i + 1] | (d[i + 2] << 8)))
                i += 3
            else:
                if i + 2 > len(d):
                    break
                out.append((d[i], 'toc', d[i + 1]))
                i += 2
        return out

    def handle(self, pk):
        d = bytes(pk.data)
        if pk.channel == 0:
            return self.table.handle_toc(PORT_LOG, pk, v2_extra=bytes([16, 128]))
        if pk.channel != 1 or not d:
            return []
        cmd = d[0]
        bid = d[1] if len(d) > 1 else 0
        self.control.append((cmd, d))
        st = 0
        if cmd in (0, 6):
            if bid in self.blocks:
                st = 17       # EEXIST
            else:
                self.blocks[bid] = {'vars': self._parse_vars(d[2:], cmd == 6), 'started': False, 'period': 0}
        elif cmd in (1, 7):
            if bid not in self.blocks:
                st = 2
            else:
                self.blocks[bid]['vars'] += self._parse_vars(d[2:], cmd == 7)
        elif cmd == 2:
            if bid in self.blocks:
                del self.blocks[bid]
            else:
                st = 2
        elif cmd == 3:
            if bid in self.blocks:
                self.blocks[bid]['started'] = True
                self.blocks[bid]['period'] = d[2] if len(d) > 2 else 0
            else:
                st = 2
        elif cmd == 4:
            if bid in self.blocks:
                self.blocks[bid]['started'] = False
            else:
                st = 2
        elif cmd == 5:
            self.blocks = {}
        else:
            st = 8            # ENOEXEC
        if self.status:
            o = self.status(cmd, bid)
            if o is not None:
                st = o
        return [reply(PORT_LOG, 1, bytes([cmd, bid, st]))]

    def data_packet(self, bid, ts, payload):
        return reply(PORT_LOG, 2, bytes([bid, ts & 0xFF, (ts >> 8) & 0xFF, (ts >> 16) & 0xFF]) + bytes(payload))


PARAM_FMT = {0x08: '<B', 0x09: '<H', 0x0A: '<L', 0x0B: '<Q', 0x00: '<b', 0x01: '<h', 0x02: '<i', 0x03: '<q',
             0x06: '<f', 0x07: '<d'}     # [fw param.h PARAM_*] low nibble of the type byte


class ParamService:
    """Port 2 [fw param_logic.c][dis param read/write v2][dec param.py].
    entries carry: value (bytes, little endian, width of the type), default (bytes), ext (0/1),
    stored (None | bytes).  type byte: bits0-3 type, 0x10 extended, 0x40 read-only.
    ch1 read  V2: [id u16] -> [id u16, 0, value]     V1: [id u8] -> [id u8, value]
    ch2 write V2: [id u16, value] -> [id u16, value]  V1: [id u8, value] -> [id u8, value]
    ch3 misc: [2, id u16] -> [2, id, exttype]; [3|5, id] -> [cmd, id, status]; [4, id] ->
    [4, id, state, default (, stored)]; [6, id] -> [6, id, default] (or [6, id, ENOENT])."""

    def __init__(self, table):
        self.table = table
        self.requests = []     # (chan, bytes) log of every request
        self.v2 = True

    def _width(self, e):
        return struct.calcsize(PARAM_FMT[e['type'] & 0x0F])

    def notify(self, i):
        """unsolicited value-changed notification [1, id u16, value]"""
        e = self.table.entries[i]
        return reply(PORT_PARAM, 3, bytes([1]) + struct.pack('<H', i) + e['value'])

    def handle(self, pk):
        d = bytes(pk.data)
        ents = self.table.entries
        if pk.channel == 0:
            return self.table.handle_toc(PORT_PARAM, pk)
        self.requests.append((pk.channel, d))
        if pk.channel == 1:
            if self.v2:
                if len(d) < 2:
                    return []
                i = d[0] | (d[1] << 8)
                if i < len(ents):
                    return [reply(PORT_PARAM, 1, d[:2] + b'\x00' + ents[i]['value'])]
                return [reply(PORT_PARAM, 1, d[:2] + bytes([2]))]
            i = d[0]
            if i < len(ents):
                return [reply(PORT_PARAM, 1, d[:1] + ents[i]['value'])]
            return [reply(PORT_PARAM, 1, bytes([0xFF, i, 2]))]
        if pk.channel == 2:
            k = 2 if self.v2 else 1
            if len(d) < k:
                return []
            i = (d[0] | (d[1] << 8)) if self.v2 else d[0]
            if i < len(ents):
                e = ents[i]
                w = self._width(e)
                if not (e['type'] & 0x40) and len(d) >= k + w:
                    e['value'] = d[k:k + w]
                return [reply(PORT_PARAM, 2, d[:k] + e['value'])]
            return [reply(PORT_PARAM, 2, d[:k] + bytes([2]))]
        if pk.channel == 3 and len(d) >= 3:
            cmd = d[0]
            i = d[1] | (d[2] << 8)
            e = ents[i] if i < len(ents) else None
            if cmd == 2:
                return [reply(PORT_PARAM, 3, d[:3] + bytes([e.get('ext', 0) if e else 0]))]
            if cmd == 3:
                if e is None or not e.get('ext'):
                    return [reply(PORT_PARAM, 3, d[:3] + bytes([2]))]
                e['stored'] = e['value']
                return [reply(PORT_PARAM, 3, d[:3] + bytes([0]))]
            if cmd == 5:
                if e is None or not e.get('ext'):
                    return [reply(PORT_PARAM, 3, d[:3] + bytes([2]))]
                e['stored'] = None
                return [reply(PORT_PARAM, 3, d[:3] + bytes([0]))]
            if cmd == 4:
                if e is None or not e.get('ext'):
                    return [reply(PORT_PARAM, 3, d[:3] + bytes([2]))]
                if e.get('stored') is None:
                    return [reply(PORT_PARAM, 3, d[:3] + bytes([0]) + e['default'])]
                return [reply(PORT_PARAM, 3, d[:3] + bytes([1]) + e['default'] + e['stored'])]
            if cmd == 6:
                if e is None:
                    return [reply(PORT_PARAM, 3, d[:3] + bytes([2]))]
                return [reply(PORT_PARAM, 3, d[:3] + e['default'])]
        return []


def standard_device(log_entries=None, param_entries=None, mems=None, protocol_version=10, log_crc=0x11111111,
                    param_crc=0x22222222, **kw):
    """A complete simulated Crazyflie with small tables (for handshakes)."""
    from .core import Device
    if log_entries is None:
        log_entries = [{'group': b'pm', 'name': b'vbat', 'type': 7}]
    if param_entries is None:
        param_entries = [
            {'group': b'ring', 'name': b'effect', 'type': 0x08, 'value': b'\x06', 'default': b'\x06', 'ext': 0},
            {'group': b'pid', 'name': b'kp', 'type': 0x06, 'value': struct.pack('<f', 1.5),
             'default': struct.pack('<f', 1.0), 'ext': 0},
        ]
    svcs = {
        PORT_LINK: LinkService(),
        PORT_PLATFORM: PlatformService(protocol_version),
        PORT_LOG: LogService(TocTable(log_entries, log_crc)),
        PORT_PARAM: ParamService(TocTable(param_entries, param_crc)),
        PORT_MEM: MemoryService(mems if mems is not None else []),
    }
    v2 = protocol_version >= 4
    svcs[PORT_LOG].v2 = v2
    svcs[PORT_PARAM].v2 = v2
    return Device(svcs, **kw)
