"""Entry point: python -m harness.check Cxx --tier quick|thorough [--replay file]"""
import argparse
import importlib
import os

from . import common


def main():
    ap = argparse.ArgumentParser()
    ap.add_argument('prop')
    ap.add_argument('--tier', default=os.environ.get('VERIF_TIER', 'quick'), choices=['quick', 'thorough'])
    ap.add_argument('--replay')
    a = ap.parse_args()
    mod = importlib.import_module('harness.props.' + a.prop)
    return mod.main(a.tier, common.seed_from_env(), replay=a.replay)


if __name__ == '__main__':
    common.main_wrapper(main)
