"""Virtual replacements for the parts of `threading` that cflib uses."""
import threading as _rt

from . import core
from .core import Op


def _sched():
    return core.CUR


def _do(op):
    s = core.CUR
    if s is None:
        if op.ready():
            return op.fire()
        if op.timeout_result is not None and op.deadline is not None:
            return op.timeout_result()
        raise core.WouldBlock(op.kind)
    return s.yield_op(op)


def _deadline(timeout):
    s = core.CUR
    now = s.now if s is not None else 0.0
    return now + timeout


class Lock:
    def __init__(self):
        self._owner = None     # ThreadRec | 'unmanaged' | None
        self._locked = False

    def acquire(self, blocking=True, timeout=-1):
        me = core.CUR.current() if core.CUR is not None else None

        def fire():
            self._locked = True
            self._owner = me.name if me is not None else 'unmanaged'
            return True
        if not blocking:
            return _do(Op('lock.acquire', self, lambda: True,
                          lambda: fire() if not self._locked else False))
        if timeout is not None and timeout >= 0:
            return _do(Op('lock.acquire', self, lambda: not self._locked, fire,
                          deadline=_deadline(timeout), timeout_result=lambda: False))
        return _do(Op('lock.acquire', self, lambda: not self._locked, fire))

    def release(self):
        def fire():
            if not self._locked:
                raise RuntimeError('release unlocked lock')
            self._locked = False
            self._owner = None
        return _do(Op('lock.release', self, lambda: True, fire))

    def locked(self):
        return self._locked

    __enter__ = acquire

    def __exit__(self, *a):
        self.release()


class RLock:
    def __init__(self):
        self._owner = None
        self._count = 0

    def _me(self):
        me = core.CUR.current() if core.CUR is not None else None
        return me.name if me is not None else 'unmanaged'

    def acquire(self, blocking=True, timeout=-1):
        me = self._me()

        def ready():
            return self._count == 0 or self._owner == me

        def fire():
            self._owner = me
            self._count += 1
            return True
        if not blocking:
            return _do(Op('rlock.acquire', self, lambda: True, lambda: fire() if ready() else False))
        if timeout is not None and timeout >= 0:
            return _do(Op('rlock.acquire', self, ready, fire, deadline=_deadline(timeout),
                          timeout_result=lambda: False))
        return _do(Op('rlock.acquire', self, ready, fire))

    def locked(self):          # for the harness' projections (threading.RLock has no such method before 3.14)
        return self._count > 0

    def release(self):
        me = self._me()        # the caller (fire() is executed by the controller)

        def fire():
            if self._count == 0 or self._owner != me:
                raise RuntimeError('cannot release un-acquired lock')
            self._count -= 1
            if self._count == 0:
                self._owner = None
        return _do(Op('rlock.release', self, lambda: True, fire))

    __enter__ = acquire

    def __exit__(self, *a):
        self.release()


class Semaphore:
    def __init__(self, value=1):
        if value < 0:
            raise ValueError('semaphore initial value must be >= 0')
        self._value = value

    def acquire(self, blocking=True, timeout=None):
        def fire():
            self._value -= 1
            return True
        if not blocking:
            return _do(Op('sem.acquire', self, lambda: True,
                          lambda: fire() if self._value > 0 else False))
        if timeout is not None:
            return _do(Op('sem.acquire', self, lambda: self._value > 0, fire,
                          deadline=_deadline(timeout), timeout_result=lambda: False))
        return _do(Op('sem.acquire', self, lambda: self._value > 0, fire))

    def release(self, n=1):
        def fire():
            self._value += n
        return _do(Op('sem.release', self, lambda: True, fire))

    __enter__ = acquire

    def __exit__(self, *a):
        self.release()


BoundedSemaphore = Semaphore


class Event:
    def __init__(self):
        self._flag = False

    def is_set(self):
        return self._flag

    isSet = is_set

    def set(self):
        def fire():
            self._flag = True
        return _do(Op('event.set', self, lambda: True, fire))

    def clear(self):
        def fire():
            self._flag = False
        return _do(Op('event.clear', self, lambda: True, fire))

    def wait(self, timeout=None):
        if timeout is not None:
            return _do(Op('event.wait', self, lambda: self._flag, lambda: True,
                          deadline=_deadline(max(0.0, timeout)), timeout_result=lambda: self._flag))
        return _do(Op('event.wait', self, lambda: self._flag, lambda: True))


class Condition:
    """Minimal condition variable (not used by cflib today; present for completeness)."""

    def __init__(self, lock=None):
        self._lock = lock if lock is not None else RLock()
        self._waiters = []
        self.acquire = self._lock.acquire
        self.release = self._lock.release

    def __enter__(self):
        return self._lock.acquire()

    def __exit__(self, *a):
        self._lock.release()

    def wait(self, timeout=None):
        ev = Event()
        self._waiters.append(ev)
        self._lock.release()
        try:
            return ev.wait(timeout)
        finally:
            self._lock.acquire()
            if ev in self._waiters:
                self._waiters.remove(ev)

    def notify(self, n=1):
        for ev in self._waiters[:n]:
            ev.set()
        del self._waiters[:n]

    def notify_all(self):
        self.notify(len(self._waiters))

    notifyAll = notify_all


class Thread:
    _vs_base_name = None

    def __init__(self, group=None, target=None, name=None, args=(), kwargs=None, daemon=None):
        self._target = target
        self._args = args
        self._kwargs = kwargs or {}
        self._name_user = name
        self.daemon = bool(daemon)
        self._vs_rec = None
        self._vs_started = False
        self._vs_unmanaged_done = False

    # -- name property like the real one
    @property
    def name(self):
        if self._name_user:
            return self._name_user
        return self._vs_rec.name if self._vs_rec else type(self).__name__

    @name.setter
    def name(self, v):
        self._name_user = v

    def setDaemon(self, d):
        self.daemon = d

    def run(self):
        if self._target is not None:
            self._target(*self._args, **self._kwargs)

    def start(self):
        if self._vs_started:
            raise RuntimeError('threads can only be started once')
        s = core.CUR
        if s is None:
            raise RuntimeError('virtual Thread.start() without an active scheduler')
        self._vs_started = True
        base = self._vs_base_name or type(self).__name__
        if base == 'Thread' and self._target is not None:
            base = 'Thread:' + getattr(self._target, '__name__', 'target')
        rec = s.register(self, base)
        self._vs_rec = rec

        def fire():
            rec.started = True
            rec.pending = Op('thread.begin', self, lambda: True, lambda: None)
            th = _rt.Thread(target=core.thread_main, args=(s, rec, self.run), daemon=True)
            rec.os_thread = th
            th.start()
        return _do(Op('thread.start', self, lambda: True, fire))

    def join(self, timeout=None):
        rec = self._vs_rec
        if rec is None:
            raise RuntimeError('cannot join thread before it is started')
        s = core.CUR
        me = s.current() if s is not None else None
        if me is rec:
            raise RuntimeError('cannot join current thread')
        if timeout is not None:
            return _do(Op('thread.join', self, lambda: rec.finished, lambda: None,
                          deadline=_deadline(max(0.0, timeout)), timeout_result=lambda: None))
        return _do(Op('thread.join', self, lambda: rec.finished, lambda: None))

    def is_alive(self):
        rec = self._vs_rec
        return rec is not None and rec.started and not rec.finished

    isAlive = is_alive

    @property
    def ident(self):
        return self._vs_rec.tid if self._vs_rec else None


class Timer(Thread):
    def __init__(self, interval, function, args=None, kwargs=None):
        Thread.__init__(self)
        self.interval = interval
        self.function = function
        self.args = args if args is not None else []
        self.kwargs = kwargs if kwargs is not None else {}
        self.finished = Event()

    def cancel(self):
        self.finished.set()

    def run(self):
        self.finished.wait(self.interval)
        if not self.finished.is_set():
            self.function(*self.args, **self.kwargs)
        self.finished.set()


class _MainThread:
    name = 'MainThread'
    daemon = False

    def is_alive(self):
        return True


_main = _MainThread()


def current_thread():
    s = core.CUR
    if s is not None:
        rec = s.current()
        if rec is not None:
            return rec.vt
    return _main


currentThread = current_thread


def main_thread():
    return _main


def get_ident():
    s = core.CUR
    if s is not None:
        rec = s.current()
        if rec is not None:
            return rec.tid + 1000
    return 1


def __getattr__(name):          # anything else: the real module
    return getattr(_rt, name)
