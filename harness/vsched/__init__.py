"""vsched: deterministic scheduling of the *unmodified* cflib.

load_cflib() imports every cflib module while sys.modules['threading'|'queue'|'time'] are the
virtual shims, so `from threading import Thread, Lock, Timer`, `import queue`, `import time`
inside cflib bind to virtual primitives.  All non-cflib modules cflib imports are imported
*before* the window, so nothing else sees the shims.
"""
import ast
import importlib
import os
import pkgutil
import sys
from contextlib import contextmanager

from . import core
from .core import (FifoPolicy, Kill, PCTPolicy, RandomPolicy, Scheduler, ScriptPolicy, TICK,  # noqa
                   WouldBlock)

REPO = os.environ.get('VERIF_REPO', '/repo')
_loaded = False


def _external_imports(root):
    mods = set()
    for dirpath, _dirs, files in os.walk(root):
        for f in files:
            if not f.endswith('.py'):
                continue
            try:
                tree = ast.parse(open(os.path.join(dirpath, f), encoding='utf-8').read())
            except SyntaxError:
                continue
            for node in ast.walk(tree):
                if isinstance(node, ast.Import):
                    for a in node.names:
                        mods.add(a.name)
                elif isinstance(node, ast.ImportFrom):
                    if node.level == 0 and node.module:
                        mods.add(node.module)
    return sorted(m for m in mods if not m.startswith(('cflib', 'lpslib', 'cfclient')))


def load_cflib(extra=()):
    """Import cflib (from VERIF_REPO) bound to the virtual primitives.  Idempotent."""
    global _loaded
    if _loaded:
        return
    if REPO not in sys.path:
        sys.path.insert(0, REPO)
    for name in list(sys.modules):
        if name == 'cflib' or name.startswith('cflib.') or name == 'lpslib' or name.startswith('lpslib.'):
            raise RuntimeError('cflib was imported before vsched.load_cflib()')
    import logging
    logging.disable(logging.CRITICAL)
    for m in _external_imports(os.path.join(REPO, 'cflib')) + _external_imports(os.path.join(REPO, 'lpslib')):
        try:
            importlib.import_module(m)
        except Exception:
            pass
    from . import vqueue, vthreading, vtime
    saved = {k: sys.modules.get(k) for k in ('threading', 'queue', 'time')}
    sys.modules['threading'] = vthreading
    sys.modules['queue'] = vqueue
    sys.modules['time'] = vtime
    try:
        import cflib
        import lpslib  # noqa
        for pkg in ('cflib', 'lpslib'):
            p = importlib.import_module(pkg)
            for mi in pkgutil.walk_packages(p.__path__, pkg + '.'):
                try:
                    importlib.import_module(mi.name)
                except Exception:       # optional drivers without their native dependency
                    pass
        for m in extra:
            importlib.import_module(m)
    finally:
        for k, v in saved.items():
            if v is not None:
                sys.modules[k] = v
    _loaded = True


@contextmanager
def scheduler(policy=None, **kw):
    """Activate a fresh Scheduler for one execution; always tears the threads down."""
    s = Scheduler(policy=policy or FifoPolicy(), **kw)
    prev = core.CUR
    core.CUR = s
    try:
        yield s
    finally:
        s.leaked = s.shutdown()
        core.CUR = prev


class shared_attr:
    """Class-level data descriptor that makes reads/writes of an instance attribute yield
    points (value lives in the instance __dict__, so the code's semantics are unchanged)."""

    def __init__(self, name, reads=True, writes=True):
        self.name = name
        self.reads = reads
        self.writes = writes

    def __get__(self, obj, objtype=None):
        if obj is None:
            return self
        s = core.CUR
        if self.reads and s is not None and s.current() is not None:
            s.yield_op(core.Op('attr.read:' + self.name, obj, lambda: True, lambda: None))
        try:
            return obj.__dict__[self.name]
        except KeyError:
            raise AttributeError(self.name)

    def __set__(self, obj, value):
        s = core.CUR
        if self.writes and s is not None and s.current() is not None:
            s.yield_op(core.Op('attr.write:' + self.name, obj, lambda: True, lambda: None))
        obj.__dict__[self.name] = value


@contextmanager
def shared_attrs(cls, *names):
    for n in names:
        setattr(cls, n, shared_attr(n))
    try:
        yield
    finally:
        for n in names:
            delattr(cls, n)
