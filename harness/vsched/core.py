"""Deterministic virtual scheduler.

Every virtual thread is a real OS thread gated by a baton: exactly one runs at a time.  Every
operation of the virtual synchronisation primitives (Lock, Semaphore, Event, Queue, Thread
start/join, Timer, sleep) and every access to an attribute the harness marked as shared is a
*yield point*: the thread publishes a pending operation and parks until the controller grants
it.  Time is virtual.  A schedule is the list of controller choices and is replayable.

The primitives keep no reference to a scheduler: they look up the module-global CUR at the
time of the operation.  With CUR None (import time, harness set-up code) operations execute
immediately.
"""
import sys
import threading as _rt
import traceback

CUR = None          # the active Scheduler, if any
_tls = _rt.local()  # .vt = the VThread the running OS thread embodies

TICK = '<tick>'


class Kill(BaseException):
    """Raised inside virtual threads at teardown."""


class WouldBlock(Exception):
    """An unmanaged (controller-context) operation would have to block."""


class Op:
    __slots__ = ('kind', 'obj', 'ready', 'fire', 'deadline', 'site', 'timeout_result', 'info')

    def __init__(self, kind, obj, ready, fire, deadline=None, timeout_result=None, info=None):
        self.kind = kind            # 'lock.acquire', 'queue.get', ...
        self.obj = obj
        self.ready = ready          # () -> bool
        self.fire = fire            # () -> result   (executed by the controller, atomically)
        self.deadline = deadline    # virtual time or None
        self.timeout_result = timeout_result  # () -> result/raises, when deadline reached
        self.site = None
        self.info = info


def _site():
    """Innermost frame outside the harness: (file basename, function, line)."""
    f = sys._getframe(2)
    while f is not None:
        fn = f.f_code.co_filename
        if '/vsched/' not in fn:
            return (fn.rsplit('/', 1)[-1], f.f_code.co_name, f.f_lineno)
        f = f.f_back
    return ('?', '?', 0)


class ThreadRec:
    """Scheduler-side record of a virtual thread."""

    def __init__(self, vthread, name, tid):
        self.vt = vthread
        self.name = name
        self.tid = tid
        self.go = _rt.Semaphore(0)
        self.pending = None
        self.result = None
        self.exc = None            # exception to raise at resume
        self.started = False
        self.finished = False
        self.dead = None           # traceback text if the thread died with an exception
        self.os_thread = None
        self.steps = 0


class Scheduler:
    def __init__(self, policy=None, site_info=False, max_steps=200000, max_threads=400):
        self.max_threads = max_threads
        self.now = 0.0
        self.base_time = 1_700_000_000.0
        self.threads = []           # ThreadRec in creation order
        self.by_name = {}
        self._name_ctr = {}
        self.ctl = _rt.Semaphore(0)
        self.policy = policy
        self.killing = False
        self.trace = []             # recorded choices (thread name | TICK)
        self.events = []            # harness-level event log
        self.steps = 0
        self.max_steps = max_steps
        self.site_info = site_info
        self.running = None         # ThreadRec currently holding the baton
        self.on_step = None         # optional hook(sched, rec|TICK) after each step
        self.errors = []            # harness-level problems (WouldBlock in controller, ...)
        self.line_yield = set()     # code objects in which EVERY source line is a yield point (see yield_at_lines)

    def yield_at_lines(self, *functions):
        """Pre-emption inside pure Python code: every source line executed in one of the given
        functions (by a virtual thread started afterwards) becomes a yield point, so that races
        between two plain statements (a dictionary being iterated while another thread inserts,
        a test and a use of the same attribute) get explored.  Costly: name only the functions
        under study."""
        for f in functions:
            f = getattr(f, '__func__', f)
            self.line_yield.add(f.__code__)

    # ------------------------------------------------------------------ registration
    def register(self, vthread, base_name):
        if sum(1 for r in self.threads if not r.finished) >= self.max_threads:
            # like the OS refusing a new thread; keeps a runaway (e.g. a mutant that arms timers
            # exponentially) from exhausting the machine's thread table
            raise RuntimeError("can't start new thread (vsched limit %d)" % self.max_threads)
        n = self._name_ctr.get(base_name, 0)
        self._name_ctr[base_name] = n + 1
        name = '%s#%d' % (base_name, n)
        rec = ThreadRec(vthread, name, len(self.threads))
        self.threads.append(rec)
        self.by_name[name] = rec
        return rec

    def spawn(self, fn, name='user', args=()):
        """Create and start a virtual thread running fn (harness-side helper)."""
        from . import vthreading
        t = vthreading.Thread(target=fn, args=args)
        t._vs_base_name = name
        t.start()
        return t._vs_rec

    # ------------------------------------------------------------------ thread side
    def current(self):
        return getattr(_tls, 'rec', None)

    def yield_op(self, op):
        rec = getattr(_tls, 'rec', None)
        if rec is None or rec.finished:
            # unmanaged context: execute immediately
            if op.ready():
                return op.fire()
            if op.deadline is not None and op.timeout_result is not None:
                # would time out: advance virtual time (set-up code sleeping, rare)
                if op.deadline > self.now:
                    self.now = op.deadline
                return op.timeout_result()
            raise WouldBlock(op.kind)
        if self.killing:
            self._die(rec)
        if self.site_info:
            op.site = _site()
        rec.pending = op
        self.ctl.release()
        rec.go.acquire()
        if self.killing:
            self._die(rec)
        if rec.exc is not None:
            e, rec.exc = rec.exc, None
            raise e
        return rec.result

    def _die(self, rec):
        rec.kills = getattr(rec, 'kills', 0) + 1
        if rec.kills > 3:
            # code under test swallows BaseException in a loop: park this OS thread forever
            _rt.Semaphore(0).acquire()
        raise Kill()

    def log(self, *event):
        self.events.append(event)

    # ------------------------------------------------------------------ controller side
    def enabled(self):
        """(runnable, timed): runnable = records whose op can fire now (ready or deadline
        reached); timed = records waiting with a future deadline."""
        runnable, timed = [], []
        now = self.now
        for rec in self.threads:
            op = rec.pending
            if op is None or rec.finished:
                continue
            if op.ready():
                runnable.append(rec)
            elif op.deadline is not None:
                if op.deadline <= now:
                    runnable.append(rec)
                else:
                    timed.append(rec)
        return runnable, timed

    def step_thread(self, rec):
        op = rec.pending
        rec.pending = None
        try:
            if op.ready():
                rec.result = op.fire()
            else:
                rec.result = op.timeout_result()
        except Kill:
            raise
        except BaseException as e:      # the op itself raises in the thread (e.g. queue.Empty)
            rec.result = None
            rec.exc = e
        rec.steps += 1
        self.running = rec
        rec.go.release()
        self.ctl.acquire()              # until it parks again or finishes
        self.running = None

    def tick(self, timed):
        self.now = min(r.pending.deadline for r in timed)

    def run(self, until=None, horizon=None, policy=None):
        """Run until `until()` is true (checked between steps), the horizon (absolute virtual
        time) is passed, nothing can happen any more, or the step budget is exhausted.
        Returns one of 'until', 'horizon', 'stuck', 'budget'."""
        policy = policy or self.policy
        while True:
            if until is not None and until():
                return 'until'
            if self.steps >= self.max_steps:
                return 'budget'
            runnable, timed = self.enabled()
            if not runnable and not timed:
                return 'stuck'
            if horizon is not None and not runnable and \
                    min(r.pending.deadline for r in timed) > horizon:
                self.now = horizon
                return 'horizon'
            choice = policy.choose(self, runnable, timed)
            self.steps += 1
            if choice is TICK:
                if horizon is not None and min(r.pending.deadline for r in timed) > horizon:
                    # a tick beyond the horizon is refused; run what is runnable instead
                    if not runnable:
                        self.now = horizon
                        return 'horizon'
                    choice = runnable[0]
                else:
                    self.trace.append(TICK)
                    self.tick(timed)
                    if self.on_step:
                        self.on_step(self, TICK)
                    continue
            self.trace.append(choice.name)
            self.step_thread(choice)
            if self.on_step:
                self.on_step(self, choice)

    # ------------------------------------------------------------------ reports / teardown
    def report(self):
        """Classification of every thread at the end of an execution."""
        out = []
        for rec in self.threads:
            if rec.dead is not None:
                st = 'dead'
            elif rec.finished:
                st = 'finished'
            elif rec.pending is None:
                st = 'running?'
            else:
                op = rec.pending
                if op.ready() or (op.deadline is not None and op.deadline <= self.now):
                    st = 'runnable'
                elif op.deadline is not None:
                    st = 'timed-wait'
                else:
                    st = 'blocked'
            d = {'name': rec.name, 'status': st}
            if rec.pending is not None and not rec.finished:
                d['op'] = rec.pending.kind
                if rec.pending.site:
                    d['site'] = list(rec.pending.site)
            if rec.dead is not None:
                d['traceback'] = rec.dead
            out.append(d)
        return out

    def shutdown(self):
        """Release every parked virtual thread with Kill and wait for the OS threads."""
        self.killing = True
        for rec in self.threads:
            if rec.started and not rec.finished:
                rec.go.release()
        for rec in self.threads:
            th = rec.os_thread
            if th is not None:
                th.join(0.5)
        leaked = sum(1 for rec in self.threads if rec.os_thread is not None and rec.os_thread.is_alive())
        return leaked


def _line_tracer(sched):
    def local(frame, event, arg):
        if event == 'line' and not sched.killing:
            sched.yield_op(Op('line', frame.f_code.co_name, lambda: True, lambda: None))
        return local

    def glob(frame, event, arg):
        if event == 'call' and frame.f_code in sched.line_yield:
            return local
        return None
    return glob


def thread_main(sched, rec, body):
    """OS-thread body of a virtual thread."""
    _tls.rec = rec
    rec.go.acquire()                    # wait for the 'begin' op to be granted
    try:
        if sched.killing:
            return
        try:
            if sched.line_yield:
                sys.settrace(_line_tracer(sched))
            body()
        except Kill:
            pass
        except BaseException:           # thread dies: recorded, like threading.excepthook
            if not sched.killing:
                rec.dead = traceback.format_exc()
    finally:
        rec.finished = True
        _tls.rec = None
        if not sched.killing:
            sched.ctl.release()


# ---------------------------------------------------------------------- policies
class FifoPolicy:
    """Lowest thread id first; advance time only when nothing is runnable."""

    def choose(self, sched, runnable, timed):
        if runnable:
            return runnable[0]
        return TICK


class RandomPolicy:
    """Seeded uniform choice; with probability tick_p advance time although threads are
    runnable (a real thread may be arbitrarily slow relative to a timer)."""

    def __init__(self, rng, tick_p=0.0):
        self.rng = rng
        self.tick_p = tick_p

    def choose(self, sched, runnable, timed):
        if not runnable:
            return TICK
        if timed and self.tick_p and self.rng.random() < self.tick_p:
            return TICK
        return runnable[self.rng.randrange(len(runnable))]


class PCTPolicy:
    """PCT-style: random static priorities per thread, d-1 priority change points."""

    def __init__(self, rng, depth=3, est_steps=200, tick_p=0.0):
        self.rng = rng
        self.prio = {}
        self.change = set(rng.randrange(1, max(2, est_steps)) for _ in range(max(0, depth - 1)))
        self.low = 0
        self.n = 0
        self.tick_p = tick_p

    def choose(self, sched, runnable, timed):
        if not runnable:
            return TICK
        if timed and self.tick_p and self.rng.random() < self.tick_p:
            return TICK
        self.n += 1
        for r in runnable:
            if r.name not in self.prio:
                self.prio[r.name] = self.rng.random() + 1.0
        best = max(runnable, key=lambda r: self.prio[r.name])
        if self.n in self.change:
            self.low -= 1
            self.prio[best.name] = self.low
            best = max(runnable, key=lambda r: self.prio[r.name])
        return best


class ScriptPolicy:
    """Follow a recorded list of choices (thread names / TICK); afterwards (or when the
    scripted choice is impossible) fall back.  `drift` counts impossible scripted choices."""

    def __init__(self, script, fallback=None, strict=False):
        self.script = list(script)
        self.i = 0
        self.fallback = fallback or FifoPolicy()
        self.drift = 0
        self.strict = strict

    def choose(self, sched, runnable, timed):
        while self.i < len(self.script):
            want = self.script[self.i]
            self.i += 1
            if want == TICK:
                if timed:
                    return TICK
            else:
                for r in runnable:
                    if r.name == want:
                        return r
            self.drift += 1
            if self.strict:
                raise RuntimeError('script step %d (%s) not possible' % (self.i - 1, want))
        return self.fallback.choose(sched, runnable, timed)
