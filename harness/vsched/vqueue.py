"""Virtual replacement for `queue`."""
import queue as _rq
from collections import deque

from . import core
from .core import Op
from .vthreading import _do, _deadline

Empty = _rq.Empty
Full = _rq.Full


def _raise(e):
    raise e


class Queue:
    def __init__(self, maxsize=0):
        self.maxsize = maxsize
        self.queue = deque()
        self.unfinished_tasks = 0

    # overridable like the real one
    def _put(self, item):
        self.queue.append(item)

    def _get(self):
        return self.queue.popleft()

    def qsize(self):
        return len(self.queue)

    def empty(self):
        return not self.queue

    def full(self):
        return 0 < self.maxsize <= len(self.queue)

    def put(self, item, block=True, timeout=None):
        def fire():
            self._put(item)
            self.unfinished_tasks += 1
        if not block:
            return _do(Op('queue.put', self, lambda: True,
                          lambda: fire() if not self.full() else _raise(Full())))
        if timeout is not None:
            if timeout < 0:
                raise ValueError("'timeout' must be a non-negative number")
            return _do(Op('queue.put', self, lambda: not self.full(), fire,
                          deadline=_deadline(timeout), timeout_result=lambda: _raise(Full())))
        return _do(Op('queue.put', self, lambda: not self.full(), fire))

    def get(self, block=True, timeout=None):
        if not block:
            return _do(Op('queue.get', self, lambda: True,
                          lambda: self._get() if self.queue else _raise(Empty())))
        if timeout is not None:
            if timeout < 0:
                raise ValueError("'timeout' must be a non-negative number")
            return _do(Op('queue.get', self, lambda: bool(self.queue), self._get,
                          deadline=_deadline(timeout), timeout_result=lambda: _raise(Empty())))
        return _do(Op('queue.get', self, lambda: bool(self.queue), self._get))

    def put_nowait(self, item):
        return self.put(item, block=False)

    def get_nowait(self):
        return self.get(block=False)

    def task_done(self):
        self.unfinished_tasks -= 1

    def join(self):
        return _do(Op('queue.join', self, lambda: self.unfinished_tasks <= 0, lambda: None))


class LifoQueue(Queue):
    def _get(self):
        return self.queue.pop()


SimpleQueue = Queue


def __getattr__(name):
    return getattr(_rq, name)
