"""Virtual replacement for `time`."""
import time as _rtime

from . import core
from .core import Op
from .vthreading import _do


def time():
    s = core.CUR
    if s is None:
        return 1_700_000_000.0
    return s.base_time + s.now


def monotonic():
    s = core.CUR
    return s.now if s is not None else 0.0


perf_counter = monotonic


def time_ns():
    return int(time() * 1e9)


def sleep(secs):
    if secs < 0:
        raise ValueError('sleep length must be non-negative')
    s = core.CUR
    if s is None:
        return None
    return _do(Op('sleep', None, lambda: False, lambda: None, deadline=s.now + secs,
                  timeout_result=lambda: None))


def __getattr__(name):
    return getattr(_rtime, name)
