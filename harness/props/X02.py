"""X02 -- helper state machines on top of Param / Log (extra specification, DESIGN 8(4)).

Family A  spec/ParamFile.tla, ParamFileProps.tla, ParamFileTrace.tla
          real code: cflib.utils.param_file_helper.ParamFileHelper.store_params_from_file with the real
          ParamFileManager (YAML files written by the harness), Param, _ParamUpdater, dispatcher and retry
          timers of a real Crazyflie connected through sim:// to a simulated device whose parameter
          service executes requests when they arrive and whose replies are held until the scenario
          delivers, drops or duplicates them; link errors / close_link from other threads.
Family B  (log helpers: Multiranger, reset_estimator/SyncLogger) -- see part B below.

Python only drives the code, records events and converts representations (bytes on the wire ->
exact integer q = 4 * value with the device's own type); every verdict is ParamFileProps evaluated by
TLC on the recorded trace (ParamFileTrace.tla)."""
import contextlib
import copy
import io
import json
import os
import random
import shutil
import struct
import sys
from fractions import Fraction

from .. import common, tlc, vsched
from ..simdev import core as sd
from ..simdev import services as sv
from ..vsched import core as vcore

PROP = 'X02'
FMT = {0x08: '<B', 0x09: '<H', 0x0A: '<L', 0x00: '<b', 0x01: '<h', 0x02: '<i', 0x06: '<f', 0x07: '<d'}   # [fw param.h]
INT_TYPES = [0x08, 0x09, 0x0A, 0x00, 0x01, 0x02]
FLOAT_TYPES = [0x06, 0x07]
SCRATCH = None          # per-run directory for the YAML files (created by main, inherited by the workers)


def enc(t, q):
    """device bytes of the value q/4 in type t"""
    v = Fraction(q, 4)
    if t in FLOAT_TYPES:
        return struct.pack(FMT[t], float(v))
    return struct.pack(FMT[t], int(v))


def dec_q(t, b):
    """bytes of type t -> q = 4 * value (exact), -9 if the value is not a multiple of 1/4"""
    try:
        v = struct.unpack(FMT[t], bytes(b))[0]
        fr = Fraction(v) * 4
    except Exception:
        return -9
    return int(fr) if fr.denominator == 1 and abs(fr) < 2 ** 30 else -9


def E(e, **kw):
    d = {'e': e, 'n': 0, 'k': '', 'p': 0, 'q': 0, 'dv': 0, 'st': 0, 'ok': False, 'res': '', 'f': []}
    d.update(kw)
    return d


def marker(kind):
    """a yield point of the harness' own: the thread parks just before an observable event"""
    s = vcore.CUR
    if s is not None and s.current() is not None:
        s.yield_op(vcore.Op(kind, None, lambda: True, lambda: None))


def pname(p):
    return 'g.p%d' % p if p else 'g.nope'


# --------------------------------------------------------------------------- device side
class PFParam(sv.ParamService):
    """simdev.ParamService + scripted status for the store request of a parameter (the store is then
    not performed) [fw param_logic.c paramPersistentStore -> status byte]."""

    def __init__(self, table, status):
        super().__init__(table)
        self.status = list(status)

    def handle(self, pk):
        d = bytes(pk.data)
        ents = self.table.entries
        if pk.channel == 3 and len(d) >= 3 and d[0] == 3:
            i = d[1] | (d[2] << 8)
            if i < len(ents) and ents[i].get('ext') and self.status[i] != 0:
                self.requests.append((pk.channel, d))
                return [sd.reply(sv.PORT_PARAM, 3, d[:3] + bytes([self.status[i]]))]
        return super().handle(pk)


class PFDevice(sd.Device):
    """After `manual` is switched on, write (channel 2) and misc (channel 3) parameter requests are
    executed when they arrive (synchronously, in the sender's thread) and the replies are held until
    the scenario delivers / drops / duplicates them."""

    def __init__(self, *a, **kw):
        super().__init__(*a, **kw)
        self.manual = False
        self.replies = []
        self.x = None

    def uplink(self, link, pk):
        if self.manual and pk.port == sv.PORT_PARAM and pk.channel in (2, 3):
            marker('obs.tx')
            if link.closed or link is not self.link:
                return                       # the link went away while the packet was under way
            self.up_n += 1
            reps = self.services[sv.PORT_PARAM].handle(pk)
            self.x.on_tx(pk, reps)
            self.replies.extend(reps)
            return
        return super().uplink(link, pk)

def table_entries(sc):
    ents = []
    for i in range(sc['np']):
        t, nat = sc['types'][i], sc['nature'][i]
        tb = t | (0x40 if nat == 'ro' else 0) | (0x10 if nat != 'nonpers' else 0)
        ents.append({'group': b'g', 'name': ('p%d' % (i + 1)).encode(), 'type': tb, 'value': enc(t, 0),
                     'default': enc(t, 0), 'ext': 1 if nat != 'nonpers' else 0, 'stored': None})
    return ents


def yaml_text(entries):
    """the file as ParamFileManager.write would lay it out, but in the scenario's entry order"""
    lines = ['params:']
    for (p, q, how) in entries:
        lines.append('  %s:' % pname(p))
        lines.append('    default_value: 0')
        if q < 0:
            lines += ['    is_stored: false', '    stored_value: null']
        else:
            v = Fraction(q, 4)
            if how == 'int' and v.denominator == 1:
                txt = str(int(v))
            elif how == 'str' and v.denominator == 1:
                txt = "'%d'" % int(v)
            else:
                txt = repr(float(v))
            lines += ['    is_stored: true', '    stored_value: %s' % txt]
    if not entries:
        lines = ['params: {}']
    lines += ['type: persistent_param_state', "version: '1'"]
    return '\n'.join(lines) + '\n'


# --------------------------------------------------------------------------- one execution
class Stepper:
    """Stepping primitives shared by both families: a design-spec action = "run thread rec up to its parked
    visible operation, fire it, run on until it is parked at the next visible operation, blocked or finished"."""

    def _can_run(self, rec):
        op = rec.pending
        return (not rec.finished) and op is not None and (op.ready() or (op.deadline is not None and op.deadline <= self.s.now))

    def act(self, rec, target, limit=400):
        """run thread rec up to its parked visible operation `target`, fire it, then run on until it is
        parked at the next visible operation, blocked or finished"""
        n = 0
        while True:
            op = rec.pending
            if rec.finished or op is None:
                return 'finished-before-%s' % target
            if self._visible(rec) and self._kind(rec) == target:
                break
            if self._visible(rec) and self._kind(rec) != target and self._kind(rec) not in ('updq.get',):
                return 'parked-at-%s-not-%s' % (self._kind(rec), target)
            if not self._can_run(rec):
                return 'blocked-at-%s-before-%s' % (op.kind, target)
            self.s.step_thread(rec)
            n += 1
            if n > limit:
                return 'runaway'
        if not self._can_run(rec):
            return 'target-not-enabled'
        self.s.step_thread(rec)
        n = 0
        while not rec.finished and rec.pending is not None and not self._visible(rec) and self._can_run(rec):
            self.s.step_thread(rec)
            n += 1
            if n > limit:
                return 'runaway'
        return 'ok'



class Exec(Stepper):
    """One scenario against the real code.  sc:
         np, types [type byte], nature ['ok'|'ro'|'nonpers'], status [store status], resend (bool),
         calls [[ [p, q, how], ... ], ...]   files of the successive calls on ONE helper object
       drivers: run_driver(chooser) for code -> spec, replay(behaviour) for spec -> code."""

    def __init__(self, sc, s, mutant=None, whatif=None):
        import cflib.crazyflie as cfm
        from cflib.utils.param_file_helper import ParamFileHelper
        self.sc = sc
        self.s = s
        self.ev = []
        self.errors = []
        self.nissue = 0
        self.ncall = 0
        self.user = None
        self.down = False
        self.downthr = None
        self.ndrop = self.ndup = self.nearly = 0
        self.rx_held = None
        w = sd.set_world(sd.World())
        ents = table_entries(sc)
        self.ents = ents
        dev = PFDevice({
            sv.PORT_LINK: sv.LinkService(), sv.PORT_PLATFORM: sv.PlatformService(10),
            sv.PORT_LOG: sv.LogService(sv.TocTable([{'group': b'pm', 'name': b'vbat', 'type': 7}], 0x11111111)),
            sv.PORT_PARAM: PFParam(sv.TocTable(ents, 0x5F020000 + sc['np']), sc['status']),
            sv.PORT_MEM: sv.MemoryService([])}, mode='sync', needs_resending=bool(sc['resend']))
        dev.x = self
        self.dev = dev
        w.add('0', dev)
        self.cf = cf = cfm.Crazyflie(rw_cache=None)
        done = {}
        cf.fully_connected.add_callback(lambda uri: done.setdefault('fc', True))
        s.spawn(lambda: cf.open_link('sim://0/1'), 'setup')
        why = s.run(until=lambda: done.get('fc'), horizon=60.0)
        if not done.get('fc'):
            raise common.MachineryError('simulated connect did not complete (%s): %s' % (why, s.report()))
        t2 = s.spawn(lambda: cf.link_statistics.stop(), 'setup')
        s.run(until=lambda: t2.finished, horizon=s.now + 5.0)
        self.settle()
        self.upd = upd = cf.param.param_updater
        self.helper = helper = ParamFileHelper(cf)
        if mutant:
            mutant(self)
        if whatif:
            whatif(self)
        self.urec = next(r for r in s.threads if r.vt is upd)
        self.drec = next(r for r in s.threads if r.vt is cf.incoming)
        dev.manual = True
        self.link0 = cf.link
        # the connection goes away when the driver's close() begins (SimDriver sets `closed` first, and a packet
        # handed to a closed link is lost): park and log there
        link_close = self.link0.close

        def close():
            if not self.down:
                marker('obs.down')
                self.on_down()
                dev.replies = []
            return link_close()
        self.link0.close = close

        # ---- observation points (instance level, /repo untouched)
        q = upd.request_queue
        q_put = q._put

        def logged_put(item):
            self.nissue += 1
            item._x02_n = self.nissue
            k, p, qv = self.parse_req(item)
            self.ev.append(E('issue', n=self.nissue, k=k, p=p, q=qv))
            q_put(item)
        q._put = logged_put

        def on_rx(pk):
            if pk.port == sv.PORT_PARAM and (pk.channel == 2 or (pk.channel == 3 and len(pk.data) >= 4 and pk.data[0] == 3)):
                self.rx_held = pk           # taken from the in_queue, not yet dispatched
                marker('obs.rx')
                self.rx_held = None
                self.ev.append(E('rx', **self.parse_reply(pk)))
        cf.packet_received.add_callback(on_rx)

        orig_cb = helper._persistent_stored_callback

        def cb(complete_name, success):
            marker('obs.cb')
            self.ev.append(E('cb', p=self.p_of(complete_name), ok=bool(success)))
            return orig_cb(complete_name, success)
        helper._persistent_stored_callback = cb

        # persistent_sema.wait() returning is made visible: the helper module's Event is replaced by a
        # subclass of the same (virtual) Event that parks and logs after wait() returned
        import cflib.utils.param_file_helper as pfh
        base = pfh.Event
        while getattr(base, '_x02_base', None) is not None:
            base = base._x02_base
        me = self

        class ObsEvent(base):
            _x02_base = base

            def wait(self, timeout=None):
                r = base.wait(self, timeout)
                if r or timeout is None:
                    marker('obs.wake')
                    me.ev.append(E('wake'))
                return r
        pfh.Event = ObsEvent
        self._undo_event = lambda: setattr(pfh, 'Event', base)

        orig_close = upd.close

        def close():
            marker('obs.updclose')
            r = orig_close()
            # logged in the region of the lock release and of `self.toc = Toc()` that follows it
            self.ev.append(E('updclose'))
            return r
        upd.close = close

    # -- conversions
    def p_of(self, name):
        for p in range(1, self.sc['np'] + 1):
            if pname(p) == name:
                return p
        return 0

    def parse_req(self, pk):
        d = bytes(pk.data)
        if pk.channel == 2 and len(d) >= 2:
            i = d[0] | (d[1] << 8)
            if i < self.sc['np']:
                return 'set', i + 1, dec_q(self.sc['types'][i], d[2:])
            return 'set', 0, -9
        if pk.channel == 3 and len(d) >= 3 and d[0] == 3:
            i = d[1] | (d[2] << 8)
            return 'store', (i + 1 if i < self.sc['np'] else 0), 0
        return 'other', 0, 0

    def parse_reply(self, pk):
        d = bytes(pk.data)
        if pk.channel == 2:
            i = d[0] | (d[1] << 8)
            if i < self.sc['np']:
                return {'k': 'set', 'p': i + 1, 'q': dec_q(self.sc['types'][i], d[2:])}
            return {'k': 'set', 'p': 0, 'q': -9}
        i = d[1] | (d[2] << 8)
        return {'k': 'store', 'p': i + 1 if i < self.sc['np'] else 0, 'q': d[3]}

    def devq(self, i, key='value'):
        b = self.ents[i][key]
        return -1 if b is None else dec_q(self.sc['types'][i], b)

    # -- device observers
    def on_tx(self, pk, reps):
        k, p, qv = self.parse_req(pk)
        n = getattr(pk, '_x02_n', 0)
        dv = self.devq(p - 1) if p else 0
        st = reps[0].data[3] if (k == 'store' and reps and len(reps[0].data) >= 4) else 0
        self.ev.append(E('tx', n=n, k=k, p=p, q=qv, dv=dv, st=st))

    def on_down(self):
        self.down = True
        self.ev.append(E('down'))

    # -- scheduling helpers
    def settle(self, horizon=5.0):
        s = self.s
        return s.run(until=lambda: not s.enabled()[0], horizon=s.now + horizon, policy=vsched.FifoPolicy())

    def runnable(self):
        return self.s.enabled()[0]

    # -- user thread
    def start_call(self, entries):
        self.ncall += 1
        path = os.path.join(SCRATCH or '/tmp', 'x02-%d-%d.yaml' % (os.getpid(), self.ncall))
        with open(path, 'w') as f:
            f.write(yaml_text(entries))
        helper = self.helper

        def body():
            # (logged in the region that reads the file and looks the first parameter up)
            self.ev.append(E('call', f=[{'p': p, 'q': q} for (p, q, _h) in entries]))
            try:
                r = helper.store_params_from_file(path)
                res = 'true' if r is True else 'false' if r is False else 'other:%r' % (r,)
            except Exception as e:
                res = type(e).__name__
            marker('obs.ret')
            self.ev.append(E('ret', res=res))
        self.user = self.s.spawn(body, 'user')
        self.path = path
        return self.user

    # -- environment
    def deliver(self):
        """the oldest reply in the air arrives in the host's in_queue"""
        pk = self.dev.replies.pop(0)
        if self.dev.link is not None:
            self.ev.append(E('arrive', **self.parse_reply(pk)))
            self.dev._deliver(self.dev.link, pk, 'deliver')

    def drop(self):
        pk = self.dev.replies.pop(0)
        self.ndrop += 1
        self.ev.append(E('lost', **self.parse_reply(pk)))

    def dup(self):
        pk = self.dev.replies[0]
        self.ndup += 1
        self.dev.replies.insert(0, pk)
        self.ev.append(E('dup', **self.parse_reply(pk)))

    def linkdown(self, kind='error'):
        link = self.dev.link
        cf = self.cf
        if kind == 'close':
            self.downthr = self.s.spawn(lambda: cf.close_link(), 'closer')
        else:
            self.downthr = self.s.spawn(lambda: link.report_error('simulated link failure'), 'simdriver')
        return self.downthr

    def tick(self):
        timed = self.s.enabled()[1]
        if timed:
            self.s.tick(timed)
            return True
        return False

    def retry_timer(self):
        """the armed retry timer of the request in flight (its thread record), if any"""
        for t in list(self.cf._answer_patterns.values()):
            rec = getattr(t, '_vs_rec', None)
            if rec is not None and not rec.finished and not t.finished.is_set():
                return rec
        return None

    # -- result
    def trace(self):
        blocked = self.user is not None and not self.user.finished
        dead = [t['name'] for t in self.s.report() if t['status'] == 'dead']
        return {'nature': list(self.sc['nature']), 'status': list(self.sc['status']),
                'dval0': [0] * self.sc['np'], 'ev': self.ev, 'blocked': bool(blocked),
                'linkup': self.cf.link is not None, 'dead': dead, 'errors': self.errors}

    # ------------------------------------------------------------------ code -> spec driver
    def run_driver(self, ch, max_iter=4000):
        """ch.choose(x, options) picks among: ('step', rec) for every runnable thread, 'deliver', 'drop',
        'dup', 'down', 'close', 'tick'.  A call ends when its thread has finished, or when nothing can
        move any more."""
        s = self.s
        sc = self.sc
        for entries in sc['calls']:
            self.start_call(entries)
            it = 0
            ticks = 0
            while it < max_iter:
                it += 1
                run = self.runnable()
                opts = [('step', r) for r in run]
                if self.dev.replies and self.dev.link is not None:
                    opts.append('deliver')
                    if self.ndrop < sc.get('maxdrop', 0):
                        opts.append('drop')
                    if self.ndup < sc.get('maxdup', 0):
                        opts.append('dup')
                if not self.down and self.downthr is None and sc.get('down'):
                    opts.append(sc['down'])
                waiting = self.upd.wait_lock.locked() and self.cf.link is not None
                if sc['resend'] and waiting and ticks < 12:
                    opts.append('tick')
                if self.user.finished and not run and not self.dev.replies:
                    break
                if not opts:
                    break
                c = ch.choose(self, opts)
                if c is None:
                    break
                if isinstance(c, tuple):
                    s.trace.append(c[1].name)
                    s.step_thread(c[1])
                elif c == 'deliver':
                    self.deliver()
                elif c == 'drop':
                    self.drop()
                elif c == 'dup':
                    self.dup()
                elif c in ('down', 'close'):
                    self.linkdown('close' if c == 'close' else 'error')
                elif c == 'tick':
                    ticks += 1
                    self.tick()
            self.finish_call()
            if not self.user.finished:
                break

    def finish_call(self):
        """let everything that can still happen happen (fair environment): deliver what is held, let the
        retry timers fire while a request is unanswered on a resending link, up to the horizon"""
        for _ in range(200):
            self.settle()
            if self.dev.replies and self.dev.link is not None:
                self.deliver()
                continue
            if self.user.finished:
                break
            if self.sc['resend'] and self.cf.link is not None and self.upd.wait_lock.locked() and \
                    self.retry_timer() is not None:
                self.tick()
                continue
            break
        if not self.user.finished:
            # horizon: 90 virtual seconds more (set_value waits at most 60 s for the connection)
            self.s.run(until=lambda: self.user.finished, horizon=self.s.now + 90.0, policy=vsched.FifoPolicy())

    # ------------------------------------------------------------------ spec -> code replay
    STOPS = ('obs.tx', 'obs.rx', 'obs.cb', 'obs.ret', 'obs.down', 'obs.updclose', 'obs.wake')

    def _visible(self, rec):
        op = rec.pending
        if op is None:
            return False
        if op.kind in self.STOPS:
            return True
        if op.kind == 'queue.put' and op.obj is self.upd.request_queue:
            return True
        if op.kind == 'queue.get' and op.obj is self.upd.request_queue and rec is self.urec:
            return True         # the updater is about to take the next request (not close() draining the FIFO)
        if op.kind == 'queue.get' and op.obj is self.link0.in_queue and rec is self.drec:
            return True         # the dispatcher is about to take the next packet (taking it cancels its retry timer)
        return False

    def _kind(self, rec):
        op = rec.pending
        if op.kind == 'queue.put' and op.obj is self.upd.request_queue:
            return 'updq.put'
        if op.kind == 'queue.get' and op.obj is self.upd.request_queue:
            return 'updq.get'
        if op.kind == 'queue.get' and op.obj is self.link0.in_queue:
            return 'updq.get'       # (same treatment in act(): a parked get is stepped through on the way to the target)
        return op.kind

    def project(self):
        cf, upd, h = self.cf, self.upd, self.helper
        sema = h.persistent_sema.is_set() if h.persistent_sema is not None else False
        if cf.link is not None:
            link = 'up'
        else:
            link = 'down' if not cf.param.toc.toc else 'dropped'
        up = self.user.pending if self.user is not None and not self.user.finished else None
        if up is None:
            pc = 'config'
        elif up.kind == 'queue.put' and up.obj is upd.request_queue:
            pc = 'put_set' if up_item_channel(self.user) == 2 else 'put_store'
        else:
            pc = {'obs.cb': 'noelem', 'obs.ret': 'ret', 'event.wait': 'wait', 'obs.wake': 'wait'}.get(up.kind, up.kind)
        return {'success': bool(h.success), 'sema': bool(sema), 'pc': pc,
                'queue': [getattr(pk, '_x02_n', 0) for pk in list(upd.request_queue.queue)],
                'inflight': bool(upd.wait_lock.locked()), 'link': link,
                'chan': [(r['k'], r['p'], r['q']) for r in (self.parse_reply(pk) for pk in self.dev.replies)],
                'inq': [(r['k'], r['p'], r['q']) for r in (self.parse_reply(pk) for pk in
                                                           ([self.rx_held] if self.rx_held is not None else []) +
                                                           list(self.link0.in_queue.queue))],
                'dval': [self.devq(i) for i in range(self.sc['np'])],
                'dstored': [self.devq(i, 'stored') for i in range(self.sc['np'])],
                'pendcb': bool(self.drec.pending is not None and self.drec.pending.kind == 'obs.cb'),
                'ncalls': sum(1 for e in self.ev if e['e'] == 'ret')}

    def replay_step(self, name, args, how_of):
        """apply one design-spec action; returns '' or a description of why it could not be applied"""
        U = {'UPutSet': 'updq.put', 'UPutStore': 'updq.put', 'UNoElem': 'obs.cb', 'UWake': 'obs.wake', 'URet': 'obs.ret'}
        if name == 'Begin':
            f = args[0]
            entries = [(e['p'], e['q'], how_of(e['p'], e['q'])) for e in f]
            rec = self.start_call(entries)
            n = 0
            while not rec.finished and not self._visible(rec) and self._can_run(rec) and n < 400:
                self.s.step_thread(rec)
                n += 1
            return ''
        if name in U:
            r = self.act(self.user, U[name])
            return '' if r == 'ok' else r
        if name == 'UpdSend':
            r = self.act(self.urec, 'obs.tx')
            return '' if r == 'ok' else r
        if name == 'LateRetry':
            rec = getattr(self, 'late_rec', None)
            self.late_rec = None
            if rec is None:
                return 'no late retry prepared'
            r = self.act(rec, 'obs.tx')
            return '' if r == 'ok' else r
        if name in ('Retry', 'EarlyRetry', 'PrepareLate'):
            rec = self.retry_timer()
            if rec is None:
                return 'no retry timer armed'
            # the timer thread may not have begun yet; let it arm, then advance the clock to its deadline
            n = 0
            while rec.pending is not None and rec.pending.kind != 'event.wait' and self._can_run(rec) and n < 50:
                self.s.step_thread(rec)
                n += 1
            if rec.pending is not None and rec.pending.deadline is not None and rec.pending.deadline > self.s.now:
                self.s.now = rec.pending.deadline
            if name == 'PrepareLate':
                # the timer fires, finds its request unanswered and is parked just before retransmitting
                n = 0
                while not rec.finished and rec.pending is not None and rec.pending.kind != 'obs.tx' and \
                        self._can_run(rec) and n < 100:
                    self.s.step_thread(rec)
                    n += 1
                if rec.pending is None or rec.pending.kind != 'obs.tx':
                    return 'late retry could not be prepared'
                self.late_rec = rec
                return ''
            r = self.act(rec, 'obs.tx')
            return '' if r == 'ok' else r
        if name == 'Arrive':
            if not self.dev.replies:
                return 'nothing under way'
            self.deliver()
            return ''
        if name == 'Deliver':
            r = self.act(self.drec, 'obs.rx')
            return '' if r == 'ok' else r
        if name == 'FireCb':
            r = self.act(self.drec, 'obs.cb')
            return '' if r == 'ok' else r
        if name == 'Drop':
            if not self.dev.replies:
                return 'nothing to drop'
            self.drop()
            return ''
        if name == 'Dup':
            if not self.dev.replies:
                return 'nothing to duplicate'
            self.dup()
            return ''
        if name == 'LinkDrop':
            rec = self.linkdown('error')
            r = self.act(rec, 'obs.down')
            return '' if r == 'ok' else r
        if name == 'UpdClose':
            r = self.act(self.downthr, 'obs.updclose')
            return '' if r == 'ok' else r
        return 'unknown action ' + name


def up_item_channel(rec):
    """channel of the packet a thread parked in request_queue.put is about to queue (read from the frame of
    the virtual Queue.put closure: the item is the first cell of the fire function)"""
    try:
        fire = rec.pending.fire
        for c in fire.__closure__ or ():
            v = c.cell_contents
            if hasattr(v, 'channel') and hasattr(v, 'data'):
                return v.channel
    except Exception:
        pass
    return None


# --------------------------------------------------------------------------- choosers (code -> spec)
class RandomChooser:
    """seeded uniform choice with weights; environment actions are rare relative to thread steps"""

    def __init__(self, seed, p_env=0.15, p_down=0.01):
        self.rng = random.Random(seed)
        self.p_env = p_env
        self.p_down = p_down

    def choose(self, x, opts):
        rng = self.rng
        steps = [o for o in opts if isinstance(o, tuple)]
        env = [o for o in opts if not isinstance(o, tuple) and o not in ('down', 'close')]
        downs = [o for o in opts if o in ('down', 'close')]
        if downs and rng.random() < self.p_down:
            return downs[0]
        if env and (not steps or rng.random() < self.p_env):
            # deliveries are the common case; tick only when nothing else can happen or rarely
            w = [{'deliver': 6, 'drop': 2, 'dup': 1, 'tick': 1 if steps or 'deliver' in env else 6}[o] for o in env]
            return rng.choices(env, weights=w)[0]
        if steps:
            return steps[rng.randrange(len(steps))]
        if downs:
            return downs[0]
        return None


class CanonChooser:
    """FIFO threads; replies delivered as soon as nothing is runnable; scripted faults:
       fault = None | ('drop', j) | ('dup', j) (the j-th reply) | ('down'|'close', j) (after j events)"""

    def __init__(self, fault):
        self.fault = fault
        self.nrep = 0
        self.done = False

    def choose(self, x, opts):
        f = self.fault
        if f and f[0] in ('down', 'close') and not self.done and len(x.ev) >= f[1] and f[0] in opts:
            self.done = True
            return f[0]
        steps = [o for o in opts if isinstance(o, tuple)]
        if steps:
            return steps[0]
        if 'deliver' in opts:
            self.nrep += 1
            if f and f[0] in ('drop', 'dup') and f[1] == self.nrep and f[0] in opts:
                return f[0]
            return 'deliver'
        if 'tick' in opts:
            return 'tick'
        return None


def execute(job):
    """one scenario -> trace dict (id is assigned later)"""
    sc = job['sc']
    mutant = MUTANTS[job['mutant']] if job.get('mutant') else None
    whatif = _whatif_fix if job.get('whatif') else None
    buf = io.StringIO()
    with contextlib.redirect_stdout(buf):
        with vsched.scheduler(vsched.FifoPolicy(), max_steps=200000) as s:
            undo = []
            x = None
            try:
                x = Exec(sc, s, mutant=(lambda xx: undo.append(mutant(xx))) if mutant else None,
                         whatif=whatif)
                drv = sc['driver']
                if drv[0] == 'replay':
                    # a recorded TLC behaviour (action labels), re-applied step by step
                    types = sc['types']
                    for label in drv[1]:
                        name, args = tlc.parse_label(label)
                        if name == 'Setup':
                            continue
                        if x.replay_step(name, args, lambda p, q: _how(types[p - 1], q) if p else 'int'):
                            break
                    if x.user is not None:
                        x.finish_call()
                else:
                    if drv[0] == 'random':
                        ch = RandomChooser(drv[1], *drv[2:])
                    else:
                        ch = CanonChooser(tuple(drv[1]) if drv[1] else None)
                    x.run_driver(ch)
                t = x.trace()
            finally:
                for u in undo:
                    if callable(u):
                        u()
                if x is not None:
                    x._undo_event()
    t['sc'] = sc
    return t


# --------------------------------------------------------------------------- in-memory mutants
def _patch_method(name, fn):
    import cflib.utils.param_file_helper as m
    old = getattr(m.ParamFileHelper, name)
    setattr(m.ParamFileHelper, name, fn)
    return lambda: setattr(m.ParamFileHelper, name, old)


def _loop_variant(variant):
    def store_params_from_file(self, filename):
        from threading import Event as _unused  # noqa  (the module's own Event is the virtual one)
        import cflib.utils.param_file_helper as m
        params = m.ParamFileManager().read(filename)
        items = list(params.items())
        if variant == 'sorted_order':
            items = sorted(items, key=lambda kv: kv[0], reverse=True)
        prev = None
        for param, state in items:
            self.persistent_sema = m.Event()
            if variant == 'store_first':
                self._cf.param.persistent_store(param, self._persistent_stored_callback)
                self._cf.param.set_value(param, state.stored_value)
            elif variant == 'store_previous':
                self._cf.param.set_value(param, state.stored_value)
                self._cf.param.persistent_store(prev or param, self._persistent_stored_callback)
            else:
                self._cf.param.set_value(param, state.stored_value)
                self._cf.param.persistent_store(param, self._persistent_stored_callback)
            if variant == 'no_wait':
                pass
            elif variant == 'short_timeout':
                if not self.persistent_sema.wait(0.05):
                    self.success = True
            else:
                self.persistent_sema.wait()
            prev = param
            if not self.success and variant != 'no_break':
                break
        return self.success
    return lambda x: _patch_method('store_params_from_file', store_params_from_file)


def _mut_ignore_status(x):
    def cb(self, complete_name, success):
        self.success = True
        self.persistent_sema.set()
    return _patch_method('_persistent_stored_callback', cb)


def _mut_no_serial(x):
    """the updater does not wait for the answer to the previous request"""
    lock = x.upd.wait_lock
    orig = lock.acquire
    lock.acquire = lambda *a, **k: True
    orig_rel = lock.release
    lock.release = lambda: None

    def undo():
        lock.acquire = orig
        lock.release = orig_rel
    return undo


def _mut_first_only(x):
    """returns after the first parameter"""
    def store_params_from_file(self, filename):
        import cflib.utils.param_file_helper as m
        params = m.ParamFileManager().read(filename)
        for param, state in params.items():
            self.persistent_sema = m.Event()
            self._cf.param.set_value(param, state.stored_value)
            self._cf.param.persistent_store(param, self._persistent_stored_callback)
            self.persistent_sema.wait()
            break
        return self.success
    return _patch_method('store_params_from_file', store_params_from_file)


MUTANTS = {
    'no_break': _loop_variant('no_break'),
    'sorted_order': _loop_variant('sorted_order'),
    'store_first': _loop_variant('store_first'),
    'store_previous': _loop_variant('store_previous'),
    'no_wait': _loop_variant('no_wait'),
    'short_timeout': _loop_variant('short_timeout'),
    'ignore_status': _mut_ignore_status,
    'no_serial': _mut_no_serial,
    'first_only': _mut_first_only,
}


def _whatif_fix(x):
    """developer aid (VERIF_X02_WHATIF=fix): the proposed patch, in memory -- the wait for the store callback
    polls once a second and gives up (success = False) when the connection is gone:
        while not self.persistent_sema.wait(timeout=1):
            if self._cf.link is None:
                self.success = False
                break"""
    import cflib.utils.param_file_helper as m
    h = x.helper

    def patched(filename):
        params = m.ParamFileManager().read(filename)
        for param, state in params.items():
            h.persistent_sema = m.Event()
            h._cf.param.set_value(param, state.stored_value)
            h._cf.param.persistent_store(param, h._persistent_stored_callback)
            while not h.persistent_sema.wait(timeout=1):
                if h._cf.link is None:
                    h.success = False
                    marker('obs.wake')
                    x.ev.append(E('wake'))
                    break
            if not h.success:
                break
        return h.success
    h.store_params_from_file = patched


# --------------------------------------------------------------------------- scenarios (family A)
NATURES = ['ok', 'ro', 'nonpers']


def _types_for(np_, files, rng=None):
    """device types: a parameter that gets a value that is not a whole number must be a float"""
    need_float = set()
    for f in files:
        for e in f:
            if e[1] >= 0 and e[1] % 4:
                need_float.add(e[0])
    pool = INT_TYPES + FLOAT_TYPES
    out = []
    for p in range(1, np_ + 1):
        if p in need_float:
            out.append(FLOAT_TYPES[p % 2])
        else:
            out.append(rng.choice(pool) if rng else pool[(p * 3) % len(pool)])
    return out


def _how(t, q, rng=None):
    if t in FLOAT_TYPES:
        return (rng.choice(['float', 'int']) if rng else 'float') if q % 4 == 0 else 'float'
    return rng.choice(['int', 'str', 'float']) if rng else 'int'


def mk_sc(np_, nature, status, calls, resend, driver, types=None, rng=None, **kw):
    types = types or _types_for(np_, calls, rng)
    cs = [[[e[0], e[1], e[2] if len(e) > 2 else _how(types[e[0] - 1] if e[0] else 0x08, e[1], rng)] for e in f] for f in calls]
    sc = {'np': np_, 'types': types, 'nature': list(nature), 'status': list(status), 'resend': bool(resend),
          'calls': cs, 'driver': driver}
    sc.update(kw)
    return sc


def sc_enumerated(tier):
    """Exhaustive over a stated finite space, canonical (FIFO) schedule:
       tables: 2 parameters, each ok/ro/nonpers, store status 0 or 2 for ok parameters  (16 tables)
       files:  every sequence of <= 2 distinct entries over p in {0,1,2}, q in {4, none}   (31 files)
       fault:  none | the j-th reply dropped / duplicated (j = 1..4, resending link) |
               link error / close_link after j recorded events (j = 1..10)"""
    out = []
    kinds = [('ok', 0), ('ok', 2), ('ro', 0), ('nonpers', 0)]
    ents = [(p, q) for p in (0, 1, 2) for q in (4, -1)]
    files = [[]] + [[a] for a in ents] + [[a, b] for a in ents for b in ents if a[0] != b[0]]
    faults = [None] + [('drop', j) for j in range(1, 5)] + [('dup', j) for j in range(1, 5)] + \
             [('down', j) for j in range(1, 11)] + [('close', j) for j in (2, 4, 6)]
    for k1 in kinds:
        for k2 in kinds:
            for f in files:
                usable = [e for e in f if e[0] and e[1] >= 0]
                for fault in faults:
                    if fault and not usable:
                        continue            # nothing is ever transmitted: the fault cannot matter
                    if tier == 'quick' and fault and fault[0] in ('dup', 'close') and fault[1] > 2:
                        continue
                    if tier == 'quick' and fault and fault[0] == 'drop' and (k1[0] != 'ok' and k2[0] != 'ok'):
                        continue
                    if tier == 'quick' and fault and fault[0] == 'down' and (k1, k2) not in (
                            (kinds[0], kinds[0]), (kinds[0], kinds[1]), (kinds[1], kinds[0]), (kinds[0], kinds[3])):
                        continue
                    out.append(mk_sc(2, [k1[0], k2[0]], [k1[1], k2[1]], [[list(e) for e in f]], True,
                                     ['canon', list(fault) if fault else None],
                                     maxdrop=1 if fault and fault[0] == 'drop' else 0,
                                     maxdup=1 if fault and fault[0] == 'dup' else 0,
                                     down=fault[0] if fault and fault[0] in ('down', 'close') else None))
    return out


def sc_random(tier, rng, n):
    """random beyond: up to 4 parameters / 4 entries / 2 calls on one helper, any value multiple of 1/4,
    all device types, USB-like and radio-like links, random schedules with drops, duplicates, link loss"""
    out = []
    for _ in range(n):
        np_ = rng.randint(1, 4)
        nature = [rng.choices(NATURES, weights=[6, 1, 1])[0] for _ in range(np_)]
        status = [rng.choice([0, 0, 0, 2, 12, 5]) if nature[i] == 'ok' else 0 for i in range(np_)]
        calls = []
        for _c in range(rng.choice([1, 1, 2])):
            ps = list(range(1, np_ + 1)) + ([0] if rng.random() < 0.15 else [])
            rng.shuffle(ps)
            f = []
            for p in ps[:rng.randint(0, min(4, len(ps)))]:
                q = -1 if rng.random() < 0.05 else rng.choice([0, 4, 8, 10, 3, 400, 1020, 1])
                f.append([p, q])
            calls.append(f)
        types = _types_for(np_, calls, rng)
        # values must fit the type: keep whole-number values of 1-byte types small
        for f in calls:
            for e in f:
                if e[0] and e[1] >= 0:
                    t = types[e[0] - 1]
                    if t in (0x08, 0x00) and e[1] > 400:
                        e[1] = 400
        resend = rng.random() < 0.7
        down = rng.choice([None, None, 'down', 'close'])
        out.append(mk_sc(np_, nature, status, calls, resend,
                         ['random', rng.randrange(1 << 30), rng.choice([0.05, 0.15, 0.4]), rng.choice([0.003, 0.01, 0.03])],
                         types=types, rng=rng, maxdrop=rng.choice([0, 1, 2]) if resend else 0,
                         maxdup=rng.choice([0, 1]), down=down))
    return out


# --------------------------------------------------------------------------- spec -> code
def _replay_job(job):
    """behaviour = [(label, state)] of ParamFile.tla -> (trace, steps, matched steps, first mismatch)"""
    beh, whatif = job
    st1 = None
    files = []
    for label, st in beh:
        name, args = tlc.parse_label(label)
        if name == 'Setup':
            st1 = st
        if name == 'Begin':
            files.append([[e['p'], e['q']] for e in args[0]])
    if st1 is None:
        return None
    np_ = len(st1['nature'])
    types = _types_for(np_, files)
    sc = {'np': np_, 'types': types, 'nature': list(st1['nature']), 'status': list(st1['status']), 'resend': True,
          'calls': [], 'driver': ['replay', [label for label, _st in beh[1:]]]}
    buf = io.StringIO()
    steps = matched = 0
    first = None
    with contextlib.redirect_stdout(buf):
        with vsched.scheduler(vsched.FifoPolicy(), max_steps=200000) as s:
            x = Exec(sc, s, whatif=_whatif_fix if whatif else None)

            def how_of(p, q):
                return _how(types[p - 1], q) if p else 'int'
            # a LateRetry is a retransmission decided before the answer was processed: prepare it at the
            # Deliver that cleared the request
            prepare = set()
            rows = [(tlc.parse_label(label)[0], st) for label, st in beh[1:]]
            rows = [r for r in rows if r[0] != 'Setup']
            for k, (n, _st) in enumerate(rows):
                if n == 'LateRetry':
                    for j in range(k - 1, 0, -1):
                        if rows[j][0] == 'Deliver' and rows[j][1]['inflight']['k'] == 'none' and \
                                rows[j - 1][1]['inflight']['k'] != 'none':
                            prepare.add(j + 1)
                            break
            for label, st in beh[1:]:
                name, args = tlc.parse_label(label)
                if name == 'Setup':
                    continue
                steps += 1
                nev = len(x.ev)
                why = ''
                if steps in prepare:
                    why = x.replay_step('PrepareLate', [], how_of)
                why = why or x.replay_step(name, args, how_of)
                pr = x.project()
                exp = {'success': st['success'], 'queue': [r['n'] for r in st['queue']],
                       'inflight': st['inflight']['k'] != 'none', 'link': st['link'],
                       'chan': [(r['k'], r['p'], r['q']) for r in st['chan']],
                       'inq': [(r['k'], r['p'], r['q']) for r in st['inq']],
                       'dval': list(st['dval']), 'dstored': list(st['dstored']),
                       'pendcb': st['pendcb']['p'] != 0, 'ncalls': st['ncalls']}
                exp['sema'] = st['sema']
                exp['pc'] = st['pc']
                got_ev = x.ev[nev:]
                want = dict(st['obs'])
                want['f'] = [dict(e) for e in want['f']]
                ok = (not why) and pr == exp and got_ev == [want]
                if name == 'Deliver' and st['link'] != 'up' and why.startswith('blocked-at-sleep'):
                    # the design spec lets the dispatcher take what is in the in_queue of a closed link (it may
                    # be waiting inside receive_packet); here its poll had timed out before: not realisable
                    steps -= 1
                    first = first or {'unrealisable': True}
                    break
                if ok:
                    matched += 1
                elif first is None:
                    first = {'step': steps, 'action': label, 'why': why, 'real': pr, 'spec': exp,
                             'events': got_ev, 'obs': want}
                    break
            # the behaviour is over: let everything that can still happen happen (fair environment), so that the
            # end-of-trace clause is judged at quiescence
            if x.user is not None:
                x.finish_call()
            t = x.trace()
            x._undo_event()
    t['sc'] = sc
    return t, steps, matched, first


def slim(t):
    return {k: t[k] for k in ('id', 'nature', 'status', 'dval0', 'ev', 'blocked', 'linkup')}


# --------------------------------------------------------------------------- judging (family A)
def _init():
    vsched.load_cflib()
    sd.install()


def run_scenarios(scs, mutant=None, whatif=False):
    jobs = [{'sc': sc, 'mutant': mutant, 'whatif': whatif} for sc in scs]
    return common.pmap(execute, jobs, init=_init, maxtasks=200)


def judge_pf(out, traces, label, cfg='TRACE_ParamFile.cfg', count=True):
    """-> (bad [(trace, clause, at)], drift count)"""
    for i, t in enumerate(traces):
        t['id'] = i + 1
    verdicts, st = common.validate_traces('ParamFileTrace.tla', cfg, [slim(t) for t in traces])
    if count:
        out.traces += len(traces)
        out.states += st['states']
        out.transitions += st['transitions']
        out.tlc_runs.append({'config': '%s (%s)' % (cfg, label), 'states': st['states'],
                             'transitions': st['transitions'], 'wall_s': round(st['wall_s'], 2), 'traces': len(traces)})
    bad, drift = [], []
    for t in traces:
        clause, at, conf, conf_at = verdicts[t['id']]
        t['verdict'] = [clause, at, conf, conf_at]
        if clause != 'ok':
            bad.append((t, clause, at))
        elif not conf:
            drift.append(t)
    return bad, drift


def signature_pf(t, clause, at):
    """violated clause + canonical witness class"""
    ev = t['ev']
    calls = [i for i, e in enumerate(ev) if e['e'] == 'call']
    if clause.startswith('Hang'):
        ev = ev[calls[-1]:] if calls else ev
        issues = [e for e in ev if e['e'] == 'issue']
        last = issues[-1] if issues else None
        cbs = [e for e in ev if e['e'] == 'cb']
        if last is not None and last['k'] == 'store' and not any(c['p'] == last['p'] for c in cbs):
            return '%s/wait-for-store-callback' % clause
        return '%s/%s' % (clause, 'after-' + (last['k'] if last else 'nothing'))
    upto = ev[:max(at, 1)]
    kinds = []
    f = []
    for e in upto:
        if e['e'] == 'call':
            f = e['f']
    n_ok = sum(1 for e in upto if e['e'] == 'cb' and e['ok'])
    nat = '-'
    if n_ok < len(f):
        p = f[n_ok]['p']
        nat = 'missing' if p == 0 else t['nature'][p - 1] + ('' if f[n_ok]['q'] >= 0 else '+novalue')
    lost = any(e['e'] == 'down' for e in upto)
    return '%s/%s%s' % (clause, nat, '+link-lost' if lost else '')


def _view(t, at=None):
    ev = [{k: v for k, v in e.items() if k == 'e' or v not in (0, '', [], False)} for e in t['ev']]
    return {'events': ev, 'blocked': t['blocked'], 'linkup': t['linkup'], 'verdict': t.get('verdict')}


def report_pf(out, bad):
    for (t, clause, at) in sorted(bad, key=lambda b: len(b[0]['ev'])):
        out.violation(signature_pf(t, clause, at), clause,
                      {'helper': 'ParamFileHelper.store_params_from_file', 'event_index': at, 'trace': _view(t)},
                      {'family': 'paramfile', 'scenario': t['sc']})


PF_BUGS = [('asis_hang', 'NoHang'), ('noBreak', 'NoIssuedAfterEnd'), ('reverse', 'NoIssuedOutOfOrder'),
           ('storeFirst', 'PropsOK'), ('noSerial', 'NoStoreBeforeConfirm'), ('ignoreStatus', 'NoTrueButNotAllStored'),
           ('noWait', 'PropsOK')]


def _tlc_job(job):
    kind, spec, cfg, kw = job
    try:
        if kind == 'check':
            r = tlc.check(spec, cfg, **kw)
        elif kind == 'bug':
            r = tlc.expect_violation(spec, cfg, **kw)
        else:
            raise common.MachineryError(kind)
        return (kind, cfg, r.summary(), r.violated, dict(r.coverage), None)
    except (tlc.TLCError, common.MachineryError) as e:
        return (kind, cfg, None, None, None, str(e))


def corrupted_pf(traces):
    """binding self-tests: (label, trace, what must happen: 'monitor' = rejected by the monitor,
    'conform' = rejected by the monitor or by conformance)"""
    out = []
    full = next((t for t in traces if t['ev'] and t['ev'][-1]['e'] == 'ret' and t['ev'][-1]['res'] == 'true'
                 and sum(1 for e in t['ev'] if e['e'] == 'cb') >= 2 and not any(e['e'] in ('dup', 'lost') for e in t['ev'])), None)
    if full is None:
        raise common.MachineryError('no complete successful two-parameter trace available for the binding self-tests')

    def variant(label, fn, want):
        t = copy.deepcopy(full)
        fn(t['ev'])
        t.pop('verdict', None)
        out.append((label, t, want))
    # the confirmation of the first write removed: the store that follows was sent unconfirmed
    variant('drop-first-write-reply', lambda ev: ev.pop(next(i for i, e in enumerate(ev) if e['e'] == 'rx' and e['k'] == 'set')), 'monitor')
    # two requests exchanged on the wire
    def swap(ev):
        ix = [i for i, e in enumerate(ev) if e['e'] == 'tx']
        ev[ix[0]], ev[ix[1]] = ev[ix[1]], ev[ix[0]]
    variant('swap-first-two-requests-on-the-wire', swap, 'monitor')
    # the device stored another value than the file's
    def wrong(ev):
        e = next(e for e in ev if e['e'] == 'tx' and e['k'] == 'store')
        e['dv'] += 4
    variant('stored-value-changed', wrong, 'monitor')
    # the last store answered with an error status, yet True returned
    def status(ev):
        e = [e for e in ev if e['e'] == 'tx' and e['k'] == 'store'][-1]
        e['st'] = 2
    variant('last-store-status-changed', status, 'monitor')
    # a wake event removed: invisible to the property, but not to the design spec
    variant('drop-wake-event', lambda ev: ev.pop(next(i for i, e in enumerate(ev) if e['e'] == 'wake')), 'conform')
    return out


# --------------------------------------------------------------------------- background TLC
class _Bg:
    """run fn(*args) in a forked process while the main process goes on"""
    live = []

    @classmethod
    def cleanup(cls):
        for b in cls.live:
            if b.p.is_alive():
                b.p.terminate()
                b.p.join(5)
        cls.live = []

    def __init__(self, fn, *args):
        import multiprocessing as mp
        ctx = mp.get_context('fork')
        self.rx, tx = ctx.Pipe(False)
        self.p = ctx.Process(target=self._run, args=(tx, fn, args))
        self.p.start()
        tx.close()
        _Bg.live.append(self)

    @staticmethod
    def _run(tx, fn, args):
        try:
            tx.send(('ok', fn(*args)))
        except (common.MachineryError, tlc.TLCError) as e:
            tx.send(('err', str(e)))
        except Exception:
            import traceback
            tx.send(('err', traceback.format_exc()[-3000:]))
        finally:
            tx.close()

    def get(self):
        try:
            kind, val = self.rx.recv()
        except EOFError:
            kind, val = 'err', 'background process died'
        self.p.join()
        if kind == 'err':
            raise common.MachineryError(val)
        return val


def _design_checks(tier):
    """exhaustive design-spec checks + every bug configuration (must be refuted), a few TLC runs at a time"""
    from concurrent.futures import ThreadPoolExecutor
    w = 4 if tier == 'quick' else 6
    jobs = []
    for c in PF_CHECKS[tier]:
        jobs.append(('check', 'MC_ParamFile.tla', c, {'workers': w, 'timeout': 3000, 'coverage': tier == 'thorough' and 'nolinkloss' in c}))
    for (b, _inv) in PF_BUGS:
        jobs.append(('bug', 'MC_ParamFile.tla', 'MC_ParamFile_bug_%s.cfg' % b, {'workers': 2, 'timeout': 900}))
    jobs += design_jobs_b(tier)
    with ThreadPoolExecutor(max_workers=4) as ex:
        return list(ex.map(_tlc_job, jobs))


PF_CHECKS = {'quick': ['MC_ParamFile_quick.cfg', 'MC_ParamFile_fixed_quick.cfg', 'MC_ParamFile_nolinkloss_quick.cfg'],
             'thorough': ['MC_ParamFile_thorough.cfg', 'MC_ParamFile_fixed_thorough.cfg', 'MC_ParamFile_nolinkloss_thorough.cfg']}


def design_jobs_b(tier):
    return []


def _simulate(args):
    spec, cfg, num, depth, seed = args
    rs, behs = tlc.simulate(spec, cfg, num=num, depth=depth, seed=seed, timeout=1500, workers=1)
    return rs.summary(), behs


ASSUMPTIONS = [
    'X02 is an extra specification (DESIGN 8(4)): the guarantees are stated by the builder from docstrings and evident intent, '
    'conservatively (spec/ParamFileProps.tla header lists them and what is NOT demanded)',
    'ParamFileHelper: the result for an empty file is not constrained (the code returns the stale flag of the previous call; '
    'False on a new helper); unusable entries (unknown / read-only / non-persistent parameter, stored_value null) may raise instead of '
    'returning False; a write request of a non-persistent parameter may be transmitted after the call raised',
    'ParamFileHelper: a call that waits on a live link for a reply the environment never delivers is not a hang (the helper has no '
    'timeout, the library retransmits for ever on a resending link); a call that stays blocked after the connection is gone IS (G5)',
    'device: simdev parameter service [fw param_logic.c]: write reply echoes the value, store reply carries a status byte, a store '
    'with non-zero status is not performed; values are multiples of 1/4 so that float <-> integer conversion is exact',
    'one helper object is used by one thread at a time; one connection per execution (no reconnect)',
]


# =========================================================================== family B: log helpers
# device log table: the helper's variables are not at the indices of their numbers, and there are decoys
RANGER_NAMES = ['range.front', 'range.back', 'range.left', 'range.right', 'range.up', 'range.zrange']
EST_NAMES = ['kalman.varPX', 'kalman.varPY', 'kalman.varPZ']
LOG_TOC_B = [('pm.vbat', 7), ('range.up', 2), ('kalman.varPZ', 7), ('range.front', 2), ('range.zrange', 2),
             ('stabilizer.roll', 7), ('range.left', 2), ('kalman.varPX', 7), ('range.back', 2), ('range.right', 2),
             ('kalman.varPY', 7), ('range.fake', 2)]
CTL_NAMES = {0: 'create', 6: 'create', 1: 'append', 7: 'append', 2: 'delete', 3: 'start', 4: 'stop', 5: 'reset'}
LOG_FMT = {1: '<B', 2: '<H', 3: '<L', 4: '<b', 5: '<h', 6: '<i', 7: '<f'}      # [fw log.h]


def EB(e, **kw):
    d = {'e': e, 'op': '', 'cmd': '', 'id': 0, 'vars': [], 'per': 0, 'st': 0, 'vals': [], 'read': [], 'v': 0, 't': 0,
         'res': ''}
    d.update(kw)
    return d


def gate(kind, ready):
    s = vcore.CUR
    if s is not None and s.current() is not None:
        s.yield_op(vcore.Op(kind, None, ready, lambda: None))


def deliver_now(link, pk):
    """put a downlink packet into the link's in_queue at once (the virtual Queue.put would be a yield point of
    the sending thread: the design spec has the acknowledgement in the queue as soon as the device has acted)"""
    from cflib.crtp.crtpstack import CRTPPacket
    if link is None or link.closed:
        return
    cp = CRTPPacket(pk.header & 0xF3, bytes(pk.data))
    link.in_queue.queue.append(cp)
    link.in_queue.unfinished_tasks += 1


class BDevice(sd.Device):
    """log control messages (port 5 channel 1) and parameter writes (port 2 channel 2) are executed when they
    arrive and answered at once into the host's in_queue; both are observable (parking) events"""

    def __init__(self, *a, **kw):
        super().__init__(*a, **kw)
        self.manual = False
        self.x = None

    def uplink(self, link, pk):
        if self.manual and pk.port == sv.PORT_LOG and pk.channel == 1:
            if link.closed or link is not self.link:
                return
            self.up_n += 1
            reps = self.services[sv.PORT_LOG].handle(pk)
            self.x.on_ctl(pk, reps)
            for r in reps:
                deliver_now(link, r)
            return
        if self.manual and pk.port == sv.PORT_PARAM and pk.channel == 2:
            if link.closed or link is not self.link:
                return
            self.up_n += 1
            reps = self.services[sv.PORT_PARAM].handle(pk)
            self.x.on_pset(pk)
            for r in reps:
                deliver_now(link, r)
            return
        return super().uplink(link, pk)

def kval(x):
    """Python float -> exact integer value * 65536 (-9 if not representable)"""
    try:
        fr = Fraction(x) * 65536
    except Exception:
        return -9
    return int(fr) if fr.denominator == 1 and abs(fr) < 2 ** 31 else -9


def mm_of(x):
    """Multiranger property -> millimetres (exact: n/1000.0 == x), -1 for None, -2 otherwise"""
    if x is None:
        return -1
    if isinstance(x, float):
        n = int(round(x * 1000))
        if 0 <= n < 2 ** 31 and n / 1000.0 == x:
            return n
    return -2


class ExecB(Stepper):
    """One scenario of family B.  sc: mode 'ranger'|'estimator', rate, haskalman, script [op], data [vector],
    driver, down"""
    STOPS = ('obs.begin', 'obs.end', 'obs.ctl', 'obs.pset', 'obs.ack', 'obs.data', 'obs.prx', 'obs.wake', 'obs.take',
             'obs.down', 'obs.disc', 'obs.updclose')

    def __init__(self, sc, s, mutant=None):
        import cflib.crazyflie as cfm
        self.sc = sc
        self.s = s
        self.ev = []
        self.errors = []
        self.mode = sc['mode']
        self.names = RANGER_NAMES if self.mode == 'ranger' else EST_NAMES
        self.gate_open = 0
        self.nbegun = 0
        self.downthr = None
        self.down = False
        self.rx_held = None
        self.ndata = 0
        self.undo = []
        self.sent_types = {}
        self.cur_data = None
        self.bid_sent = 0
        w = sd.set_world(sd.World())
        entries = [{'group': n.split('.')[0].encode(), 'name': n.split('.')[1].encode(), 'type': t} for (n, t) in LOG_TOC_B]
        params = [{'group': b'ring', 'name': b'effect', 'type': 0x08, 'value': b'\x06', 'default': b'\x06', 'ext': 0}]
        if sc.get('haskalman', True):
            params.append({'group': b'kalman', 'name': b'resetEstimation', 'type': 0x08, 'value': b'\x00',
                           'default': b'\x00', 'ext': 0})
        self.kalman_id = len(params) - 1 if sc.get('haskalman', True) else -1
        self.dev = dev = BDevice({
            sv.PORT_LINK: sv.LinkService(), sv.PORT_PLATFORM: sv.PlatformService(10),
            sv.PORT_LOG: sv.LogService(sv.TocTable(entries, 0x5F02B000 + len(entries))),
            sv.PORT_PARAM: sv.ParamService(sv.TocTable(params, 0x5F02C000 + len(params))),
            sv.PORT_MEM: sv.MemoryService([])}, mode='sync', needs_resending=False)
        dev.x = self
        w.add('0', dev)
        self.logsvc = dev.services[sv.PORT_LOG]
        self.cf = cf = cfm.Crazyflie(rw_cache=None)
        done = {}
        cf.fully_connected.add_callback(lambda uri: done.setdefault('fc', True))
        s.spawn(lambda: cf.open_link('sim://0/1'), 'setup')
        why = s.run(until=lambda: done.get('fc'), horizon=60.0)
        if not done.get('fc'):
            raise common.MachineryError('simulated connect did not complete (%s): %s' % (why, s.report()))
        t2 = s.spawn(lambda: cf.link_statistics.stop(), 'setup')
        s.run(until=lambda: t2.finished, horizon=s.now + 5.0)
        s.run(until=lambda: not s.enabled()[0], horizon=s.now + 5.0, policy=vsched.FifoPolicy())
        self.upd = cf.param.param_updater
        self.urec = next(r for r in s.threads if r.vt is self.upd)
        self.drec = next(r for r in s.threads if r.vt is cf.incoming)
        self.link0 = cf.link
        if mutant:
            self.undo.append(mutant(self))
        dev.manual = True
        self.t0 = self.now_ms()
        link_close = self.link0.close
        self.closed_logged = False

        def close():
            if not self.closed_logged:
                self.closed_logged = True
                marker('obs.down')
                self.ev.append(EB('down'))
            return link_close()
        self.link0.close = close

        # a thread parks just before it hands a log control message / parameter write to Crazyflie.send_packet
        # (outside _send_lock, so that a parked thread never keeps other senders out)
        orig_send = cf.send_packet

        def send_packet(pk, *a, **k):
            if pk.port == sv.PORT_LOG and pk.channel == 1 and tuple(pk.data)[:1] != (5,):
                marker('obs.ctl')
            elif pk.port == sv.PORT_PARAM and pk.channel == 2:
                marker('obs.pset')
            return orig_send(pk, *a, **k)
        cf.send_packet = send_packet

        # ---- observation points
        def on_rx(pk):
            if pk.port == sv.PORT_LOG and pk.channel == 1 and len(pk.data) >= 3 and pk.data[0] != 5:
                self.rx_held = pk
                marker('obs.ack')
                self.rx_held = None
                self.ev.append(EB('ack', cmd=CTL_NAMES.get(pk.data[0], 'cmd%d' % pk.data[0]), id=pk.data[1], st=pk.data[2]))
            elif pk.port == sv.PORT_LOG and pk.channel == 2:
                self.rx_held = pk
                marker('obs.data')
                self.rx_held = None
            elif pk.port == sv.PORT_PARAM and pk.channel == 2:
                self.rx_held = pk
                marker('obs.prx')
                self.rx_held = None
                self.ev.append(EB('prx', v=pk.data[2] if len(pk.data) > 2 else 0))
        cf.packet_received.add_callback(on_rx)

        def after_log(pk):
            if pk.channel == 2:
                bid = pk.data[0]
                self.ev.append(EB('data', id=bid, vals=self.decode_payload(bid, bytes(pk.data[4:])), read=self.read_props()))
        cf.add_port_callback(sv.PORT_LOG, after_log)          # after Log's own port callback

        q = self.upd.request_queue
        q_put = q._put

        def logged_put(item):
            d = bytes(item.data)
            if item.channel == 2 and len(d) >= 3 and (d[0] | (d[1] << 8)) == self.kalman_id:
                self.ev.append(EB('pcall', v=d[2], t=self.now_ms()))
            q_put(item)
        q._put = logged_put

        # time.sleep() of reset_estimator and Queue.get() of SyncLogger made visible (module-level substitutes
        # that park and log after the real operation returned)
        import cflib.utils.reset_estimator as rem
        import cflib.crazyflie.syncLogger as slm
        me = self
        vt = rem.time
        while getattr(vt, '_x02_base', None) is not None:
            vt = vt._x02_base

        class TimeProxy:
            _x02_base = vt

            def __getattr__(self, name):
                return getattr(vt, name)

            def sleep(self, x):
                vt.sleep(x)
                marker('obs.wake')
                me.ev.append(EB('wake', t=me.now_ms()))
        rem.time = TimeProxy()
        self.undo.append(lambda: setattr(rem, 'time', vt))
        qb = slm.Queue
        while getattr(qb, '_x02_base', None) is not None:
            qb = qb._x02_base

        class ObsQueue(qb):
            _x02_base = qb


            def get(self, block=True, timeout=None):
                r = qb.get(self, block, timeout)
                marker('obs.take')
                if isinstance(r, tuple) and len(r) == 3 and isinstance(r[1], dict):
                    me.ev.append(EB('take', vals=[kval(r[1].get(n)) for n in EST_NAMES]))
                else:
                    me.ev.append(EB('take'))
                return r
        slm.Queue = ObsQueue
        self.undo.append(lambda: setattr(slm, 'Queue', qb))
        orig_close = self.upd.close

        def close():
            marker('obs.updclose')
            r = orig_close()
            self.ev.append(EB('updclose'))          # in the region of `self.toc = Toc()`
            return r
        self.upd.close = close
        # SyncLogger._disconnected (disconnect() + DISCONNECT_EVENT) made visible
        sd_orig = slm.SyncLogger.__dict__['_disconnected']
        while getattr(sd_orig, '_x02_base', None) is not None:
            sd_orig = sd_orig._x02_base

        def _disconnected(self_, link_uri):
            marker('obs.disc')
            me.ev.append(EB('disc'))
            return sd_orig(self_, link_uri)
        _disconnected._x02_base = sd_orig
        slm.SyncLogger._disconnected = _disconnected
        self.undo.append(lambda: setattr(slm.SyncLogger, '_disconnected', sd_orig))
        self.mr = None
        self.user = None

    def cleanup(self):
        for u in reversed(self.undo):
            if callable(u):
                u()

    def now_ms(self):
        return int(round(self.s.now * 1000))

    # -- device observers / conversions
    def var_no(self, idx):
        name = LOG_TOC_B[idx][0] if idx < len(LOG_TOC_B) else ''
        return self.names.index(name) + 1 if name in self.names else 100 + idx

    def on_ctl(self, pk, reps):
        d = bytes(pk.data)
        cmd = CTL_NAMES.get(d[0], 'cmd%d' % d[0])
        bid = d[1] if len(d) > 1 else 0
        e = EB('ctl', cmd=cmd, id=bid)
        if cmd == 'create':
            self.bid_sent = bid
        if cmd in ('create', 'append'):
            e['vars'] = [[self.var_no(ref), tb & 0x0F, (tb >> 4) & 0x0F] for (tb, _k, ref) in
                         self.logsvc._parse_vars(d[2:], d[0] in (6, 7))]
        if cmd == 'start':
            e['per'] = d[2] if len(d) > 2 else 0
        if cmd == 'reset':
            return
        self.ev.append(e)

    def on_pset(self, pk):
        d = bytes(pk.data)
        i = d[0] | (d[1] << 8)
        if i == self.kalman_id:
            self.ev.append(EB('pset', v=d[2]))
        else:
            self.ev.append(EB('pset', v=1000 + i))

    def decode_payload(self, bid, payload):
        types = self.sent_types.get(bid)
        if types is None:
            return [-9]
        out, pos = [], 0
        for t in types:
            n = struct.calcsize(LOG_FMT[t])
            v = struct.unpack(LOG_FMT[t], payload[pos:pos + n])[0]
            pos += n
            out.append(kval(v) if t == 7 else int(v))
        return out

    def read_props(self):
        if self.mode != 'ranger' or self.mr is None:
            return []
        m = self.mr
        return [mm_of(x) for x in (m.front, m.back, m.left, m.right, m.up, m.down)]

    def emit(self, vec):
        """the device sends one sample of its started block (values: ranger mm, estimator value * 65536)"""
        blocks = [(bid, b) for bid, b in self.logsvc.blocks.items() if b['started']]
        if not blocks or self.dev.link is None:
            return False
        bid, b = blocks[0]
        types = [tb & 0x0F for (tb, _k, _r) in b['vars']]
        if len(types) != len(vec):
            vec = (list(vec) + [0] * len(types))[:len(types)]
        payload = b''
        for t, v in zip(types, vec):
            payload += struct.pack(LOG_FMT[t], (v / 65536.0) if t == 7 else int(v))
        self.sent_types = dict(self.sent_types)
        self.sent_types[bid] = types
        self.ndata += 1
        self.ev.append(EB('emit', id=bid, vals=[int(v) for v in vec]))
        deliver_now(self.dev.link, self.logsvc.data_packet(bid, self.ndata & 0xFFFFFF, payload))
        return True

    def can_emit(self):
        return self.dev.link is not None and any(b['started'] for b in self.logsvc.blocks.values())

    # -- user thread
    def start_user(self):
        sc = self.sc
        cf = self.cf

        def begin(op, res=''):
            k = self.nbegun
            gate('obs.begin', lambda: self.gate_open > k)
            self.nbegun += 1
            self.ev.append(EB('begin', op=op, res=res))

        def end(op, res):
            marker('obs.end')
            self.ev.append(EB('end', op=op, res=res))

        def body():
            from cflib.utils.multiranger import Multiranger
            from cflib.utils.reset_estimator import reset_estimator
            for o in sc['script']:
                op = 'exit' if o == 'exitexc' else o
                begin(op, 'exc' if o == 'exitexc' else '')
                res = ''
                try:
                    if o in ('start', 'enter') and self.mr is None:
                        target = cf
                        if sc.get('sync'):
                            from cflib.crazyflie.syncCrazyflie import SyncCrazyflie
                            target = SyncCrazyflie('sim://0/1', cf=cf)
                        self.mr = Multiranger(target, rate_ms=sc['rate'])
                    if o == 'start':
                        self.mr.start()
                    elif o == 'stop':
                        self.mr.stop()
                    elif o == 'enter':
                        r = self.mr.__enter__()
                        res = 'self' if r is self.mr else 'other'
                    elif o == 'exit':
                        self.mr.__exit__(None, None, None)
                    elif o == 'exitexc':
                        try:
                            raise _BodyError('raised by the with-body')
                        except _BodyError as e:
                            sup = self.mr.__exit__(type(e), e, e.__traceback__)
                            res = 'swallowed' if sup else 'propagated'
                    elif o == 'reset':
                        reset_estimator(cf)
                except Exception as e:
                    res = type(e).__name__
                end(op, res)
        self.user = self.s.spawn(body, 'user')
        return self.user

    def linkdown(self, kind='error'):
        link = self.dev.link
        cf = self.cf
        if kind == 'close':
            self.downthr = self.s.spawn(lambda: cf.close_link(), 'closer')
        else:
            self.downthr = self.s.spawn(lambda: link.report_error('simulated link failure'), 'simdriver')
        self.down = True
        return self.downthr

    def settle(self, horizon=5.0):
        s = self.s
        return s.run(until=lambda: not s.enabled()[0], horizon=s.now + horizon, policy=vsched.FifoPolicy())

    def trace(self):
        blocked = self.user is not None and not self.user.finished
        return {'mode': self.mode, 'rate': self.sc['rate'], 'haskalman': bool(self.sc.get('haskalman', True)),
                'script': list(self.sc['script']), 't0': self.t0, 'ev': self.ev, 'blocked': bool(blocked),
                'devblocks': len(self.logsvc.blocks), 'linkup': self.cf.link is not None,
                'dead': [t['name'] for t in self.s.report() if t['status'] == 'dead'], 'errors': self.errors}

    # ------------------------------------------------------------------ code -> spec driver
    def run_driver(self, ch, max_iter=20000):
        s = self.s
        sc = self.sc
        data = list(sc.get('data', []))
        self.start_user()
        it = 0
        while it < max_iter:
            it += 1
            run = self.s.enabled()[0]
            opts = [('step', r) for r in run]
            if data and self.can_emit():
                opts.append('emit')
            if self.gate_open < len(sc['script']) and self.gate_open <= self.nbegun:
                opts.append('next')
            if not self.down and sc.get('down'):
                opts.append(sc['down'])
            if self.user.finished and not run:
                break
            c = ch.choose(self, opts)
            if c is None:
                # nothing chosen: let virtual time pass once (the 0.1 s sleep), then give up
                timed = self.s.enabled()[1]
                if timed and not getattr(self, '_ticked', 0) > 40:
                    self._ticked = getattr(self, '_ticked', 0) + 1
                    self.s.tick(timed)
                    continue
                break
            if isinstance(c, tuple):
                s.trace.append(c[1].name)
                s.step_thread(c[1])
            elif c == 'emit':
                self.emit(data.pop(0))
            elif c == 'next':
                self.gate_open += 1
            elif c in ('down', 'close'):
                self.linkdown('close' if c == 'close' else 'error')
            elif c == 'tick':
                self.s.tick(self.s.enabled()[1])
        # fair end: everything that can still run runs, up to the horizon
        self.settle()
        if not self.user.finished:
            self.s.run(until=lambda: self.user.finished, horizon=self.s.now + 30.0, policy=vsched.FifoPolicy())

    # ------------------------------------------------------------------ spec -> code replay
    def _visible(self, rec):
        op = rec.pending
        if op is None:
            return False
        if op.kind in ('obs.ctl', 'obs.pset') and self.cf.link is None:
            return False            # the packet is lost with the link: no event
        if op.kind in self.STOPS:
            return True
        if op.kind == 'queue.put' and op.obj is self.upd.request_queue and rec is self.user:
            return True
        if op.kind == 'queue.get' and op.obj is self.upd.request_queue and rec is self.urec:
            return True
        return False

    def _kind(self, rec):
        op = rec.pending
        if op.kind == 'queue.put' and op.obj is self.upd.request_queue:
            return 'updq.put'
        if op.kind == 'queue.get' and op.obj is self.upd.request_queue:
            return 'updq.get'
        return op.kind

    def run_on(self, rec, limit=400):
        n = 0
        while not rec.finished and rec.pending is not None and not self._visible(rec) and self._can_run(rec) and n < limit:
            self.s.step_thread(rec)
            n += 1

    def project(self):
        cf = self.cf
        lc = None
        if self.mode == 'ranger' and self.mr is not None:
            lc = self.mr._log_config
        elif self.mode == 'estimator':
            lc = next((b for b in cf.log.log_blocks if b.name == 'Kalman Variance'), None)
        blocks = self.logsvc.blocks
        if blocks:
            bid, b = sorted(blocks.items())[0]
            dblk = {'id': bid, 'started': bool(b['started']), 'per': b['period'] if b['started'] or b['period'] else 0}
        else:
            dblk = {'id': 0, 'started': False, 'per': 0}

        def kind(pk):
            if pk.port == sv.PORT_LOG and pk.channel == 1:
                return 'ack'
            if pk.port == sv.PORT_LOG and pk.channel == 2:
                return 'data'
            if pk.port == sv.PORT_PARAM and pk.channel == 2:
                return 'prx'
            return 'other'
        inq = [kind(pk) for pk in ([self.rx_held] if self.rx_held is not None else []) + list(self.link0.in_queue.queue)]
        return {'bid': self.bid_sent, 'lccf': bool(lc is not None and lc.cf is not None), 'ladded': bool(lc._added) if lc is not None else False,
                'dblk': dblk, 'inq': [k for k in inq if k != 'other'], 'link': 'up' if cf.link is not None else 'down',
                'vals': self.read_props() if self.mode == 'ranger' and self.mr is not None else [-1] * 6,
                'pq': [bytes(pk.data)[2] for pk in list(self.upd.request_queue.queue) if pk.channel == 2],
                'pinfl': bool(self.upd.wait_lock.locked()), 'ndata': self.ndata}

    def replay_step(self, name, args, st):
        U = {'Begin': 'obs.begin', 'PCall': 'updq.put', 'SleepWake': 'obs.wake', 'SendCreate': 'obs.ctl',
             'SendDelete': 'obs.ctl', 'SendStop': 'obs.ctl', 'UTake': 'obs.take', 'End': 'obs.end'}
        if name == 'Begin':
            if self.user is None:
                self.start_user()
            self.gate_open += 1
        if name == 'SleepWake':
            want = (st['now'] + self.t0) / 1000.0
            if want > self.s.now:
                self.s.now = want
        if name in U:
            r = self.act(self.user, U[name])
            return '' if r == 'ok' else r
        if name == 'PTx':
            r = self.act(self.urec, 'obs.pset')
            return '' if r == 'ok' else r
        if name in ('DispP', 'DispAck', 'DispData', 'SendStart'):
            r = self.act(self.drec, {'DispP': 'obs.prx', 'DispAck': 'obs.ack', 'DispData': 'obs.data', 'SendStart': 'obs.ctl'}[name])
            return '' if r == 'ok' else r
        if name == 'SyncDisc':
            r = self.act(self.downthr, 'obs.disc')
            return '' if r == 'ok' else r
        if name == 'ParamClose':
            r = self.act(self.downthr, 'obs.updclose')
            return '' if r == 'ok' else r
        if name == 'EmitData':
            return '' if self.emit(args[0]) else 'no started block'
        if name == 'LinkDrop':
            rec = self.linkdown('error')
            r = self.act(rec, 'obs.down')
            # operations parked just before a transmission are void now: let those threads run on
            for _ in range(3):
                for t in (self.drec, self.urec, self.user):
                    if t is not None and not t.finished:
                        self.run_on(t)
            return '' if r == 'ok' else r
        return 'unknown action ' + name


class _BodyError(Exception):
    pass


class CanonChooserB:
    """FIFO threads; when nothing is runnable: next sample, else next operation of the script; the link is
    taken away after `down_at` recorded events"""

    def __init__(self, down_at=None, data_first=True):
        self.down_at = down_at
        self.data_first = data_first

    def choose(self, x, opts):
        for d in ('down', 'close'):
            if d in opts and self.down_at is not None and len(x.ev) >= self.down_at:
                return d
        steps = [o for o in opts if isinstance(o, tuple)]
        if steps:
            return steps[0]
        if 'emit' in opts:
            return 'emit'
        if 'next' in opts:
            return 'next'
        return None


class RandomChooserB:
    def __init__(self, seed, p_env=0.1, p_down=0.004):
        self.rng = random.Random(seed)
        self.p_env = p_env
        self.p_down = p_down

    def choose(self, x, opts):
        rng = self.rng
        steps = [o for o in opts if isinstance(o, tuple)]
        downs = [o for o in opts if o in ('down', 'close')]
        env = [o for o in opts if o in ('emit', 'next')]
        if downs and rng.random() < self.p_down:
            return downs[0]
        if env and (not steps or rng.random() < self.p_env):
            if 'emit' in env and 'next' in env:
                return 'emit' if rng.random() < 0.8 else 'next'
            return env[0]
        if steps:
            return steps[rng.randrange(len(steps))]
        return None


def execute_b(job):
    sc = job['sc']
    mutant = MUTANTS_B[job['mutant']] if job.get('mutant') else None
    buf = io.StringIO()
    with contextlib.redirect_stdout(buf):
        with vsched.scheduler(vsched.FifoPolicy(), max_steps=400000) as s:
            x = None
            try:
                try:
                    x = ExecB(sc, s, mutant=mutant)
                except MutantSkipped as e:
                    return {'skipped': str(e), 'sc': sc, 'mode': sc['mode'], 'ev': []}
                drv = sc['driver']
                if drv[0] == 'replay':
                    for label, now in drv[1]:
                        name, args = tlc.parse_label(label)
                        if name == 'Setup':
                            continue
                        if x.replay_step(name, args, {'now': now}):
                            break
                    if x.user is None and sc['script']:
                        x.start_user()
                    x.gate_open = len(sc['script'])
                    x.settle()
                    if not x.user.finished:
                        s.run(until=lambda: x.user.finished, horizon=s.now + 30.0, policy=vsched.FifoPolicy())
                else:
                    ch = RandomChooserB(*drv[1:]) if drv[0] == 'random' else CanonChooserB(*drv[1:])
                    x.run_driver(ch)
                t = x.trace()
            finally:
                if x is not None:
                    x.cleanup()
    t['sc'] = sc
    return t


def slim_b(t):
    return {k: t[k] for k in ('id', 'rate', 'haskalman', 'script', 't0', 'ev', 'blocked', 'devblocks')}


# --------------------------------------------------------------------------- in-memory mutants (family B)
class MutantSkipped(Exception):
    pass


def _patch_source(owner, fname, old, new, count=1):
    """recompile owner.fname (a function of a module or a method of a class) with `old` replaced by `new`"""
    import inspect
    import textwrap
    fn = getattr(owner, fname)
    fn = getattr(fn, '__func__', fn)
    src = textwrap.dedent(inspect.getsource(fn))
    if src.count(old) < 1:
        raise MutantSkipped('%s: text %r not found' % (fname, old))
    src2 = src.replace(old, new, count)
    ns = {}
    exec(compile(src2, '<mutant %s>' % fname, 'exec'), fn.__globals__, ns)
    orig = owner.__dict__[fname] if isinstance(owner, type) else getattr(owner, fname)
    setattr(owner, fname, ns[fn.__name__])
    return lambda: setattr(owner, fname, orig)


def _mr(fname, old, new):
    def install(x):
        import cflib.utils.multiranger as m
        return _patch_source(m.Multiranger, fname, old, new)
    return install


def _re(fname, old, new, count=1):
    def install(x):
        import cflib.utils.reset_estimator as m
        return _patch_source(m, fname, old, new, count)
    return install


def _sl(fname, old, new):
    def install(x):
        import cflib.crazyflie.syncLogger as m
        return _patch_source(m.SyncLogger, fname, old, new)
    return install


MUTANTS_B = {
    # Multiranger
    'r_limit_gt': _mr('_convert_log_to_distance', 'data >= 8000', 'data > 8000'),
    'r_no_limit': _mr('_convert_log_to_distance', 'data >= 8000', 'data >= 80000'),
    'r_div_100': _mr('_convert_log_to_distance', 'data / 1000.0', 'data / 100.0'),
    'r_swap_left_right': _mr('_data_received', 'data[self.LEFT]', 'data[self.RIGHT] if True else data[self.LEFT]'),
    'r_up_from_front': _mr('_data_received', 'data[self.UP]', 'data[self.FRONT]'),
    'r_no_zrange': _mr('_create_log_config', 'log_config.add_variable(self.DOWN)', 'pass'),
    'r_order': _mr('_create_log_config', 'log_config.add_variable(self.FRONT)\n', 'log_config.add_variable(self.DOWN)\n'),
    'r_stop_only_stops': _mr('stop', 'self._log_config.delete()', 'self._log_config.stop()'),
    'r_exit_swallows': _mr('__exit__', 'self.stop()', 'self.stop()\n    return True'),
    'r_exit_skips_on_exception': _mr('__exit__', 'self.stop()', 'if exc_type is None:\n        self.stop()'),
    'r_enter_returns_none': _mr('__enter__', 'return self', 'return None'),
    'r_rate_not_divided': _mr('_create_log_config', "LogConfig('multiranger', rate_ms)", "LogConfig('multiranger', rate_ms * 2)"),
    # reset_estimator / SyncLogger
    'e_no_zero_write': _re('reset_estimator', "cf.param.set_value('kalman.resetEstimation', '0')", 'pass'),
    'e_zero_first': _re('reset_estimator', "cf.param.set_value('kalman.resetEstimation', '1')", "cf.param.set_value('kalman.resetEstimation', '0')"),
    'e_short_sleep': _re('reset_estimator', 'time.sleep(0.1)', 'time.sleep(0.01)'),
    'e_threshold_x10': _re('_wait_for_position_estimator', 'threshold = 0.001', 'threshold = 0.01'),
    'e_window_5': _re('_wait_for_position_estimator', '* 10', '* 5', 3),
    'e_any_axis': _re('_wait_for_position_estimator', '(max_x - min_x) < threshold and (', '(max_x - min_x) < threshold or ('),
    'e_first_sample': _re('_wait_for_position_estimator', "data = log_entry[1]", "data = log_entry[1]\n            break"),
    'e_z_ignored': _re('_wait_for_position_estimator', "var_z_history.append(data['kalman.varPZ'])", "var_z_history.append(data['kalman.varPY'])"),
    'e_no_disconnect_event': _sl('_disconnected', 'self._queue.put(self.DISCONNECT_EVENT)', 'pass'),
    'e_no_delete': _sl('disconnect', 'config.delete()', 'pass'),
}


# --------------------------------------------------------------------------- scenarios (family B)
def _sweep_vectors(values):
    """sample vectors such that every direction sees every value of `values`: vector j = six consecutive values"""
    vals = list(values)
    n = len(vals)
    return [[vals[(j + k) % n] for k in range(6)] for j in range(n)]


def sc_ranger(tier, rng):
    out = []
    scripts = [['start', 'stop'], ['enter', 'exit'], ['enter', 'exitexc'], ['start']]
    base = [[100, 200, 300, 400, 500, 600], [7999, 8000, 8001, 0, 65535, 7999], [8000, 7999, 0, 8001, 1, 8000],
            [0, 0, 0, 0, 0, 0], [65535] * 6, [1, 2, 3, 4, 5, 6]]
    # every script x rate x canonical order, link loss at every event position of the short scripts
    for sc in scripts:
        for rate in (100, 50, 10, 2540, 1000):
            out.append({'mode': 'ranger', 'rate': rate, 'script': sc, 'data': base, 'driver': ['canon', None], 'down': None,
                        'sync': rate == 50})
        for at in range(1, 14):
            for kind in ('down', 'close'):
                out.append({'mode': 'ranger', 'rate': 100, 'script': sc, 'data': base[:2], 'driver': ['canon', at], 'down': kind})
    # value sweep: every uint16 value in every direction (quick: every 7th value + the neighbourhood of the limit)
    if tier == 'quick':
        values = sorted(set(range(0, 65536, 7)) | set(range(7900, 8100)) | {65535, 65534})
    else:
        values = list(range(65536))
    vecs = _sweep_vectors(values)
    chunk = 800
    for i in range(0, len(vecs), chunk):
        out.append({'mode': 'ranger', 'rate': 100, 'script': ['start', 'stop'], 'data': vecs[i:i + chunk],
                    'driver': ['canon', None], 'down': None})
    # random schedules, random data, link loss
    for _ in range(60 if tier == 'quick' else 600):
        data = [[rng.choice([rng.randrange(65536), rng.randrange(7990, 8010), 0, 65535]) for _ in range(6)]
                for _ in range(rng.randint(0, 12))]
        out.append({'mode': 'ranger', 'rate': rng.choice([10, 20, 100, 500, 2540]), 'script': rng.choice(scripts), 'data': data,
                    'driver': ['random', rng.randrange(1 << 30), rng.choice([0.03, 0.1, 0.3]), rng.choice([0.002, 0.01])],
                    'down': rng.choice([None, None, 'down', 'close']), 'sync': rng.random() < 0.3})
    return out


K = 65536


def sc_estimator(tier, rng):
    out = []

    def sc(data, driver=None, down=None, haskalman=True):
        return {'mode': 'estimator', 'rate': 500, 'haskalman': haskalman, 'script': ['reset'], 'data': data,
                'driver': driver or ['canon', None], 'down': down}
    A = [100, 100, 100]
    # converges exactly at the 10th identical sample; one outlier pushes it back by ten
    out.append(sc([A] * 10))
    out.append(sc([A] * 9))                                   # never converges: stays blocked (allowed)
    out.append(sc([A] * 4 + [[100, 170, 100]] + [A] * 10))
    # threshold boundary: difference 65/65536 < 0.001 < 66/65536, on each axis
    for ax in range(3):
        for d in (60, 65, 66, 70):
            b = list(A)
            b[ax] += d
            out.append(sc([A, b] * 5 + [A] * 10))
    # padding quirk: samples within the threshold of 1000.0 converge at the first sample
    out.append(sc([[1000 * K, 1000 * K, 1000 * K]] * 2))
    out.append(sc([[1000 * K - 64, 1000 * K, 1000 * K + 0]] * 2 + [A] * 10))
    out.append(sc([[1000 * K - 68, 1000 * K, 1000 * K]] * 2 + [A] * 10))
    # slowly drifting values
    out.append(sc([[100 + 8 * j, 5000 - 8 * j, 77] for j in range(30)]))
    out.append(sc([[100 + 6 * j, 5000 - 6 * j, 77] for j in range(30)]))
    # parameter missing
    out.append(sc([A] * 10, haskalman=False))
    # link loss at every event position
    for at in range(1, 40 if tier == 'quick' else 60):
        for kind in ('down', 'close'):
            out.append(sc([A] * 12, driver=['canon', at], down=kind))
    for _ in range(80 if tier == 'quick' else 800):
        n = rng.randint(0, 25)
        base = [rng.randrange(0, 1 << 20) for _ in range(3)]
        data = []
        for j in range(n):
            if rng.random() < 0.15:
                base = [rng.randrange(0, 1 << 20) for _ in range(3)]
            data.append([b + rng.choice([0, 0, 1, 30, 65, 66, -40]) for b in base])
        data = [[max(0, v) for v in d] for d in data]
        out.append(sc(data, driver=['random', rng.randrange(1 << 30), rng.choice([0.03, 0.1, 0.3]), rng.choice([0.002, 0.01])],
                      down=rng.choice([None, None, 'down', 'close']), haskalman=rng.random() < 0.95))
    return out


def run_scenarios_b(scs, mutant=None):
    return common.pmap(execute_b, [{'sc': sc, 'mutant': mutant} for sc in scs], init=_init, maxtasks=200)


def judge_b(out, traces, label, count=True):
    bad, drift = [], []
    for mode, cfg in (('ranger', 'TRACE_LogHelper_ranger.cfg'), ('estimator', 'TRACE_LogHelper_est.cfg')):
        ts = [t for t in traces if t['mode'] == mode]
        if not ts:
            continue
        for i, t in enumerate(ts):
            t['id'] = i + 1
        # long traces (value sweeps) are spread evenly over the batches
        ts_sorted = sorted(ts, key=lambda t: -len(t['ev']))
        verdicts, st = common.validate_traces('LogHelperTrace.tla', cfg, [slim_b(t) for t in ts_sorted],
                                              chunk=max(1, (len(ts) + common.NCPU - 1) // common.NCPU))
        if count:
            out.traces += len(ts)
            out.states += st['states']
            out.transitions += st['transitions']
            out.tlc_runs.append({'config': '%s (%s)' % (cfg, label), 'states': st['states'], 'transitions': st['transitions'],
                                 'wall_s': round(st['wall_s'], 2), 'traces': len(ts)})
        for t in ts:
            clause, at, conf, conf_at = verdicts[t['id']]
            t['verdict'] = [clause, at, conf, conf_at]
            if clause != 'ok':
                bad.append((t, clause, at))
            elif not conf:
                drift.append(t)
    return bad, drift


def signature_b(t, clause, at):
    ops = [e['op'] for e in t['ev'][:max(at, 1)] if e['e'] == 'begin']
    lost = any(e['e'] == 'down' for e in t['ev'][:max(at, 1)])
    return '%s/%s/%s%s' % (clause, t['mode'], ops[-1] if ops else '-', '+link-lost' if lost else '')


def _view_b(t):
    ev = [{k: v for k, v in e.items() if k == 'e' or v not in (0, '', [], False)} for e in t['ev'][:80]]
    return {'events': ev, 'n_events': len(t['ev']), 'blocked': t['blocked'], 'devblocks': t['devblocks'], 'verdict': t.get('verdict')}


def report_b(out, bad):
    for (t, clause, at) in sorted(bad, key=lambda b: len(b[0]['ev'])):
        out.violation(signature_b(t, clause, at), clause,
                      {'helper': 'Multiranger' if t['mode'] == 'ranger' else 'reset_estimator', 'event_index': at,
                       'trace': _view_b(t)}, {'family': 'loghelper', 'scenario': t['sc']})


def _replay_job_b(beh):
    """behaviour of LogHelper.tla -> (trace, steps, matched, first mismatch)"""
    st1 = None
    for label, st in beh:
        if tlc.parse_label(label)[0] == 'Setup':
            st1 = st
            break
    if st1 is None:
        return None
    mode = 'ranger' if len(st1['mon']['mode']) == 6 else 'estimator'
    sc = {'mode': st1['mon']['mode'], 'rate': st1['rate'], 'haskalman': st1['haskalman'], 'script': list(st1['script']),
          'data': [], 'driver': ['replay', [[label, st['now']] for label, st in beh[1:]]], 'down': None}
    buf = io.StringIO()
    steps = matched = 0
    first = None
    with contextlib.redirect_stdout(buf):
        with vsched.scheduler(vsched.FifoPolicy(), max_steps=400000) as s:
            x = ExecB(sc, s)
            try:
                started = False
                for label, st in beh[1:]:
                    name, args = tlc.parse_label(label)
                    if name == 'Setup':
                        started = True
                        continue
                    if not started:
                        continue
                    steps += 1
                    nev = len(x.ev)
                    why = x.replay_step(name, args, st)
                    pr = x.project()
                    exp = {'bid': st['bid'], 'lccf': st['lccf'], 'ladded': st['ladded'], 'dblk': dict(st['dblk']), 'inq': [r['t'] for r in st['inq']],
                           'link': st['link'], 'vals': list(st['vals']), 'pq': list(st['pq']), 'pinfl': st['pinfl'],
                           'ndata': st['ndata']}
                    if exp['dblk']['id'] == 0:
                        exp['dblk'] = {'id': 0, 'started': False, 'per': 0}
                    if sc['mode'] != 'ranger' or x.mr is None:
                        pr['vals'] = exp['vals']
                    want = dict(st['obs'])
                    want['vars'] = [list(v) for v in want['vars']]
                    want['vals'] = list(want['vals'])
                    want['read'] = list(want['read'])
                    got_ev = x.ev[nev:]
                    if want['e'] == 'pcall' or want['e'] == 'wake':
                        # the clock of the execution starts at the end of the connection phase
                        want['t'] += x.t0
                    ok = (not why) and pr == exp and got_ev == [want]
                    if name in ('DispData', 'DispAck', 'DispP') and st['link'] != 'up' and why.startswith('blocked-at-sleep'):
                        steps -= 1          # not realisable under this timing (see family A)
                        first = first or {'unrealisable': True}
                        break
                    if ok:
                        matched += 1
                    elif first is None:
                        first = {'step': steps, 'action': label, 'why': why, 'real': pr, 'spec': exp, 'events': got_ev, 'obs': want}
                        break
                if x.user is None and sc['script']:
                    x.start_user()
                x.gate_open = len(sc['script'])
                x.settle()
                if x.user is not None and not x.user.finished:
                    x.s.run(until=lambda: x.user.finished, horizon=x.s.now + 30.0, policy=vsched.FifoPolicy())
                t = x.trace()
                for e in t['ev']:
                    if e['e'] in ('pcall', 'wake') and e['t'] >= x.t0 and '_adj' not in e:
                        pass
                t['t0'] = x.t0
            finally:
                x.cleanup()
    t['sc'] = sc
    return t, steps, matched, first


# --------------------------------------------------------------------------- design checks of family B
LH_CHECKS = {'quick': ['MC_LogHelper_ranger_quick.cfg', 'MC_LogHelper_est_quick.cfg', 'MC_LogHelper_est_link_quick.cfg'],
             'thorough': ['MC_LogHelper_ranger_thorough.cfg', 'MC_LogHelper_est_quick.cfg', 'MC_LogHelper_est_thorough.cfg']}
LH_BUGS = [('swapLeftRight', 'NoCreateNotAsConfigured'), ('noZrange', 'NoCreateNotAsConfigured'), ('period', 'NoStartNotAsConfigured'),
           ('limit', 'NoWrongDistance'), ('noLimit', 'NoWrongDistance'), ('noDelete', 'NoStopDidNotDelete'),
           ('swallow', 'NoExitSwallowed'), ('noZeroWrite', 'PropsOK'), ('shortSleep', 'PropsOK'),
           ('firstSample', 'NoReturnedBeforeConverged')]


def design_jobs_b(tier):   # noqa: F811  (replaces the placeholder above)
    w = 4 if tier == 'quick' else 6
    jobs = [('check', 'MC_LogHelper.tla', c, {'workers': w, 'timeout': 3000, 'coverage': tier == 'thorough' and 'ranger' in c})
            for c in LH_CHECKS[tier]]
    jobs += [('bug', 'MC_LogHelper.tla', 'MC_LogHelper_bug_%s.cfg' % b, {'workers': 2, 'timeout': 900}) for (b, _i) in LH_BUGS]
    return jobs


def corrupted_b(traces):
    out = []
    rt = next((t for t in traces if t['mode'] == 'ranger' and t['script'] == ['start', 'stop'] and not t['blocked'] and
               2 <= sum(1 for e in t['ev'] if e['e'] == 'data') <= 12 and not any(e['e'] == 'down' for e in t['ev'])), None)
    et = next((t for t in traces if t['mode'] == 'estimator' and t['ev'] and t['ev'][-1]['e'] == 'end' and t['ev'][-1]['res'] == '' and
               not any(e['e'] == 'down' for e in t['ev']) and sum(1 for e in t['ev'] if e['e'] == 'data') >= 10), None)
    if rt is None or et is None:
        raise common.MachineryError('no suitable traces for the binding self-tests of family B')

    def variant(base, label, fn, want):
        t = copy.deepcopy(base)
        fn(t['ev'])
        t.pop('verdict', None)
        out.append((label, t, want))

    def read_changed(ev):
        e = next(e for e in ev if e['e'] == 'data')
        e['read'][2] = e['read'][2] + 1 if e['read'][2] >= 0 else 7
    variant(rt, 'ranger: one property value changed', read_changed, 'monitor')
    variant(rt, 'ranger: delete message removed', lambda ev: ev.pop(next(i for i, e in enumerate(ev) if e['e'] == 'ctl' and e['cmd'] == 'delete')), 'monitor')

    def swap_vars(ev):
        e = next(e for e in ev if e['e'] == 'ctl' and e['cmd'] == 'create')
        e['vars'][0], e['vars'][1] = e['vars'][1], e['vars'][0]
    variant(rt, 'ranger: two variables exchanged in the create message', swap_vars, 'monitor')
    variant(rt, 'ranger: create acknowledgement removed', lambda ev: ev.pop(next(i for i, e in enumerate(ev) if e['e'] == 'ack' and e['cmd'] == 'create')), 'monitor')

    def far_sample(ev):
        e = [e for e in ev if e['e'] == 'data'][-1]
        e['vals'][1] += 5000
    variant(et, 'estimator: last sample moved away (returned although not converged)', far_sample, 'monitor')

    def pulse(ev):
        e = [e for e in ev if e['e'] == 'pcall'][1]
        e['t'] -= 50
    variant(et, 'estimator: second reset write 50 ms earlier', pulse, 'monitor')
    variant(et, 'estimator: a take event removed', lambda ev: ev.pop(next(i for i, e in enumerate(ev) if e['e'] == 'take')), 'conform')
    return out


ASSUMPTIONS_B = [
    'Multiranger: one start/stop (or with-block) cycle per object; the device has the six range variables as uint16 (firmware '
    'range.* log group); restarting the same LogConfig before the delete acknowledgement arrived is a Log-level race outside this spec',
    'reset_estimator: "converged" is the coded rule -- window of the last ten samples, initially ten times 1000, max - min < 0.001 in '
    'all three axes (samples within 0.001 of 1000.0 therefore converge at once); sample values are multiples of 1/65536 so that '
    'float32 -> exact integer conversion and the threshold comparison (difference <= 65 units) are exact',
    'reset_estimator waits for samples without any bound on a live link (not a violation); it must return when the connection goes away',
    'log control acknowledgements and parameter write replies are delivered in order and at once (family B explores thread '
    'interleavings, data timing and link loss, not lost acknowledgements: those are C05 / C04)',
]


# --------------------------------------------------------------------------- the check
def main(tier, seed, replay=None):
    global SCRATCH
    SCRATCH = tlc.scratch_dir('x02-')
    try:
        return _main(tier, seed, replay)
    finally:
        _Bg.cleanup()
        shutil.rmtree(SCRATCH, ignore_errors=True)


def _spec_to_code(tier, seed, whatif=False):
    """TLC -simulate behaviours of both design specs, replayed step by step into the real code"""
    n = {'quick': (150, 60), 'thorough': (1500, 500)}[tier]
    pf = 'SIM_ParamFile_wake.cfg' if whatif else 'SIM_ParamFile.cfg'
    sims = [('MC_ParamFile.tla', pf, n[0], 45), ('MC_ParamFile.tla', 'SIM_ParamFile_nl.cfg', n[0], 60),
            ('MC_LogHelper.tla', 'SIM_LogHelper_ranger.cfg', n[1], 40), ('MC_LogHelper.tla', 'SIM_LogHelper_ranger_nl.cfg', n[1], 50),
            ('MC_LogHelper.tla', 'SIM_LogHelper_est.cfg', n[1], 60), ('MC_LogHelper.tla', 'SIM_LogHelper_est_nl.cfg', n[1], 80)]
    res = common.pmap(_simulate, [(s, c, k, d, (seed + i) % 100000) for i, (s, c, k, d) in enumerate(sims)], nproc=6)
    return [(sims[i][1], res[i][0], res[i][1]) for i in range(len(sims))]


def _main(tier, seed, replay=None):
    import time
    out = common.Outcome(PROP, tier, seed)
    rng = random.Random(seed)
    out.assumptions = ASSUMPTIONS + ASSUMPTIONS_B
    whatif = os.environ.get('VERIF_X02_WHATIF') == 'fix'
    pf_cfg = 'TRACE_ParamFile_wake.cfg' if whatif else 'TRACE_ParamFile.cfg'
    laps = []
    t_last = [time.time()]

    def lap(label):
        laps.append((label, round(time.time() - t_last[0], 1)))
        t_last[0] = time.time()

    if replay:
        rp = json.load(open(replay))['replay']
        _init()
        if rp.get('family') == 'loghelper':
            t = execute_b({'sc': rp['scenario']})
            bad, _ = judge_b(out, [t], 'replay')
            report_b(out, bad)
        else:
            t = execute({'sc': rp['scenario'], 'whatif': whatif})
            bad, _ = judge_pf(out, [t], 'replay', cfg=pf_cfg)
            report_pf(out, bad)
        return out.finish()

    # 1. design specs: exhaustive configurations + bug configurations (in the background)
    design = _Bg(_design_checks, tier)

    # 2. spec -> code
    sims = _spec_to_code(tier, seed, whatif)
    lap('simulate')
    pf_behs = [b for (cfg, _r, behs) in sims if 'ParamFile' in cfg for b in behs]
    lh_behs = [b for (cfg, _r, behs) in sims if 'LogHelper' in cfg for b in behs]
    for (cfg, r, behs) in sims:
        out.states += r['states']
        out.transitions += r['transitions']
        out.tlc_runs.append(dict(r, config='%s (-simulate, %d behaviours)' % (cfg, len(behs))))
    rep_a = [r for r in common.pmap(_replay_job, [(b, whatif) for b in pf_behs], init=_init, maxtasks=200) if r is not None]
    rep_b = [r for r in common.pmap(_replay_job_b, lh_behs, init=_init, maxtasks=200) if r is not None]
    lap('replay')
    s2c = {}
    for fam, rep in (('paramfile', rep_a), ('loghelper', rep_b)):
        unreal = sum(1 for (_t, _s, _m, first) in rep if first and first.get('unrealisable'))
        mism = [first for (_t, _s, _m, first) in rep if first and not first.get('unrealisable')]
        s2c[fam] = {'behaviours': len(rep), 'steps': sum(s for (_t, s, _m, _f) in rep), 'steps_matched': sum(m for (_t, _s, m, _f) in rep),
                    'behaviours_fully_matched': sum(1 for (_t, s, m, f) in rep if s == m),
                    'cut_short_unrealisable_timing': unreal, 'first_mismatches': mism[:3]}
    out.conformance['spec_to_code'] = s2c

    # 3. code -> spec
    scs_a = sc_enumerated(tier) + sc_random(tier, rng, 400 if tier == 'quick' else 6000)
    tr_a = run_scenarios(scs_a, whatif=whatif)
    lap('execute A (%d)' % len(scs_a))
    scs_b = sc_ranger(tier, rng) + sc_estimator(tier, rng)
    tr_b = run_scenarios_b(scs_b)
    lap('execute B (%d)' % len(scs_b))
    all_a = [t for (t, _s, _m, _f) in rep_a] + tr_a
    all_b = [t for (t, _s, _m, _f) in rep_b] + tr_b
    bad_a, drift_a = judge_pf(out, all_a, 'real code', cfg=pf_cfg)
    lap('judge A')
    bad_b, drift_b = judge_b(out, all_b, 'real code')
    lap('judge B')
    out.conformance['code_to_spec'] = {
        'paramfile': {'traces': len(all_a), 'rejected_by_monitor': len(bad_a), 'explained_by_design_spec': len(all_a) - len(bad_a) - len(drift_a),
                      'drift': len(drift_a), 'drift_samples': [_view(t) for t in drift_a[:2]]},
        'loghelper': {'traces': len(all_b), 'rejected_by_monitor': len(bad_b), 'explained_by_design_spec': len(all_b) - len(bad_b) - len(drift_b),
                      'drift': len(drift_b), 'drift_samples': [_view_b(t) for t in drift_b[:2]]}}
    report_pf(out, bad_a)
    report_b(out, bad_b)
    out.evaluations = len(all_a) + len(all_b)
    out.distinct = len({json.dumps(t['sc'], sort_keys=True, default=str) for t in all_a + all_b})
    out.extra['events_judged'] = sum(len(t['ev']) for t in all_a + all_b)
    out.extra['data_packets_judged'] = sum(1 for t in all_b for e in t['ev'] if e['e'] == 'data')
    out.extra['blocked_at_end'] = {'paramfile': sum(1 for t in all_a if t['blocked']), 'loghelper': sum(1 for t in all_b if t['blocked'])}
    out.rule = ('family A: scenario = (device table: nature + store status per parameter, link kind, files of 1-2 calls, schedule/fault '
                'script); sources: TLC -simulate behaviours of ParamFile replayed step by step, exhaustive product (16 tables x 31 files x '
                'faults: drop/dup of reply j, link error / close_link after j events) under the canonical schedule, seeded random schedules. '
                'family B: scenario = (helper, script of operations, rate, sample vectors, schedule, link loss position); sources: TLC '
                '-simulate behaviours of LogHelper, scripted scenarios, uint16 value sweep through all six directions, seeded random. '
                'distinct = distinct scenarios')
    out.exhaustive = False
    ok_a = next((t for t in tr_a if t['ev'] and t['ev'][-1]['e'] == 'ret' and t['ev'][-1]['res'] == 'true' and len(t['ev']) > 12), None)
    hang = next((t for (t, _c, _a) in bad_a), None)
    out.samples = [x for x in [
        {'paramfile_ok': _view(ok_a)} if ok_a else None,
        {'paramfile_rejected': _view(hang)} if hang else None,
        {'ranger': _view_b(next(t for t in tr_b if t['mode'] == 'ranger' and len(t['ev']) < 30))},
        {'estimator': _view_b(next(t for t in tr_b if t['mode'] == 'estimator' and t['ev'][-1]['e'] == 'end'))}] if x]

    # 4. sensitivity: in-memory mutants, corrupted traces
    k = 16 if tier == 'quick' else 60
    sub_a = [sc for sc in scs_a if sc['driver'][0] == 'canon' and not sc['driver'][1] and len(sc['calls'][0]) == 2][:k] + \
            [sc for sc in scs_a if sc['driver'][0] == 'canon' and sc['driver'][1] and sc['driver'][1][0] == 'drop'][:k] + \
            [sc for sc in scs_a if sc['driver'][0] == 'random' and not sc.get('down')][:k]
    jobs = [{'sc': sc, 'mutant': name, 'whatif': False} for name in sorted(MUTANTS) for sc in sub_a]
    tagged = common.pmap(execute, jobs, init=_init, maxtasks=200)
    for j, t in zip(jobs, tagged):
        t['mutant'] = j['mutant']
    lap('mutants A')
    mbad, mdrift = judge_pf(common.Outcome(PROP, 'bg', 0), tagged, 'mutants', count=False)
    for name in sorted(MUTANTS):
        n = sum(1 for t in tagged if t['mutant'] == name)
        rej = [c for (t, c, _a) in mbad if t['mutant'] == name]
        own = [c for c in rej if not c.startswith('HangAfterDisconnect')]
        out.sensitivity['mutant:paramfile:' + name] = '%d of %d traces rejected (%s)' % (
            len(own), n, ', '.join(sorted(set(own))[:4]) or '-')
        if not own:
            raise common.MachineryError('monitor did not reject in-memory mutant %s of ParamFileHelper' % name)
    sub_b_r = [sc for sc in scs_b if sc['mode'] == 'ranger' and sc['driver'][0] == 'canon' and not sc['driver'][1] and len(sc['data']) < 20]
    est_c = [sc for sc in scs_b if sc['mode'] == 'estimator' and sc['driver'][0] == 'canon']
    sub_b_e = [sc for sc in est_c if not sc['down']] + [sc for sc in est_c if sc['down']][::(6 if tier == 'quick' else 2)]
    jobs = [{'sc': sc, 'mutant': name} for name in sorted(MUTANTS_B) for sc in (sub_b_r if name.startswith('r_') else sub_b_e)]
    res = common.pmap(execute_b, jobs, init=_init, maxtasks=200)
    tagged = []
    skipped = []
    for j, t in zip(jobs, res):
        if 'skipped' in t:
            if j['mutant'] not in skipped:
                skipped.append(j['mutant'])
                out.sensitivity['mutant:loghelper:' + j['mutant']] = 'skipped (%s)' % t['skipped']
            continue
        t['mutant'] = j['mutant']
        tagged.append(t)
    lap('mutants B')
    mbad, _ = judge_b(common.Outcome(PROP, 'bg', 0), tagged, 'mutants', count=False)
    for name in sorted(MUTANTS_B):
        if name in skipped:
            continue
        n = sum(1 for t in tagged if t['mutant'] == name)
        rej = [c for (t, c, _a) in mbad if t['mutant'] == name]
        out.sensitivity['mutant:loghelper:' + name] = '%d of %d traces rejected (%s)' % (len(rej), n, ', '.join(sorted(set(rej))[:4]) or '-')
        if not rej:
            raise common.MachineryError('monitor did not reject in-memory mutant %s' % name)
    lap('judge mutants')
    cor = corrupted_pf([t for t in tr_a if not t['blocked']])
    cbad, cdrift = judge_pf(common.Outcome(PROP, 'bg', 0), [t for (_l, t, _w) in cor], 'corrupted', count=False)
    for (label, t, want) in cor:
        rej_m = any(x is t for (x, _c, _a) in cbad)
        rej_c = rej_m or any(x is t for x in cdrift)
        okk = rej_m if want == 'monitor' else rej_c
        out.sensitivity['binding:paramfile:' + label] = ('rejected by the monitor (%s)' % t['verdict'][0]) if rej_m else \
            'rejected by conformance' if rej_c else 'ACCEPTED'
        if not okk:
            raise common.MachineryError('trace spec accepted a corrupted trace: %s' % label)
    cor = corrupted_b(tr_b)
    cbad, cdrift = judge_b(common.Outcome(PROP, 'bg', 0), [t for (_l, t, _w) in cor], 'corrupted', count=False)
    for (label, t, want) in cor:
        rej_m = any(x is t for (x, _c, _a) in cbad)
        rej_c = rej_m or any(x is t for x in cdrift)
        okk = rej_m if want == 'monitor' else rej_c
        out.sensitivity['binding:loghelper:' + label] = ('rejected by the monitor (%s)' % t['verdict'][0]) if rej_m else \
            'rejected by conformance' if rej_c else 'ACCEPTED'
        if not okk:
            raise common.MachineryError('trace spec accepted a corrupted trace: %s' % label)
    lap('corrupted')

    # 1 (continued): collect the design checks
    for (kind, cfg, summ, violated, cov, err) in design.get():
        if err:
            raise tlc.TLCError(err)
        if kind == 'check':
            r = tlc.Result()
            r.distinct, r.generated, r.depth, r.wall_s, r.ok = summ['states'], summ['transitions'], summ['depth'], summ['wall_s'], True
            r.coverage = {k: tuple(v) for k, v in (cov or {}).items()}
            out.add_tlc(cfg, r)
        else:
            out.sensitivity['spec:' + cfg.replace('MC_', '').replace('.cfg', '')] = 'refuted (%s) after %d states' % (violated, summ['states'])
    lap('design checks (waited)')
    out.extra['laps_s'] = laps
    return out.finish()
