"""C11 -- the table cache never yields a wrong table, even after a crash.

spec/TocCache.tla (design), spec/TocCacheProps.tla (the property), spec/TocCacheTrace.tla
(monitor + conformance for traces recorded from the real code).

Real code: cflib.crazyflie.toccache.TocCache (fetch/insert/_encoder/_decoder), the cache branch
of cflib.crazyflie.toc.TocFetcher, inside a real Crazyflie(ro_cache=, rw_cache=) connected through
sim:// to a simdev device, on two physical directories "A"/"B" under tlc.scratch_dir().

Python only drives the code, records what happened and converts representations; every verdict
comes from TLC evaluating TocCacheProps on the recorded trace (TocCacheTrace.tla)."""
import builtins
import copy
import hashlib
import json
import os
import random
import shutil
import struct
import threading

from .. import common, tlc, vsched
from ..simdev import core as sd
from ..simdev import services as sv

TRACE_SPEC, TRACE_CFG = 'TocCacheTrace.tla', 'TRACE_TocCache.cfg'
TLC_WORKERS = int(os.environ.get('VERIF_TLC_WORKERS', '0')) or None     # default: all cores

# --------------------------------------------------------------------------- own table generator
# type code -> (C name, struct format).  Sources: firmware log.h (LOG_UINT8=1 .. LOG_FLOAT=7, LOG_FP16=8)
# and param.h (bits 0-1 size, bit 2 float, bit 3 unsigned; 0x10 extended, 0x40 read-only);
# the struct formats are the Python-side notion of the same types.
LOG_TYPES = {1: ('uint8_t', '<B'), 2: ('uint16_t', '<H'), 3: ('uint32_t', '<L'), 4: ('int8_t', '<b'),
             5: ('int16_t', '<h'), 6: ('int32_t', '<i'), 7: ('float', '<f'), 8: ('FP16', '<e')}
PARAM_TYPES = {0x08: ('uint8_t', '<B'), 0x09: ('uint16_t', '<H'), 0x0A: ('uint32_t', '<L'), 0x0B: ('uint64_t', '<Q'),
               0x00: ('int8_t', '<b'), 0x01: ('int16_t', '<h'), 0x02: ('int32_t', '<i'), 0x03: ('int64_t', '<q'),
               0x05: ('FP16', ''), 0x06: ('float', '<f'), 0x07: ('double', '<d')}
PARAM_WIDTH = {0x08: 1, 0x09: 2, 0x0A: 4, 0x0B: 8, 0x00: 1, 0x01: 2, 0x02: 4, 0x03: 8, 0x05: 2, 0x06: 4, 0x07: 8}

ABSENT = object()


def esc(s):
    return ''.join(c if (c.isascii() and c.isalnum()) or c in '_<>' else '%%%04X' % ord(c) for c in s)


def unesc(s):
    out, i = [], 0
    while i < len(s):
        if s[i] == '%':
            out.append(chr(int(s[i + 1:i + 5], 16)))
            i += 5
        else:
            out.append(s[i])
            i += 1
    return ''.join(out)


def enc(v):
    """faithful, typed, injective text form of an attribute value (compared with = by TLC)"""
    if v is ABSENT:
        return '-'
    if type(v) is bool:
        return 'b:T' if v else 'b:F'
    if type(v) is int:
        return 'i:%d' % v
    if type(v) is str:
        return 's:' + esc(v)
    if v is None:
        return 'n'
    return 'o:' + esc(type(v).__name__ + ':' + repr(v)[:40])


FIELDS = ('kg', 'kn', 'ident', 'group', 'name', 'ctype', 'pytype', 'access', 'ext')


def _nontable(t):
    x = 'x:nontable:' + esc(type(t).__name__ + ':' + repr(t)[:60])
    return [{f: x for f in FIELDS}]


def proj_table(t):
    """a real toc dict (group -> name -> element) -> list of entry dicts in canonical key order"""
    if t is None:
        return []
    if not isinstance(t, dict):
        return _nontable(t)
    rows = []
    for g in t:
        if not isinstance(t[g], dict):
            return _nontable(t)
        for n in t[g]:
            rows.append((g if isinstance(g, str) else repr(g), n if isinstance(n, str) else repr(n), g, n, t[g][n]))
    rows.sort(key=lambda r: (r[0], r[1]))
    out = []
    for (_a, _b, g, n, e) in rows:
        out.append({'kg': enc(g), 'kn': enc(n),
                    'ident': enc(getattr(e, 'ident', ABSENT)), 'group': enc(getattr(e, 'group', ABSENT)),
                    'name': enc(getattr(e, 'name', ABSENT)), 'ctype': enc(getattr(e, 'ctype', ABSENT)),
                    'pytype': enc(getattr(e, 'pytype', ABSENT)), 'access': enc(getattr(e, 'access', ABSENT)),
                    'ext': enc(getattr(e, 'extended', ABSENT))})
    return out


def is_tablelike(t):
    return isinstance(t, dict) and all(isinstance(v, dict) for v in t.values())


# a table spec: {'kind': 'log'|'param', 'els': [[group, name, typecode, ro, ext], ...]} (ident = position)
def expected_table(spec):
    """what the library must hold after downloading this device table (own type tables above)"""
    rows = []
    for i, (g, n, tc, ro, ext) in enumerate(spec['els']):
        if spec['kind'] == 'log':
            ct, pt = LOG_TYPES[tc]
            rows.append((g, n, {'kg': enc(g), 'kn': enc(n), 'ident': enc(i), 'group': enc(g), 'name': enc(n),
                                'ctype': enc(ct), 'pytype': enc(pt), 'access': enc(0), 'ext': '-'}))
        else:
            ct, pt = PARAM_TYPES[tc]
            rows.append((g, n, {'kg': enc(g), 'kn': enc(n), 'ident': enc(i), 'group': enc(g), 'name': enc(n),
                                'ctype': enc(ct), 'pytype': enc(pt), 'access': enc(1 if ro else 0),
                                'ext': enc(bool(ext))}))
    rows.sort(key=lambda r: (r[0], r[1]))
    return [r[2] for r in rows]


def device_entries(spec):
    out = []
    for (g, n, tc, ro, ext) in spec['els']:
        gb, nb = g.encode('iso-8859-1'), n.encode('iso-8859-1')
        if spec['kind'] == 'log':
            out.append({'group': gb, 'name': nb, 'type': tc})
        else:
            w = PARAM_WIDTH[tc]
            out.append({'group': gb, 'name': nb, 'type': tc | (0x40 if ro else 0) | (0x10 if ext else 0),
                        'value': b'\x00' * w, 'default': b'\x00' * w, 'ext': 1 if ext else 0})
    return out


def spec_from_tla(kind, tab):
    """a table of MC_TocCache.tla (list of entry dicts) -> table spec (inverse of expected_table)"""
    els = [None] * len(tab)
    for e in tab:
        i = int(e['ident'][2:])
        ct = unesc(e['ctype'][2:])
        types = LOG_TYPES if kind == 'log' else PARAM_TYPES
        tc = next(k for k, v in types.items() if v[0] == ct)
        els[i] = [unesc(e['kg'][2:]), unesc(e['kn'][2:]), tc, e['access'] == 'i:1', e['ext'] == 'b:T']
    return {'kind': kind, 'els': els}


NAME_CHARS = 'abcdefghijklmnopqrstuvwxyzABCXYZ0123456789_'
ODD_CHARS = ' "\\/\'{}[]:,.\t\x01\x1f\x7f\xe9\xff\xa0<>&%'


def gen_name(rng, n, odd):
    return ''.join(rng.choice(ODD_CHARS if (odd and rng.random() < 0.35) else NAME_CHARS) for _ in range(n))


def gen_table(rng, kind, n, odd=False, maxlen=24):
    types = sorted(LOG_TYPES if kind == 'log' else PARAM_TYPES)
    els, seen = [], set()
    groups = [gen_name(rng, rng.randint(1, 6), odd) for _ in range(max(1, n // 3 + 1))]
    while len(els) < n:
        g = rng.choice(groups)
        ln = rng.choice([1, 2, 3, 5, 8, 12, maxlen - len(g)])
        nm = gen_name(rng, max(1, min(ln, maxlen - len(g))), odd)
        if (g, nm) in seen:
            continue
        seen.add((g, nm))
        tc = types[len(els) % len(types)] if n >= len(types) else rng.choice(types)
        els.append([g, nm, tc, kind == 'param' and rng.random() < 0.4, kind == 'param' and rng.random() < 0.3])
    return {'kind': kind, 'els': els}


def all_types_table(kind, odd_names=False):
    types = sorted(LOG_TYPES if kind == 'log' else PARAM_TYPES)
    els = []
    for i, tc in enumerate(types):
        g = 'g%d' % (i % 3)
        nm = ('n"\\%d\xe9' % i) if odd_names else 'v%d' % i
        els.append([g, nm, tc, kind == 'param' and i % 2 == 1, kind == 'param' and i % 3 == 0])
    return {'kind': kind, 'els': els}


def crc_str(c):
    return '%08X' % c


# --------------------------------------------------------------------------- recording the real code
class Crash(BaseException):
    """the process dies here (raised inside the code under test by the recorder)"""


REC = None          # the recorder of the execution in progress (one per worker process at a time)
PRIVATE = ('_p',)


class _Writer:
    """what the recording wrappers keep per cache user: 1 = the process under observation,
    2 = the other cache object that shares a directory with it (runs in an OS thread of its own)"""

    def __init__(self, who):
        self.who = who
        self.opened = None
        self.open_failed = False
        self.pend_tab = 0
        self.icrc = ''


WRITER_FIELDS = ('who', 'kind', 'last_ret', 'req', 'opened', 'open_failed', 'pend_tab', 'icrc')


class Recorder:
    def __getattr__(self, n):
        if n in WRITER_FIELDS:
            return getattr(self._writer(), n)
        raise AttributeError(n)

    def __setattr__(self, n, v):
        if n in WRITER_FIELDS:
            setattr(self._writer(), n, v)
        else:
            object.__setattr__(self, n, v)

    def _writer(self):
        o = self.__dict__.get('other')
        if o is not None and o.tid == threading.get_ident():
            return o.w
        return self.__dict__['_w1']

    def __init__(self, sc, base):
        self._w1 = _Writer(1)
        self.other = None        # OtherWriter in progress
        self.cur_crcs = ()       # checksums of the connection in progress
        self.wfiles = []         # cache files open for writing
        self.gone = set()        # directories removed by the environment and not recreated since
        self.sc = sc
        self.base = base
        self.dirs = {'A': os.path.join(base, 'A'), 'B': os.path.join(base, 'B')}
        self.ev = []
        self.tables = []
        self._tabidx = {}
        self.fileinfo = {}       # (dir, crc) -> {'intended': bytes|None, 'tab': idx, 'garbage': variant|None}
        self.cf = None
        self.ro = self.rw = 'none'
        self.kind = None
        self.last_ret = None
        self.req = {'log': [], 'param': []}
        self.nint = 0            # internal events since the last connect
        self.crash_after = None
        self.crashed = False
        self.wk = None
        self.connected_flag = False
        self.project_on = bool(sc.get('project'))
        self.leaked = 0
        self.env_at = {}         # internal-event count -> environment ops to apply right after that event
        self.pre = {}            # 'log'/'param' -> environment ops applied when that table's fetcher starts

    def path(self, d):
        return None if d == 'none' else self.dirs[d]

    def tab(self, t):
        if not t:
            return 0
        key = json.dumps(t, sort_keys=True)
        if key not in self._tabidx:
            self.tables.append(t)
            self._tabidx[key] = len(self.tables)
        return self._tabidx[key]

    def locate(self, name):
        name = os.path.abspath(name)
        dn, bn = os.path.dirname(name), os.path.basename(name)
        for d, p in self.dirs.items():
            if os.path.abspath(p) == dn:
                return d, bn[:-5] if bn.endswith('.json') else bn
        raise RuntimeError('C11 harness: cache file outside the scenario directories: %s' % name)

    def known(self):
        return [list(self.locate(n)) for n in self.cf._toc_cache._cache_files]

    def files_abs(self):
        out = {}
        for d, p in self.dirs.items():
            if not os.path.isdir(p):
                continue
            for fn in sorted(os.listdir(p)):
                c = fn[:-5] if fn.endswith('.json') else fn
                if os.path.isdir(os.path.join(p, fn)):
                    out[(d, c)] = ('dir', 0, 0)
                    continue
                content = builtins.open(os.path.join(p, fn), 'rb').read()
                info = self.fileinfo.get((d, c))
                if info is None:
                    out[(d, c)] = ('unknown', 0, 0)
                elif info['garbage']:
                    out[(d, c)] = (info.get('flavour') or 'garbage', 0, 0)
                elif info['intended'] is None:
                    out[(d, c)] = ('file', 0, info['tab'])
                elif content == info['intended']:
                    out[(d, c)] = ('file', 2, info['tab'])
                elif info['intended'].startswith(content):
                    out[(d, c)] = ('file', 0 if not content else 1, info['tab'])
                else:
                    out[(d, c)] = ('unknown', 0, 0)
        return out

    def project(self):
        cf = self.cf
        if cf is None:
            return {'files': self.files_abs()}
        lt = cf.log.toc.toc if cf.log.toc is not None else None
        return {'known': [tuple(x) for x in self.known()],
                'toc': {'log': proj_table(lt), 'param': proj_table(cf.param.toc.toc)},
                'files': self.files_abs()}

    def emit(self, e, internal=False):
        if self.who == 2:
            return self.other.emit(self, e)
        if e['e'] in ('ibegin', 'wbyte', 'rename'):
            e.setdefault('rb', False)
            e.setdefault('robase', [])
        if self.project_on:
            e['_p'] = self.project()
        self.ev.append(e)
        if internal:
            self.nint += 1
            for op in self.env_at.pop(str(self.nint), []):
                env_op(self, op)
            if self.crash_after is not None and self.nint == self.crash_after:
                self.crashed = True
                raise Crash()


def real_toc(spec):
    """a table spec -> the dict of real cflib elements a TocFetcher would have built from the device"""
    from cflib.crazyflie.log import LogTocElement
    from cflib.crazyflie.param import ParamTocElement
    toc = {}
    for i, e in enumerate(device_entries(spec)):
        data = bytes([e['type']]) + e['group'] + b'\x00' + e['name'] + b'\x00'
        el = LogTocElement(i, data) if spec['kind'] == 'log' else ParamTocElement(i, data)
        toc.setdefault(el.group, {})[el.name] = el
    return toc


class OtherWriter:
    """Another cache object on the same directory (a second Crazyflie of a swarm in its own thread, another
    client process): a real TocCache(rw_cache=dir) whose real insert(crc, table) runs in an OS thread of its
    own and is let forward one recorded file operation at a time -- so its open / writes / rename / close
    interleave with those of the process under observation exactly where the script says."""

    def __init__(self, r, d, crc, spec):
        self.w = _Writer(2)
        self.r, self.d, self.crc, self.spec = r, d, crc, spec
        self.go = threading.Semaphore(0)
        self.ack = threading.Semaphore(0)
        self.finished = False
        self.error = None
        self.tid = None
        self.th = threading.Thread(target=self._run, daemon=True)

    def _run(self):
        self.tid = threading.get_ident()
        try:
            import cflib.crazyflie.toccache as tcm
            cache = tcm.TocCache(rw_cache=self.r.dirs[self.d])
            cache.insert(self.crc, real_toc(self.spec))
        except BaseException as ex:      # noqa
            import traceback
            self.error = traceback.format_exc()
        finally:
            self.tid = None              # thread identifiers are reused: later threads are not the other writer
            self.finished = True
            self.ack.release()

    def emit(self, r, e):
        """called in the other writer's thread: record, then wait for the script's next `ostep`"""
        if e['e'] in ('ibegin', 'wbyte', 'rename', 'oend'):
            alive_ro = r.cf is not None and r.ro != 'none' and e.get('dir', self.d) == r.ro
            if alive_ro:                 # it wrote into OUR read-only directory: not a write of our cache object
                _freeze_ro(r.path(r.ro))
            e['rb'] = bool(alive_ro)
            e['robase'] = listing(r.path(r.ro)) if alive_ro else []
        if r.project_on:
            e['_p'] = r.project()
        r.ev.append(e)
        if e['e'] in ('ibegin', 'wbyte', 'rename'):
            self.ack.release()
            self.go.acquire()

    def start(self):
        self.r.other = self
        self.th.start()
        # tid must be known before the thread touches the recorder: _run sets it first; wait for the first stop
        self.ack.acquire()

    def step(self):
        if self.finished:
            return
        self.go.release()
        self.ack.acquire()

    def finish(self):
        n = 0
        while not self.finished and n < 20:
            self.step()
            n += 1
        self.th.join(5)


class WrapFile:
    """what toccache.open(name, 'w') returns while recording: the bytes go to disk at close(), in two
    pieces (k bytes, then the rest), with an event after each piece -- a crash can fall in between."""

    def __init__(self, r, f, d, c):
        self.r, self.f, self.d, self.c = r, f, d, c      # d, c follow the file when it is renamed while open
        self.buf = []
        self.closed_ok = False
        self.info = {'intended': None, 'tab': r.pend_tab, 'garbage': None}
        r.fileinfo[(d, c)] = self.info
        r.wfiles.append(self)

    def write(self, data):
        self.buf.append(data)
        return len(data)

    def flush(self):
        pass

    def __enter__(self):
        return self

    def __exit__(self, *a):
        self.close()

    def close(self):
        r = self.r
        data = ''.join(self.buf).encode(self.f.encoding or 'utf-8')
        n = len(data)
        self.info['intended'] = data
        k = r.wk if (r.wk is not None and r.who == 1) else n // 2
        k = max(1, min(k, n - 1))
        raw = self.f.buffer
        try:
            raw.write(data[:k])
            raw.flush()
            r.emit({'e': 'wbyte', 'dir': self.d, 'crc': self.c, 'cut': 1, 'k': k, 'of': n, 'who': r.who,
                    'icrc': r.icrc}, True)
            raw.write(data[k:])
            raw.flush()
            r.emit({'e': 'wbyte', 'dir': self.d, 'crc': self.c, 'cut': 2, 'k': n, 'of': n, 'who': r.who,
                    'icrc': r.icrc}, True)
        except Crash:
            self.f.close()
            r.wfiles.remove(self)
            raise
        self.f.close()
        r.wfiles.remove(self)
        self.closed_ok = True


def _install():
    """class-level recording wrappers (harness process only; /repo untouched).  The wrappers call
    TocCache._fetch_impl/_insert_impl, which mutants may replace."""
    import cflib.crazyflie.toc as tocm
    import cflib.crazyflie.toccache as tcm
    if getattr(tcm, '_c11_installed', False):
        return
    tcm._c11_installed = True
    TC = tcm.TocCache
    TC._fetch_impl = TC.fetch
    TC._insert_impl = TC.insert
    TC._orig = {'fetch': TC.fetch, 'insert': TC.insert, '_encoder': TC._encoder, '_decoder': TC._decoder,
                '__init__': TC.__init__}

    def fetch(self, crc):
        r = REC
        if r is None:
            return self._fetch_impl(crc)
        try:
            ret = self._fetch_impl(crc)
        except (Crash, vsched.Kill):
            raise
        except BaseException as ex:
            r.last_ret = None
            r.emit({'e': 'fetch', 'kind': r.kind, 'crc': crc_str(crc), 'ret': 'raise', 'tab': 0,
                    'exc': type(ex).__name__}, True)
            raise
        r.last_ret = ret
        if ret is None:
            k, t = 'none', 0
        elif not ret:                      # {} [] 0 "" false: decoded, but `if (cache_data)` takes it for nothing
            k, t = 'falsy', 0
        elif is_tablelike(ret):
            k, t = 'tab', r.tab(proj_table(ret))
        else:
            k, t = 'other', r.tab(proj_table(ret))
        r.emit({'e': 'fetch', 'kind': r.kind, 'crc': crc_str(crc), 'ret': k, 'tab': t}, True)
        return ret

    def insert(self, crc, toc):
        r = REC
        if r is None:
            return self._insert_impl(crc, toc)
        r.pend_tab = r.tab(proj_table(toc))
        r.icrc = crc_str(crc)
        if r.who == 2:
            r.emit({'e': 'odl', 'tab': r.pend_tab})
        else:
            r.emit({'e': 'download', 'kind': r.kind, 'tab': r.pend_tab}, True)
        r.opened = None
        r.open_failed = False
        self._insert_impl(crc, toc)
        if r.who == 2:
            r.emit({'e': 'oend'})
        elif r.opened is None:
            r.emit({'e': 'ifail' if r.open_failed else 'noinsert'}, True)
        elif r.opened.closed_ok:
            r.emit({'e': 'iend', 'dir': r.opened.d, 'crc': r.icrc, 'known': r.known()}, True)
        else:
            raise RuntimeError('C11 harness: insert opened a cache file and did not close it')

    TC.fetch = fetch
    TC.insert = insert

    def rec_open(name, mode='r', *a, **kw):
        r = REC
        if r is None or 'w' not in mode:
            return builtins.open(name, mode, *a, **kw)
        try:
            f = builtins.open(name, mode, *a, **kw)    # creates / truncates exactly as the code asked
        except Exception:
            r.open_failed = True
            raise
        d, c = r.locate(name)
        wf = WrapFile(r, f, d, c)
        r.opened = wf
        try:
            r.emit({'e': 'ibegin', 'dir': d, 'crc': c, 'who': r.who}, True)
        except Crash:
            f.close()
            raise
        return wf
    tcm.open = rec_open                                # shadows the builtin inside toccache.py only

    class OsProxy:
        """toccache.os while recording: os.replace / os.rename of cache files are performed and recorded"""

        def __getattr__(self, n):
            return getattr(os, n)

        def _move(self, fn, src, dst):
            r = REC
            fn(src, dst)
            if r is not None:
                (d1, c1), (d2, c2) = r.locate(src), r.locate(dst)
                if (d1, c1) in r.fileinfo:
                    r.fileinfo[(d2, c2)] = r.fileinfo.pop((d1, c1))
                for wf in r.wfiles:          # a file that is open for writing keeps receiving its writer's bytes
                    if (wf.d, wf.c) == (d1, c1):
                        wf.d, wf.c = d2, c2
                r.emit({'e': 'rename', 'dir': d2, 'from': c1, 'crc': c2, 'who': r.who}, True)

        def replace(self, src, dst, **kw):
            return self._move(os.replace, src, dst)

        def rename(self, src, dst, **kw):
            return self._move(os.rename, src, dst)
    tcm.os = OsProxy()

    TF = tocm.TocFetcher
    orig_start, orig_fin = TF.start, TF._toc_fetch_finished

    def start(self):
        r = REC
        if r is not None:
            r.kind = 'log' if self.port == sv.PORT_LOG else 'param'
            r.req[r.kind] = []
            r.last_ret = None
            for op in r.pre.pop(r.kind, []):
                env_op(r, op)
        return orig_start(self)

    def fin(self):
        r = REC
        if r is not None:
            kind = 'log' if self.port == sv.PORT_LOG else 'param'
            used = r.last_ret is not None and self.toc.toc is r.last_ret
            r.emit({'e': 'done', 'kind': kind, 'used': used, 'got': r.tab(proj_table(self.toc.toc)),
                    'req': list(r.req[kind])}, True)
        return orig_fin(self)
    TF.start = start
    TF._toc_fetch_finished = fin


# --------------------------------------------------------------------------- in-memory mutants
def _mut_short_suffix(TC):
    import cflib.crazyflie.toccache as tcm

    def fetch(self, crc):
        cache_data = None
        pattern = '%04X.json' % (crc & 0xFFFF)          # matches on a shorter suffix
        hit = None
        for name in self._cache_files:
            if name.endswith(pattern):
                hit = name
        if hit:
            try:
                cache = tcm.open(hit)
                cache_data = json.load(cache, object_hook=self._decoder)
                cache.close()
            except Exception:
                pass
        return cache_data
    TC._fetch_impl = fetch


def _mut_partial_parse(TC):
    import cflib.crazyflie.toccache as tcm
    orig = TC._orig['fetch']

    def fetch(self, crc):
        data = orig(self, crc)
        if data is not None:
            return data
        hit = None
        for name in self._cache_files:
            if name.endswith('%08X.json' % crc):
                hit = name
        if hit is None:
            return None
        try:                                            # "repair" a cut file: keep the complete elements
            text = tcm.open(hit).read()
            j = text.rfind('\n    }')
            if j < 0:
                return None
            return json.loads(text[:j] + '\n    }\n  }\n}', object_hook=self._decoder)
        except Exception:
            return None
    TC._fetch_impl = fetch


def _mut_drop_extended(TC):
    def _encoder(self, obj):
        return {'__class__': obj.__class__.__name__, 'ident': obj.ident, 'group': obj.group, 'name': obj.name,
                'ctype': obj.ctype, 'pytype': obj.pytype, 'access': obj.access}

    def _decoder(self, obj):
        import cflib.crazyflie.toccache as tcm
        if '__class__' in obj:
            elem = eval(obj['__class__'], vars(tcm))()
            elem.ident = obj['ident']
            elem.group = str(obj['group'])
            elem.name = str(obj['name'])
            elem.ctype = str(obj['ctype'])
            elem.pytype = str(obj['pytype'])
            elem.access = obj['access']
            return elem
        return obj
    TC._encoder = _encoder
    TC._decoder = _decoder


def _mut_pytype_from_ctype(TC):
    orig = TC._orig['_decoder']

    def _decoder(self, obj):
        elem = orig(self, obj)
        if '__class__' in obj:
            elem.pytype = elem.ctype
        return elem
    TC._decoder = _decoder


def _mut_error_escapes(TC):
    import cflib.crazyflie.toccache as tcm

    def fetch(self, crc):
        hit = None
        for name in self._cache_files:
            if name.endswith('%08X.json' % crc):
                hit = name
        if hit:
            cache = tcm.open(hit)
            data = json.load(cache, object_hook=self._decoder)     # no try/except
            cache.close()
            return data
        return None
    TC._fetch_impl = fetch


def _mut_write_ro(TC):
    orig_init, orig_insert = TC._orig['__init__'], TC._orig['insert']

    def __init__(self, ro_cache=None, rw_cache=None):
        orig_init(self, ro_cache=ro_cache, rw_cache=rw_cache)
        self._ro_cache = ro_cache

    def insert(self, crc, toc):
        if not self._rw_cache and self._ro_cache:        # "no writable directory": falls back to the ro one
            self._rw_cache = self._ro_cache
            try:
                return orig_insert(self, crc, toc)
            finally:
                self._rw_cache = None
        return orig_insert(self, crc, toc)
    TC.__init__ = __init__
    TC._insert_impl = insert


def _mut_ident_from_order(TC):
    orig = TC._orig['fetch']

    def fetch(self, crc):
        data = orig(self, crc)
        if isinstance(data, dict):                       # renumbers the entries in file order
            i = 0
            for g in data:
                if isinstance(data[g], dict):
                    for n in data[g]:
                        if hasattr(data[g][n], 'ident'):
                            data[g][n].ident = i
                            i += 1
        return data
    TC._fetch_impl = fetch


def _mut_stat_escapes(TC):
    import cflib.crazyflie.toccache as tcm
    orig = TC._orig['fetch']

    def fetch(self, crc):
        hit = None
        for name in self._cache_files:
            if name.endswith('%08X.json' % crc):
                hit = name
        if hit and os.path.getsize(hit) == 0:           # looked at outside the try: a listed file that is gone raises
            return None
        return orig(self, crc)
    TC._fetch_impl = fetch


def _mut_shared_tmp(TC):
    import cflib.crazyflie.toccache as tcm

    def insert(self, crc, toc):
        if self._rw_cache:
            try:
                filename = '%s/%08X.json' % (self._rw_cache, crc)
                scratch = '%s/toc.tmp' % self._rw_cache          # one scratch name for every store
                with tcm.open(scratch, 'w') as cache:
                    cache.write(json.dumps(toc, indent=2, default=self._encoder))
                tcm.os.replace(scratch, filename)
                self._cache_files += [filename]
            except Exception:
                pass
    TC._insert_impl = insert


def _mut_close_in_finally(TC):
    import cflib.crazyflie.toccache as tcm

    def insert(self, crc, toc):
        if self._rw_cache:
            try:
                filename = '%s/%08X.json' % (self._rw_cache, crc)
                cache = tcm.open(filename, 'w')
                cache.write(json.dumps(toc, indent=2, default=self._encoder))
                self._cache_files += [filename]
            except Exception:
                pass
            finally:
                cache.close()                                   # unbound when open() itself failed
    TC._insert_impl = insert


def _mut_nontable_returned(TC):
    import cflib.crazyflie.toccache as tcm

    def fetch(self, crc):
        cache_data = None
        hit = None
        for name in self._cache_files:
            if name.endswith('%08X.json' % crc):
                hit = name
        if hit:
            try:
                cache = tcm.open(hit)
                cache_data = json.load(cache, object_hook=self._decoder)
                cache.close()
                if not self._is_toc(cache_data):
                    raise ValueError('not a TOC but %s' % type(cache_data).__name__)   # cache_data keeps the junk
            except Exception:
                pass
        return cache_data
    TC._fetch_impl = fetch


MUTANTS = {'shared_tmp': _mut_shared_tmp, 'close_in_finally': _mut_close_in_finally,
           'nontable_returned': _mut_nontable_returned, 'stat_escapes': _mut_stat_escapes, 'short_suffix': _mut_short_suffix, 'partial_parse': _mut_partial_parse,
           'drop_extended': _mut_drop_extended, 'pytype_from_ctype': _mut_pytype_from_ctype,
           'error_escapes': _mut_error_escapes, 'write_ro': _mut_write_ro,
           'ident_from_order': _mut_ident_from_order}


def apply_mutant(name):
    import cflib.crazyflie.toccache as tcm
    TC = tcm.TocCache
    if name:
        MUTANTS[name](TC)

    def undo():
        TC._fetch_impl = TC._orig['fetch']
        TC._insert_impl = TC._orig['insert']
        TC._encoder = TC._orig['_encoder']
        TC._decoder = TC._orig['_decoder']
        TC.__init__ = TC._orig['__init__']
    return undo


# --------------------------------------------------------------------------- garbage variants
ELEMENT_KEYS = ('ident', 'group', 'name', 'ctype', 'pytype', 'access', 'extended')
# variant -> class.  unparsable: json.load or the element decoder raises.  notatable: valid JSON that is
# not a table of contents.  falsy: valid JSON the fetcher's `if (cache_data)` already treats as nothing.
GARBAGE = {
    'empty': 'unparsable', 'binary': 'unparsable', 'nonutf8': 'unparsable', 'trailing': 'unparsable',
    'doubled': 'unparsable', 'unknown_class': 'unparsable', 'class_dict': 'unparsable',
    'unclosed_string': 'unparsable', 'nan_word': 'unparsable',
    'json_null': 'falsy', 'json_empty_list': 'falsy', 'json_zero': 'falsy', 'json_false': 'falsy',
    'json_empty_string': 'falsy', 'json_empty_object': 'falsy',
    'json_list': 'notatable', 'json_number': 'notatable', 'json_string': 'notatable', 'json_true': 'notatable',
    'group_not_object': 'notatable', 'leaf_not_element': 'notatable', 'missing___class__': 'notatable',
    'class_TocCache': 'notatable',
}
for _k in ELEMENT_KEYS:
    GARBAGE['missing_' + _k] = 'unparsable'
UNPARSABLE = sorted(k for k, v in GARBAGE.items() if v == 'unparsable')
NOTATABLE = sorted(k for k, v in GARBAGE.items() if v == 'notatable')
FALSY = sorted(k for k, v in GARBAGE.items() if v == 'falsy')


def make_garbage(variant, full):
    """bytes of the damaged file; full = the complete file as the cache wrote it"""
    simple = {'empty': b'', 'binary': b'\x00\x01\x02garbage\x00', 'nonutf8': b'\xff\xfe{"a": 1}',
              'trailing': full + b'}', 'doubled': full + full, 'unclosed_string': b'{"pm": {"vbat',
              'nan_word': b'{"a": nope}',
              'json_null': b'null', 'json_empty_list': b'[]', 'json_zero': b'0', 'json_false': b'false',
              'json_empty_string': b'""', 'json_empty_object': b'{}',
              'json_list': b'[1, 2]', 'json_number': b'5', 'json_string': b'"abc"', 'json_true': b'true',
              'group_not_object': b'{"a": 1}', 'leaf_not_element': b'{"g": {"n": 5}}'}
    if variant in simple:
        return simple[variant]
    doc = json.loads(full.decode('utf-8'))
    first = None
    for g in doc:
        for n in doc[g]:
            first = doc[g][n]
            break
        if first is not None:
            break
    if first is None:                      # an empty table has no element to damage
        return b'{"g": {"n": {"__class__": "NoSuchElement"}}}' if GARBAGE[variant] == 'unparsable' else b'[1, 2]'
    if variant == 'unknown_class':
        first['__class__'] = 'NoSuchElement'
    elif variant == 'class_dict':
        first['__class__'] = 'dict'
    elif variant == 'class_TocCache':
        first['__class__'] = 'TocCache'
    elif variant.startswith('missing_'):
        key = variant[len('missing_'):]
        if key not in first:               # log elements have no `extended`: drop another key instead
            key = 'access'
        del first[key]
    else:
        raise ValueError(variant)
    return json.dumps(doc, indent=2).encode('utf-8')


# --------------------------------------------------------------------------- directories
OLD_NS = 10 ** 18          # 2001-09-09: any later write gives a different mtime


def _writable(p):
    if p and os.path.isdir(p):
        os.chmod(p, 0o755)
        for fn in os.listdir(p):
            q = os.path.join(p, fn)
            os.chmod(q, 0o755 if os.path.isdir(q) else 0o644)


def _freeze_ro(p):
    """mode 0555 / 0444 and fixed old timestamps (we may be root: writes are detected by comparison)"""
    if p and os.path.isdir(p):
        for fn in os.listdir(p):
            q = os.path.join(p, fn)
            os.chmod(q, 0o555 if os.path.isdir(q) else 0o444)
            os.utime(q, ns=(OLD_NS, OLD_NS))
        os.chmod(p, 0o555)
        os.utime(p, ns=(OLD_NS, OLD_NS))


def listing(p):
    """name|size|digest|mtime of everything in the directory (+ the directory's own mtime)"""
    if p is None:
        return []
    if not os.path.isdir(p):
        return ['<missing>']
    out = ['.|%d' % os.stat(p).st_mtime_ns]
    for fn in sorted(os.listdir(p)):
        q = os.path.join(p, fn)
        st = os.stat(q)
        if os.path.isdir(q):
            out.append('%s|dir|%d|%o' % (fn, st.st_mtime_ns, st.st_mode & 0o777))
            continue
        h = hashlib.sha256(builtins.open(q, 'rb').read()).hexdigest()[:16]
        out.append('%s|%d|%s|%d|%o' % (fn, st.st_size, h, st.st_mtime_ns, st.st_mode & 0o777))
    return out


ENV_OPS = ('cut', 'garbage', 'remove', 'copy', 'rmdir', 'blockname', 'obegin', 'ostep')


def _env_emit(r, e):
    """while a process lives the directory serving as ro is frozen again and its new content becomes the
    base of the never-written comparison (the environment's change is not a write of the cache)"""
    alive = r.cf is not None
    if alive:
        _writable(r.path(r.rw))
        _freeze_ro(r.path(r.ro))
    e['rb'] = bool(alive and r.ro != 'none')
    e['robase'] = listing(r.path(r.ro)) if e['rb'] else []
    r.emit(e)


def env_op(r, op):
    try:
        _env_op(r, op)
    finally:
        if r.cf is not None:               # also when the op did not apply: the modes were opened up for it
            _writable(r.path(r.rw))
            _freeze_ro(r.path(r.ro))


def _env_op(r, op):
    """the environment touches a cache file: cut / garbage / remove / copy -- between processes, or while a
    TocCache object lives (idle, or between the start of a connection and a look-up).  Ops that do not
    apply are skipped."""
    k = op[0]
    if k == 'obegin':                      # ['obegin', dir, crc, table index]: another cache object starts a store
        if r.other is not None and not r.other.finished:
            return
        if op[1] in r.gone or op[2] in r.cur_crcs:
            return                          # (never a checksum of the connection in progress: model restriction)
        os.makedirs(r.dirs[op[1]], exist_ok=True)
        _writable(r.dirs[op[1]])
        OtherWriter(r, op[1], op[2], r.sc['tables'][op[3]]).start()
        return
    if k == 'ostep':                       # ... and is let forward by one file operation
        if r.other is not None:
            _writable(r.dirs[r.other.d])
            r.other.step()
            if r.other.finished and r.other.error:
                raise RuntimeError('C11 harness: the other cache object died:\n' + r.other.error)
        return
    _writable(r.dirs['A'])
    _writable(r.dirs['B'])
    if k == 'rmdir':                       # the whole directory disappears
        d = op[1]
        if not os.path.isdir(r.dirs[d]) or (r.other is not None and not r.other.finished and r.other.d == d):
            return
        shutil.rmtree(r.dirs[d])
        r.gone.add(d)
        for key in [x for x in r.fileinfo if x[0] == d]:
            r.fileinfo.pop(key)
        _env_emit(r, {'e': 'rmdir', 'dir': d})
        return
    d, c = op[1], op[2]
    p = os.path.join(r.dirs[d], c + '.json')
    if r.other is not None and not r.other.finished:
        busy = (r.other.d, crc_str(r.other.crc))     # the file the other cache object is writing is left alone
        if (d, c) == busy or (k == 'copy' and (op[3], c) == busy):
            return
    if k == 'blockname':                   # the name of the cache file is taken by a directory
        if not os.path.isdir(r.dirs[d]):
            return
        if os.path.isdir(p):
            return
        if os.path.isfile(p):
            os.remove(p)
        os.mkdir(p)
        r.fileinfo.pop((d, c), None)
        _env_emit(r, {'e': 'blockname', 'dir': d, 'crc': c})
        return
    info = r.fileinfo.get((d, c))
    exists = os.path.isfile(p)
    complete = exists and info is not None and not info['garbage'] and info['intended'] is not None and \
        builtins.open(p, 'rb').read() == info['intended']
    if k == 'cut':
        if not complete:
            return
        n = len(info['intended'])
        if isinstance(op[3], float):       # a fraction of the length, strictly inside the file
            at = max(1, min(n - 1, int(op[3] * n)))
        else:
            at = min(op[3], n) if op[3] >= 0 else max(0, n + op[3])
        with builtins.open(p, 'r+b') as f:
            f.truncate(at)
        _env_emit(r, {'e': 'cut', 'dir': d, 'crc': c, 'k': at, 'of': n, 'cut': 0 if at == 0 else 1})
    elif k == 'garbage':
        if not complete:
            return
        data = make_garbage(op[3], info['intended'])
        with builtins.open(p, 'wb') as f:
            f.write(data)
        info['garbage'] = op[3]
        info['flavour'] = 'falsy' if GARBAGE[op[3]] == 'falsy' and op[3] != 'json_null' else \
            ('nontable' if GARBAGE[op[3]] == 'notatable' else 'garbage')
        # flavour = how the design spec models it: "falsy" = decodes to a value `if (cache_data)` rejects
        # (json null decodes to None, which is what a miss returns anyway)
        fl = info['flavour']
        _env_emit(r, {'e': 'garbage', 'dir': d, 'crc': c, 'variant': op[3], 'cls': GARBAGE[op[3]], 'flavour': fl})
    elif k == 'remove':
        if os.path.isdir(p):
            os.rmdir(p)
            _env_emit(r, {'e': 'remove', 'dir': d, 'crc': c})
            return
        if not exists:
            return
        os.remove(p)
        r.fileinfo.pop((d, c), None)
        _env_emit(r, {'e': 'remove', 'dir': d, 'crc': c})
    elif k == 'copy':
        to = op[3]
        if not exists or to == d or os.path.isdir(os.path.join(r.dirs[to], c + '.json')):
            return
        os.makedirs(r.dirs[to], exist_ok=True)
        r.gone.discard(to)
        shutil.copyfile(p, os.path.join(r.dirs[to], c + '.json'))
        r.fileinfo[(to, c)] = dict(info) if info else None
        _env_emit(r, {'e': 'copy', 'dir': d, 'crc': c, 'to': to})
    else:
        raise ValueError('unknown environment op %r' % (op,))


# --------------------------------------------------------------------------- one process of the library
def run_process(r, ops, i):
    """ops[i] = ['start', ro, rw]; runs connects/closes until 'exit', a crash, or the end of the script"""
    import cflib.crazyflie as cfm
    sc = r.sc
    ro, rw = ops[i][1], ops[i][2]
    r.ro, r.rw = ro, rw
    r.gone.discard(rw)
    _writable(r.path(rw))
    _freeze_ro(r.path(ro))
    robase = listing(r.path(ro))
    ended = None
    with vsched.scheduler(max_steps=400000) as s:
        w = sd.set_world(sd.World())
        cf = cfm.Crazyflie(ro_cache=r.path(ro), rw_cache=r.path(rw))
        r.cf = cf
        r.crashed = False
        r.crash_after = None
        r.emit({'e': 'start', 'ro': ro, 'rw': rw, 'known': r.known(), 'robase': robase})

        def on_connected(uri):
            r.connected_flag = True
            lt = cf.log.toc.toc if cf.log.toc is not None else None
            r.emit({'e': 'connected', 'lt': r.tab(proj_table(lt)), 'pt': r.tab(proj_table(cf.param.toc.toc))})
        cf.connected.add_callback(on_connected)
        i += 1
        nopen = 0
        link_open = [False]
        while i < len(ops):
            op = ops[i]
            if op[0] == 'connect':
                lt, lc, pt, pc = op[1], op[2], op[3], op[4]
                opt = op[5] if len(op) > 5 else {}
                if r.other is not None and not r.other.finished and r.other.crc in (lc, pc):
                    _writable(r.dirs[r.other.d])       # a store of that very checksum by the other cache object
                    r.other.finish()                   # is over before we connect (stated restriction of the model)
                    _freeze_ro(r.path(r.ro))
                dev = sv.standard_device(log_entries=device_entries(sc['tables'][lt]),
                                         param_entries=device_entries(sc['tables'][pt]),
                                         log_crc=lc, param_crc=pc, mems=[],
                                         protocol_version=sc.get('pv', 10))
                w.add('0', dev)

                def observe(pk, r=r):
                    if pk.channel == 0 and pk.port in (sv.PORT_LOG, sv.PORT_PARAM) and len(pk.data) >= 2:
                        kind = 'log' if pk.port == sv.PORT_LOG else 'param'
                        if pk.data[0] == 0:
                            r.req[kind].append(pk.data[1])
                        elif pk.data[0] == 2 and len(pk.data) >= 3:
                            r.req[kind].append(pk.data[1] | (pk.data[2] << 8))
                dev.on_uplink = observe
                r.nint = 0
                r.cur_crcs = (lc, pc)
                r.crash_after = opt.get('crash_after')
                r.wk = opt.get('wk')
                r.connected_flag = False
                r.req = {'log': [], 'param': []}
                r.env_at = {k: list(v) for k, v in opt.get('env_at', {}).items()}
                r.pre = {k: list(v) for k, v in opt.get('pre', {}).items()}
                r.emit({'e': 'connect', 'lt': r.tab(expected_table(sc['tables'][lt])), 'lc': crc_str(lc),
                        'pt': r.tab(expected_table(sc['tables'][pt])), 'pc': crc_str(pc)})
                i += 1
                for eop in r.env_at.pop('0', []):
                    env_op(r, eop)
                if r.crash_after == 0:
                    ended = 'crash'
                    break
                nopen += 1
                link_open[0] = True
                u = s.spawn(lambda n=nopen: cf.open_link('sim://0/%d' % n), 'user')
                s.run(until=lambda: r.crashed or (u.finished and r.connected_flag), horizon=s.now + 5.0)
                if r.crashed:
                    ended = 'crash'
                    break
                r.crash_after = None
                r.emit({'e': 'settle', 'connected': r.connected_flag})
            elif op[0] == 'close':
                u = s.spawn(cf.close_link, 'user')
                s.run(until=lambda: u.finished, horizon=s.now + 5.0)
                r.emit({'e': 'close'})
                r.cur_crcs = ()
                link_open[0] = False
                i += 1
            elif op[0] == 'exit':
                if link_open[0]:
                    u = s.spawn(cf.close_link, 'user')
                    s.run(until=lambda: u.finished, horizon=s.now + 5.0)
                    r.emit({'e': 'close'})
                ended = 'exit'
                i += 1
                break
            elif op[0] in ENV_OPS:         # the environment acts while this TocCache object is idle
                if link_open[0]:
                    u = s.spawn(cf.close_link, 'user')
                    s.run(until=lambda: u.finished, horizon=s.now + 5.0)
                    r.emit({'e': 'close'})
                    r.cur_crcs = ()
                    link_open[0] = False
                env_op(r, op)
                i += 1
            else:
                break                      # the next start: this process ends first
        if ended is None:
            if link_open[0]:
                u = s.spawn(cf.close_link, 'user')
                s.run(until=lambda: u.finished, horizon=s.now + 5.0)
                r.emit({'e': 'close'})
            ended = 'exit'
    r.leaked += getattr(s, 'leaked', 0) or 0
    r.cf = None
    r.cur_crcs = ()
    r.emit({'e': ended, 'roafter': listing(r.path(ro))})
    return i


def execute(sc, mutant=None):
    """Run one scenario against the real code; returns the trace (dict)."""
    global REC
    _install()
    base = tlc.scratch_dir('C11-')
    r = Recorder(sc, base)
    os.makedirs(r.dirs['A'])
    os.makedirs(r.dirs['B'])
    undo = apply_mutant(mutant)
    try:
        REC = r
        ops = sc['ops']
        i = 0
        while i < len(ops):
            if ops[i][0] == 'start':
                i = run_process(r, ops, i)
            elif ops[i][0] in ENV_OPS:
                env_op(r, ops[i])
                i += 1
            else:
                i += 1                     # connect/close/exit without a process: ignored
        if r.other is not None:
            _writable(r.dirs[r.other.d])
            r.other.finish()
    finally:
        if r.other is not None and not r.other.finished:
            r.other.finish()
        REC = None
        undo()
        _writable(r.dirs['A'])
        _writable(r.dirs['B'])
        shutil.rmtree(base, ignore_errors=True)
    tr = {'tables': r.tables, 'ev': r.ev, 'leaked': r.leaked}
    return tr


def strip(tr):
    """the trace as TLC sees it (private recorder fields removed)"""
    return {'id': tr.get('id', 0), 'tables': tr['tables'],
            'ev': [{k: v for k, v in e.items() if k not in PRIVATE} for e in tr['ev']]}


# --------------------------------------------------------------------------- running scenarios
def _init():
    vsched.load_cflib()
    sd.install()
    _install()


def _exec_job(job):
    sc, mutant = job
    try:
        return execute(sc, mutant)
    except Exception:
        import traceback
        return {'error': traceback.format_exc(), 'tables': [], 'ev': []}


def run_scenarios(scs, mutant=None):
    res = common.pmap(_exec_job, [(sc, mutant) for sc in scs], init=_init, maxtasks=40)
    for sc, t in zip(scs, res):
        if 'error' in t:
            raise common.MachineryError('harness exception while executing a scenario:\n%s\nscenario: %s' %
                                        (t['error'], json.dumps(sc)[:600]))
    return res


def judge(out, traces, label, count=True):
    """all traces through TLC (monitor + conformance); returns ([(index, clause, at)], drift indices)"""
    if not traces:
        return [], []
    batch = []
    for i, t in enumerate(traces):
        t['id'] = i + 1
        batch.append(strip(t))
    verdicts, st = common.validate_traces(TRACE_SPEC, TRACE_CFG, batch)
    if count:
        out.traces += len(traces)
        out.states += st['states']
        out.transitions += st['transitions']
        out.tlc_runs.append({'config': 'TRACE_TocCache (%s)' % label, 'states': st['states'],
                             'transitions': st['transitions'], 'wall_s': round(st['wall_s'], 2),
                             'traces': len(traces)})
    bad, drift = [], []
    for i, t in enumerate(traces):
        clause, at, conf, conf_at = verdicts[t['id']]
        if clause != 'ok':
            bad.append((i, clause, at))
        elif not conf:
            drift.append((i, conf_at))
    return bad, drift


def signature(trace, clause, at):
    """violated clause + class of damage of the cache files under the checksum concerned"""
    ev = trace['ev']
    e = ev[at - 1] if 0 < at <= len(ev) else {}
    if clause == 'ReadOnlyDirWritten':
        return clause + '/-'
    conn = None
    for x in ev[:at]:
        if x['e'] == 'connect':
            conn = x
    state = {}
    openw = None
    for x in ev[:at]:
        k = (x.get('dir'), x.get('crc'))
        if x['e'] == 'ibegin':
            state[k] = 'truncated'
            openw = k
        elif x['e'] == 'wbyte':
            state[k] = ('complete' if x.get('icrc', x['crc']) == x['crc'] else 'foreign:' + x['icrc']) \
                if x['k'] == x['of'] else 'truncated'
        elif x['e'] == 'cut' and x['k'] < x['of']:
            state[k] = 'truncated'
        elif x['e'] == 'rename':
            src = state.pop((x['dir'], x['from']), None)
            if src is not None:
                if src.startswith('foreign:'):
                    src = 'complete' if src[8:] == x['crc'] else src
                state[k] = src
        elif x['e'] in ('rmdir',):
            for kk in [kk for kk in state if kk[0] == x['dir']]:
                state[kk] = 'removed'
        elif x['e'] == 'blockname':
            state[k] = 'directory'
        elif x['e'] == 'garbage':
            state[k] = x['cls']
        elif x['e'] == 'remove':
            state[k] = 'removed'            # a name the cache may still have in its list
        elif x['e'] == 'copy' and k in state:
            state[(x['to'], x['crc'])] = state[k]
    kinds = [e['kind']] if e.get('kind') else ['log', 'param']
    classes = set()
    if conn:
        for kd in kinds:
            crc = conn['lc'] if kd == 'log' else conn['pc']
            for (d, c), s in state.items():
                if c == crc and s != 'complete':
                    classes.add('foreign' if s.startswith('foreign:') else s)
    return '%s/%s' % (clause, '+'.join(sorted(classes)) or 'nodamage')


# --------------------------------------------------------------------------- scenario families
SMALL_LOG = {'kind': 'log', 'els': [['pm', 'vbat', 7, False, False], ['pm', 'state', 1, False, False]]}
SMALL_PAR = {'kind': 'param', 'els': [['ring', 'effect', 0x08, False, False], ['pid', 'kp', 0x06, True, True]]}
EMPTY_LOG = {'kind': 'log', 'els': []}
EMPTY_PAR = {'kind': 'param', 'els': []}
ONE = ['close'], ['exit']


def proc(ro, rw, *connects):
    """one process: start, the given connects (each followed by close), exit"""
    ops = [['start', ro, rw]]
    for c in connects:
        ops.append(c)
        if not (len(c) > 5 and c[5].get('crash_after') is not None):
            ops.append(['close'])
    ops.append(['exit'])
    return ops


def populate_scenario(tables, lt, lc, pt, pc, pv=10):
    return {'tables': tables, 'pv': pv, 'ops': proc('none', 'A', ['connect', lt, lc, pt, pc])}


def file_lengths(trace):
    """crc -> length of the complete cache file, from the wbyte events of a recorded run"""
    return {e.get('icrc', e['crc']): e['of'] for e in trace['ev'] if e['e'] == 'wbyte'}


def sweep_scenarios(tables, lt, lc, pt, pc, lens, mode, target, chunk, pv=10, stride=1):
    """every byte offset 0..L of the cache file of `target` ('log'|'param'), in chunks of offsets.
    modes: rw_cut (file of the rw dir cut from outside), rw_crash (the process is killed inside the
    write at that byte), ro_cut_rw_absent, ro_ok_rw_cut, ro_cut_rw_ok, ro_only_cut"""
    crc = lc if target == 'log' else pc
    cs = crc_str(crc)
    n = lens[cs]
    conn = ['connect', lt, lc, pt, pc]
    first = 3 if target == 'log' else 5          # index of the ibegin event of the target's insert
    offs = list(range(0, n + 1, stride))
    if offs[-1] != n:
        offs.append(n)
    out = []
    for a in range(0, len(offs), chunk):
        ops = proc('none', 'A', conn)
        if mode.startswith('ro'):
            ops += [['copy', 'A', crc_str(lc), 'B'], ['copy', 'A', crc_str(pc), 'B']]
        for k in offs[a:a + chunk]:
            if mode == 'rw_cut':
                ops += [['cut', 'A', cs, k]] + proc('none', 'A', conn)
            elif mode == 'rw_crash':
                ca = first if k == 0 else (first + 1 if k < n else first + 2)
                ops += [['remove', 'A', cs], ['start', 'none', 'A'], conn + [{'crash_after': ca, 'wk': k}]]
                ops += proc('none', 'A', conn)
            elif mode == 'ro_cut_rw_absent':
                ops += [['remove', 'A', cs], ['cut', 'B', cs, k]] + proc('B', 'A', conn) + [['copy', 'A', cs, 'B']]
            elif mode == 'ro_ok_rw_cut':
                ops += [['cut', 'A', cs, k]] + proc('B', 'A', conn)
            elif mode == 'ro_cut_rw_ok':
                ops += [['cut', 'B', cs, k]] + proc('B', 'A', conn) + [['copy', 'A', cs, 'B']]
            elif mode == 'ro_only_cut':
                ops += [['cut', 'B', cs, k]] + proc('B', 'none', conn) + [['copy', 'A', cs, 'B']]
            else:
                raise ValueError(mode)
        out.append({'tables': tables, 'pv': pv, 'ops': ops, 'family': 'sweep:%s:%s' % (mode, target)})
    return out


def crash_everywhere_scenarios(tables, lt, lc, pt, pc, nmax=18):
    """the process is killed after every single event of a connection (0 = right after open_link), with a
    fresh cache, with a complete cache, and with a read-only cache in front of an empty rw directory"""
    out = []
    conn = ['connect', lt, lc, pt, pc]
    for ca in range(0, nmax + 1):
        crash = conn + [{'crash_after': ca}]
        out.append({'tables': tables, 'family': 'crash:fresh',
                    'ops': [['start', 'none', 'A'], crash] + proc('none', 'A', conn) + proc('none', 'A', conn)})
        out.append({'tables': tables, 'family': 'crash:warm',
                    'ops': proc('none', 'A', conn) + [['start', 'none', 'A'], crash] + proc('none', 'A', conn)})
        out.append({'tables': tables, 'family': 'crash:ro',
                    'ops': proc('none', 'B', ['connect', lt, lc, pt, pc ^ 0x55]) + [['start', 'B', 'A'], crash] +
                    proc('B', 'A', conn) + proc('A', 'none', conn)})
    return out


def toctou_scenarios(tables, lt, lc, pt, pc):
    """the environment changes a cache file WITHIN the life of one TocCache object: the name is in its list
    (globbed at construction or appended by insert) and the file is then removed / emptied / cut / turned
    into garbage / replaced -- after construction, between the start of a connection and the look-up, or
    between two connections of the same Crazyflie object; file in the rw directory, in the ro directory in
    front of an rw directory, in the only (ro) directory"""
    out = []
    conn = ['connect', lt, lc, pt, pc]
    both = [['copy', 'A', crc_str(lc), 'B'], ['copy', 'A', crc_str(pc), 'B']]
    for target in ('log', 'param'):
        cs = crc_str(lc if target == 'log' else pc)
        for role in ('rw', 'ro+rw', 'ro'):
            d = 'A' if role == 'rw' else 'B'
            setup = proc('none', 'A', conn) + ([] if role == 'rw' else both) + \
                ([['remove', 'A', cs]] if role == 'ro+rw' else [])
            start = {'rw': ['start', 'none', 'A'], 'ro+rw': ['start', 'B', 'A'], 'ro': ['start', 'B', 'none']}[role]
            dmgs = [['remove', d, cs], ['cut', d, cs, 0], ['cut', d, cs, 0.5], ['garbage', d, cs, 'empty'],
                    ['garbage', d, cs, 'json_list'], ['garbage', d, cs, 'json_empty_object']]
            if role == 'ro':
                dmgs.append(['copy', 'A', cs, 'B'])          # replaced by an identical complete file
            for dmg in dmgs:
                fam = 'toctou:%s:%s' % (role, dmg[0])
                out.append({'tables': tables, 'family': fam + ':constructed',
                            'ops': setup + [start, dmg, conn, ['close'], conn, ['close'], ['exit']]})
                out.append({'tables': tables, 'family': fam + ':prefetch',
                            'ops': setup + [start, conn + [{'pre': {target: [dmg]}}], ['close'], conn, ['close'], ['exit']]})
                out.append({'tables': tables, 'family': fam + ':between',
                            'ops': setup + [start, conn, ['close'], dmg, conn, ['close'], ['exit']] +
                            proc('none', 'A', conn)})
    return out


def concurrent_scenarios(tables, lt, lc, pt, pc, ot, oc, dense=True):
    """another cache object stores table `ot` under checksum `oc` in a directory of ours while we connect:
    its open / two writes / (rename) / close are interleaved with our recorded steps at every position"""
    out = []
    conn = ['connect', lt, lc, pt, pc]
    okind = tables[ot]['kind']
    check = ['connect', ot, oc, pt, pc] if okind == 'log' else ['connect', lt, lc, ot, oc]
    for n in range(0, 17):
        for pat, sched in (('burst', {n: 4}), ('split', {n: 3, n + 1: 2}), ('spread', {n: 1, n + 1: 1, n + 2: 1, n + 3: 2})):
            if not dense and pat != 'split' and n % 2:
                continue
            for (ro, rw, od) in (('none', 'A', 'A'), ('B', 'A', 'A'), ('B', 'A', 'B')):
                if od == 'B' and pat != 'split':
                    continue
                env_at = {}
                first = True
                for pos in sorted(sched):
                    ops = []
                    for _i in range(sched[pos]):
                        ops.append(['obegin', od, oc, ot] if first else ['ostep'])
                        first = False
                    env_at[str(pos)] = ops
                pre = proc('none', 'B', ['connect', lt, lc ^ 0x77, pt, pc ^ 0x77]) if ro == 'B' else []
                out.append({'tables': tables, 'family': 'concurrent:%s:%s%s' % (pat, rw, od),
                            'ops': pre + [['start', ro, rw], conn + [{'env_at': env_at}], ['close'], ['exit']] +
                            proc(ro, rw, conn) + proc('none', od, check) + proc('none', 'A', conn)})
    return out


def openfail_scenarios(tables, lt, lc, pt, pc):
    """the read-write directory cannot be written when the downloaded table is to be stored: the directory was
    removed after the TocCache object was constructed, or the name of the cache file is taken by a directory"""
    out = []
    conn = ['connect', lt, lc, pt, pc]
    for (ro, rw) in (('none', 'A'), ('B', 'A')):
        pre = proc('none', 'B', conn) if ro == 'B' else []
        for dmg, name in ((['rmdir', 'A'], 'rmdir'), (['blockname', 'A', crc_str(lc)], 'blocklog'),
                          (['blockname', 'A', crc_str(pc)], 'blockparam'), (['rmdir', 'B'], 'rmdir_ro')):
            if dmg == ['rmdir', 'B'] and ro != 'B':
                continue
            wipe = [['remove', 'B', crc_str(lc)]] if (ro == 'B' and name != 'rmdir_ro') else []
            fam = 'openfail:%s:%s' % (name, ro + rw)
            out.append({'tables': tables, 'family': fam + ':constructed',
                        'ops': pre + wipe + [['start', ro, rw], dmg, conn, ['close'], conn, ['close'], ['exit']] +
                        proc(ro, rw, conn) + proc(ro, rw, conn)})
            for k in ('log', 'param'):
                out.append({'tables': tables, 'family': fam + ':prefetch',
                            'ops': pre + wipe + [['start', ro, rw], conn + [{'pre': {k: [dmg]}}], ['close'], ['exit']] +
                            proc(ro, rw, conn) + proc(ro, rw, conn)})
            out.append({'tables': tables, 'family': fam + ':between',
                        'ops': pre + wipe + [['start', ro, rw], conn, ['close'], dmg, ['remove', 'A', crc_str(pc)], conn,
                                             ['close'], ['exit']] + proc(ro, rw, conn)})
            # a populated rw directory: the file is there, then its name is blocked / the directory goes
            out.append({'tables': tables, 'family': fam + ':warm',
                        'ops': pre + wipe + proc(ro, rw, conn) + [['start', ro, rw], dmg, conn, ['close'], ['exit']] +
                        proc(ro, rw, conn)})
    return out


SWEEP_MODES = ('rw_cut', 'rw_crash', 'ro_cut_rw_absent', 'ro_ok_rw_cut', 'ro_cut_rw_ok', 'ro_only_cut')


def garbage_scenarios(tables, lt, lc, pt, pc, variants):
    out = []
    conn = ['connect', lt, lc, pt, pc]
    for v in variants:
        for target in ('log', 'param'):
            cs = crc_str(lc if target == 'log' else pc)
            # the damaged file is the rw one; the following process finds the rewritten file
            out.append({'tables': tables, 'family': 'garbage:rw:' + v,
                        'ops': proc('none', 'A', conn) + [['garbage', 'A', cs, v]] + proc('none', 'A', conn) +
                        proc('none', 'A', conn)})
            # the damaged file is in the ro dir, nothing in rw
            out.append({'tables': tables, 'family': 'garbage:ro:' + v,
                        'ops': proc('none', 'A', conn) + [['copy', 'A', crc_str(lc), 'B'], ['copy', 'A', crc_str(pc), 'B'],
                                                         ['garbage', 'B', cs, v], ['remove', 'A', cs]] +
                        proc('B', 'A', conn) + proc('B', 'none', conn)})
            # ro only
            out.append({'tables': tables, 'family': 'garbage:roonly:' + v,
                        'ops': proc('none', 'B', conn) + [['garbage', 'B', cs, v]] + proc('B', 'none', conn)})
    return out


def roundtrip_scenarios(rng, n, sizes):
    out = []
    for i in range(n):
        nl, npar = rng.choice(sizes), rng.choice(sizes)
        odd = i % 2 == 1
        tables = [gen_table(rng, 'log', nl, odd), gen_table(rng, 'param', npar, odd)]
        if i % 7 == 0:
            tables = [all_types_table('log', odd), all_types_table('param', odd)]
        lc, pc = rng.getrandbits(32), rng.getrandbits(32)
        if lc == pc:
            pc ^= 1
        conn = ['connect', 0, lc, 1, pc]
        ops = proc('none', 'A', conn, conn) + proc('none', 'A', conn)
        ops += [['copy', 'A', crc_str(lc), 'B'], ['copy', 'A', crc_str(pc), 'B']]
        ops += proc('B', 'none', conn) + [['remove', 'A', crc_str(lc)]] + proc('B', 'A', conn) + proc('A', 'B', conn)
        ops += proc('none', 'none', conn)
        out.append({'tables': tables, 'pv': 3 if (i % 5 == 4 and nl < 200 and npar < 200) else 10, 'ops': ops,
                    'family': 'roundtrip'})
    return out


def near_crcs(c):
    return [c ^ 0x10000000, c ^ 0x00010000, c ^ 1, c ^ 0x80000000, (c & 0xFFFF) | 0x12340000,
            (c & 0xFFFF), (c >> 4), (c << 4) & 0xFFFFFFFF, c & 0x0FFFFFFF, 0, 0xFFFFFFFF]


def crc_scenarios(rng, n):
    """other checksums than the stored ones (near misses), and log/param collisions"""
    out = []
    t = [SMALL_LOG, SMALL_PAR, all_types_table('log'), all_types_table('param'), EMPTY_LOG, EMPTY_PAR]
    for i in range(n):
        lc = rng.choice([rng.getrandbits(32), 0x0000BEEF, 0xFFFFFFFF, 0, 0x80000000, 0x1111BEEF])
        pc = rng.choice([rng.getrandbits(32), 0x2222BEEF, 0x00000001, 0x7FFFFFFF])
        if pc == lc:
            pc ^= 0x100
        ops = proc('none', 'A', ['connect', 0, lc, 1, pc])
        nl = [x for x in near_crcs(lc) if x not in (lc, pc)]
        npc = [x for x in near_crcs(pc) if x not in (lc, pc)]
        rng.shuffle(nl)
        rng.shuffle(npc)
        for a, b in list(zip(nl, npc))[:5]:
            if a == b:
                continue
            # same tables under other checksums, other tables under the stored checksums
            ops += proc('none', 'A', ['connect', 0, a, 1, b])
        ops += proc('none', 'A', ['connect', 2, lc, 3, pc])      # the device's tables changed, the CRCs did not
        ops += [['copy', 'A', crc_str(lc), 'B'], ['copy', 'A', crc_str(pc), 'B']]
        ops += proc('B', 'none', ['connect', 0, lc ^ 0x10000000, 1, pc ^ 0x10])
        out.append({'tables': t, 'ops': ops, 'family': 'crc:near'})
    # collisions between the log and the parameter table
    for c in (0x5, 0xDEADBEEF, 0xFFFFFFFF, 0):
        for (a, b) in ((0, 1), (2, 3), (4, 1), (0, 5), (4, 5)):
            o = 0x0BADF00D if c != 0x0BADF00D else 1
            ops = proc('none', 'A', ['connect', a, c, b, c]) + proc('none', 'A', ['connect', a, c, b, c])
            out.append({'tables': t, 'ops': ops, 'family': 'crc:collision'})
            # parameter table stored first under c, then a device whose log table announces c
            ops = proc('none', 'A', ['connect', a, o, b, c]) + [['remove', 'A', crc_str(o)]] + \
                proc('none', 'A', ['connect', a, c, b, c]) + proc('A', 'B', ['connect', a, c, b, c])
            out.append({'tables': t, 'ops': ops, 'family': 'crc:collision'})
    return out


def random_scenarios(rng, n):
    out = []
    for i in range(n):
        tables = [gen_table(rng, 'log', rng.choice([0, 1, 2, 3, 5]), i % 3 == 0),
                  gen_table(rng, 'param', rng.choice([0, 1, 2, 4]), i % 3 == 0),
                  gen_table(rng, 'log', rng.choice([1, 2, 9])), gen_table(rng, 'param', rng.choice([1, 3, 11]))]
        crcs = [rng.getrandbits(32) for _ in range(2)] + [0x1111BEEF, 0x2222BEEF]
        ops = []
        for _p in range(rng.randint(2, 6)):
            ro, rw = rng.choice([('none', 'none'), ('none', 'A'), ('A', 'none'), ('A', 'B'), ('B', 'A'), ('none', 'B'),
                                 ('none', 'A'), ('B', 'A')])
            ops.append(['start', ro, rw])
            for _c in range(rng.randint(1, 2)):
                lt, pt = rng.choice([0, 2]), rng.choice([1, 3])
                lc, pc = rng.choice(crcs), rng.choice(crcs)
                opt = {}
                if rng.random() < 0.35:
                    opt = {'crash_after': rng.randint(0, 14), 'wk': rng.randint(1, 400)}
                crashing = bool(opt)

                def some_env():
                    d, c = rng.choice(['A', 'B']), crc_str(rng.choice(crcs))
                    if rng.random() < 0.15:
                        return rng.choice([['rmdir', d], ['blockname', d, c], ['obegin', d, rng.choice(crcs), rng.choice([2, 3])],
                                           ['ostep']])
                    return rng.choice([['remove', d, c], ['cut', d, c, rng.choice([0, 1, rng.randint(0, 600), -1])],
                                       ['garbage', d, c, rng.choice(UNPARSABLE + FALSY + NOTATABLE)],
                                       ['copy', d, c, 'B' if d == 'A' else 'A']])
                if rng.random() < 0.25:     # the environment acts before a look-up of this connection
                    opt['pre'] = {rng.choice(['log', 'param']): [some_env()]}
                ops.append(['connect', lt, lc, pt, pc, opt] if opt else ['connect', lt, lc, pt, pc])
                if crashing:
                    break
                ops.append(['close'])
                if rng.random() < 0.25:     # ... or while the TocCache object is idle
                    ops.append(some_env())
            else:
                ops.append(['exit'])
            for _e in range(rng.randint(0, 2)):
                d, c = rng.choice(['A', 'B']), crc_str(rng.choice(crcs))
                k = rng.choice(['cut', 'garbage', 'remove', 'copy'])
                if k == 'cut':
                    ops.append(['cut', d, c, rng.choice([0, 1, 2, rng.randint(0, 600), -1, -2])])
                elif k == 'garbage':
                    ops.append(['garbage', d, c, rng.choice(UNPARSABLE + FALSY + NOTATABLE)])
                elif k == 'remove':
                    ops.append(['remove', d, c])
                else:
                    ops.append(['copy', d, c, 'B' if d == 'A' else 'A'])
        out.append({'tables': tables, 'pv': rng.choice([10, 10, 3]), 'ops': ops, 'family': 'random'})
    return out


# --------------------------------------------------------------------------- spec -> code
INTERNAL = {'Fetch': 'fetch', 'DoneUsed': 'done', 'Download': 'download', 'InsertBegin': 'ibegin', 'InsertFail': 'ifail',
            'NoInsert': 'noinsert', 'WriteByte': 'wbyte', 'InsertEnd': 'iend', 'DoneDl': 'done'}
ENVMAP = {'Start': 'start', 'Connect': 'connect', 'Close': 'close', 'Exit': 'exit', 'Crash': 'crash',
          'Corrupt': 'garbage', 'Remove': 'remove', 'Copy': 'copy', 'Truncate': 'cut', 'RemoveDir': 'rmdir',
          'BlockName': 'blockname', 'OtherBegin': 'ibegin', 'OtherWrite': 'wbyte', 'OtherEnd': 'oend'}


def _files_of(st):
    f = st.get('files')
    return f if isinstance(f, dict) else {}


def _env_to_op(label, rng, table_of=None):
    """label of an environment action of TocCache -> harness op (+ whether it cuts strictly inside a file)"""
    name, args = tlc.parse_label(label)
    if name in ('OtherWrite', 'OtherEnd'):
        return ['ostep'], False
    if name == 'RemoveDir':
        return ['rmdir', args[0]], False
    x = tuple(args[0])
    if name == 'BlockName':
        return ['blockname', x[0], x[1]], False
    if name == 'OtherBegin':
        tab = args[1]
        kind = 'log' if (not tab or tab[0]['ext'] == '-') else 'param'
        return ['obegin', x[0], int(x[1], 16), table_of(kind, tab)], False
    if name == 'Remove':
        return ['remove', x[0], x[1]], False
    if name == 'Copy':
        return ['copy', x[0], x[1], args[1]], False
    if name == 'Corrupt':
        pool = {'falsy': [v for v in FALSY if v != 'json_null'], 'nontable': NOTATABLE,
                'garbage': UNPARSABLE + ['json_null']}[args[1]]
        return ['garbage', x[0], x[1], rng.choice(pool)], False
    if args[1] == 0:
        return ['cut', x[0], x[1], 0], False
    return ['cut', x[0], x[1], rng.random()], True


ENV_ACTIONS = ('Corrupt', 'Remove', 'Copy', 'Truncate', 'RemoveDir', 'BlockName', 'OtherBegin', 'OtherWrite', 'OtherEnd')


def scenario_from_behaviour(beh, rng):
    """A TLC behaviour of TocCache (list of (label, state)) -> scenario driving the real code along it
    (environment choices verbatim) + the (event kind, post-state) sequence the real code must show."""
    tables, tidx = [], {}

    def table_of(kind, tab):
        key = kind + json.dumps(tab, sort_keys=True)
        if key not in tidx:
            tables.append(spec_from_tla(kind, tab))
            tidx[key] = len(tables) - 1
        return tidx[key]

    ops, expect = [], []
    names = [lab.split('(')[0].strip() for lab, _ in beh]
    n = len(beh)
    j = 1
    has_partial = False
    while j < n:
        name, st = names[j], beh[j][1]
        if name == 'Start':
            ops.append(['start', st['ro'], st['rw']])
            expect.append(('start', st))
        elif name == 'Connect':
            d = st['dev']
            conn = ['connect', table_of('log', d['log']['tab']), int(d['log']['crc'], 16),
                    table_of('param', d['param']['tab']), int(d['param']['crc'], 16)]
            expect.append(('connect', st))
            k = j + 1
            cnt = 0
            env_at = {}
            last_internal = None
            while k < n and (names[k] in INTERNAL or names[k] in ENV_ACTIONS):
                if names[k] in INTERNAL:
                    expect.append((INTERNAL[names[k]], beh[k][1]))
                    cnt += 1
                    last_internal = k
                else:                       # the environment acts before the look-up of a table
                    op, hp = _env_to_op(beh[k][0], rng, table_of)
                    env_at.setdefault(str(cnt), []).append(op)
                    expect.append((ENVMAP[names[k]], beh[k][1]))
                    has_partial = has_partial or hp
                k += 1
            last = beh[k - 1][1]
            opt = {}
            if env_at:
                opt['env_at'] = env_at
            if (k < n and names[k] == 'Crash') or (k >= n and last['stage'] not in ('connected', 'failed')):
                opt['crash_after'] = cnt
                if last_internal is not None and names[last_internal] == 'WriteByte':
                    ls = beh[last_internal][1]
                    if _files_of(ls).get((ls['wdir'], ls['dev'][ls['kind']]['crc']), {}).get('cut') == 1:
                        has_partial = True
                if k < n:
                    expect.append(('crash', beh[k][1]))
                    k += 1
            if opt:
                conn.append(opt)
            ops.append(conn)
            j = k
            continue
        elif name == 'Close':
            ops.append(['close'])
            expect.append(('close', st))
        elif name == 'Exit':
            ops.append(['exit'])
            expect.append(('exit', st))
        elif name == 'Crash':              # a crash outside a connect cannot happen (stage idle is excluded)
            expect.append(('crash', st))
        elif name in ENV_ACTIONS:
            op, hp = _env_to_op(beh[j][0], rng, table_of)
            ops.append(op)
            has_partial = has_partial or hp
            expect.append((ENVMAP[name], st))
        j += 1
    return {'tables': tables, 'ops': ops, 'project': True, 'family': 'tlc-behaviour'}, expect, has_partial


def _state_matches(p, st, tables, what):
    """projection of the real objects vs a TLC state (the variables both sides have)"""
    if p is None:
        return False
    fa = {}
    for k, (s, cut, tab) in p['files'].items():
        fa[k] = (s, cut, json.dumps(tables[tab - 1] if tab else [], sort_keys=True) if s == 'file' else '[]')
    fb = {}
    for k, v in _files_of(st).items():
        fb[tuple(k)] = (v['st'], v['cut'], json.dumps(v['tab'], sort_keys=True) if v['st'] == 'file' else '[]')
    if fa != fb:
        return False
    if 'known' in p and what not in ('exit', 'crash'):
        # the listing order of a directory is the environment's choice (Start takes it as a parameter);
        # what the code's behaviour depends on is the order among the names of one checksum
        ka, kb = [tuple(x) for x in p['known']], [tuple(x) for x in st['known']]
        if sorted(ka) != sorted(kb):
            return False
        for c in {x[1] for x in ka}:
            if [x[0] for x in ka if x[1] == c] != [x[0] for x in kb if x[1] == c]:
                return False
        if what not in ('close', 'connect', 'oend') + ENV_OPS:   # the library resets its tables inside open_link / close_link
            for kd in ('log', 'param'):
                if p['toc'][kd] != list(st['toc'][kd]):
                    return False
    return True


def compare_behaviour(expect, trace):
    """the recorded events (those that are design actions) against the behaviour, step by step"""
    evs = [e for e in trace['ev'] if e['e'] not in ('connected', 'settle', 'odl')]
    if len(evs) < len(expect):
        return False, 'real code produced %d action events, behaviour has %d' % (len(evs), len(expect))
    for i, (what, st) in enumerate(expect):
        e = evs[i]
        if e['e'] != what:
            return False, 'step %d: behaviour %s, real code %s' % (i, what, e['e'])
        if not _state_matches(e.get('_p'), st, trace['tables'], 'oend' if e.get('who') == 2 else what):
            return False, 'step %d (%s): projected state differs' % (i, what)
    return True, ''


def expand_offsets(sc, trace, limit=None):
    """a behaviour scenario with a cut strictly inside a file -> one scenario per byte offset of that file"""
    out = []
    ops = sc['ops']
    # the first partial write / truncate of the run
    for e in trace['ev']:
        if e['e'] == 'wbyte' and e['cut'] == 1:
            pass
    nconn = -1
    target = None
    evi = 0
    conn_events = {}
    cur = None
    for e in trace['ev']:
        if e['e'] == 'connect':
            nconn += 1
            cur = nconn
        if e['e'] == 'wbyte' and cur is not None:
            conn_events.setdefault(cur, []).append(e)
    ci = -1
    for oi, op in enumerate(ops):
        if op[0] == 'connect':
            ci += 1
            if len(op) > 5 and op[5].get('crash_after'):
                ws = conn_events.get(ci, [])
                if ws and ws[-1]['cut'] == 1:
                    target = ('wk', oi, ws[-1]['of'])
                    break
        elif op[0] == 'cut' and isinstance(op[3], float):
            for e in trace['ev']:
                if e['e'] == 'cut' and e['dir'] == op[1] and e['crc'] == op[2] and 0 < e['k'] < e['of']:
                    target = ('cut', oi, e['of'])
                    break
            if target:
                break
    if not target:
        return out
    kind, oi, n = target
    ks = list(range(1, n))
    if limit and len(ks) > limit:
        step = len(ks) / float(limit)
        ks = sorted({ks[int(i * step)] for i in range(limit)} | {1, n - 1})
    for k in ks:
        s2 = copy.deepcopy(sc)
        s2['project'] = False
        s2['family'] = 'tlc-behaviour:offset'
        if kind == 'wk':
            s2['ops'][oi][5]['wk'] = k
        else:
            s2['ops'][oi][3] = k
        out.append(s2)
    return out


# --------------------------------------------------------------------------- the check
ASSUMPTIONS = [
    'the cache is keyed by checksum alone (DESIGN 3.1(7)): a hit is judged against any complete file stored under the '
    'announced checksum in a directory the cache reads; a log/param checksum collision is not objected to',
    'a miss is always allowed; download + right table + completed set-up are demanded when no intact file exists under '
    'the announced checksum or a damaged one is present; `connected` is demanded when both tables went down that path',
    '"otherwise unparsable" = cannot be parsed into a table of contents: includes valid JSON that is not a table '
    '(list, number, string, object whose groups/leaves are not tagged elements); JSON the fetcher already takes for '
    'nothing ({} [] 0 "" false null) is a miss in the code and fine',
    'compared per entry: the keys it is filed under, ident, group, name, ctype, pytype, access, extended (with their '
    'Python types); not compared: persistent (not stored, set later by the extended-type fetch), the element class',
    'a crash at byte k of the write leaves exactly the first k bytes of the file (sequential write); the recorder '
    'performs the write of the real insert() in two pieces and kills the process in between',
    'simdev is the device (DESIGN 3); the device table the library must end up with is computed by the check\'s own '
    'type tables, not by the code under test',
    'the read-only directory is frozen (0555/0444, fixed old mtimes) at process start and compared by '
    'name/size/digest/mtime/mode at process end (works as root too)',
]


def _sample(trace, sc):
    return {'family': sc.get('family'), 'ops': sc['ops'][:8],
            'events': [{k: v for k, v in e.items() if k not in ('_p', 'robase', 'roafter', 'known', 'req')}
                       for e in trace['ev'][:14]]}


def main(tier, seed, replay=None):
    out = common.Outcome('C11', tier, seed)
    rng = random.Random(seed)
    out.assumptions = ASSUMPTIONS
    quick = tier == 'quick'
    if replay:
        rp = json.load(open(replay))['replay']
        _init()
        t = execute(rp['scenario'])
        bad, _ = judge(out, [t], 'replay')
        for (i, clause, at) in bad:
            out.violation(signature(t, clause, at), clause,
                          {'event_index': at, 'event': strip(t)['ev'][at - 1] if at else None},
                          {'scenario': rp['scenario']})
        return out.finish()

    # 1. design spec: exhaustive; every Bug_* configuration must be refuted (vacuity guard)
    cfgs = ['MC_TocCache_quick.cfg', 'MC_TocCache_quick_other.cfg'] if quick else ['MC_TocCache_thorough.cfg', 'MC_TocCache_thorough_empty.cfg',
                                                    'MC_TocCache_thorough_empty2.cfg', 'MC_TocCache_thorough_other.cfg']
    for cfg in cfgs:
        r = tlc.check('MC_TocCache.tla', cfg, coverage=not quick, timeout=3000, workers=TLC_WORKERS, heap='4g')
        out.add_tlc(cfg, r)
    for b in ('suffix', 'partial', 'escape', 'toctou', 'rowrite', 'dropfield', 'sharedtmp', 'openfail', 'nontable'):
        rb = tlc.expect_violation('MC_TocCache.tla', 'MC_TocCache_bug_%s.cfg' % b, timeout=900, workers=TLC_WORKERS, heap='2g')
        out.sensitivity['spec:Bug=' + b] = 'refuted (%s) after %d states' % (rb.violated, rb.distinct)

    # 2. spec -> code: TLC behaviours of the design spec driven through the real code
    nsim = 120 if quick else 1500
    rs, behs = tlc.simulate('MC_TocCache.tla', 'SIM_TocCache.cfg', num=nsim, depth=70, seed=seed % 100000,
                            timeout=1800)
    out.add_tlc('SIM_TocCache.cfg (-simulate num=%d)' % nsim, rs)
    sims = [scenario_from_behaviour(b, rng) for b in behs if len(b) > 2]
    sim_scs = [x[0] for x in sims]
    sim_traces = run_scenarios(sim_scs)
    matched, first_diff = 0, None
    for (sc, expect, _hp), t in zip(sims, sim_traces):
        ok, why = compare_behaviour(expect, t)
        if ok:
            matched += 1
        elif first_diff is None:
            first_diff = {'why': why, 'ops': sc['ops']}
    out.conformance['spec_to_code'] = {'behaviours': len(sims), 'matched': matched,
                                       'steps_compared': sum(len(x[1]) for x in sims)}
    if first_diff:
        out.conformance['spec_to_code']['first_difference'] = first_diff
    # behaviours with a cut strictly inside a file: the abstract cut swept over every concrete byte offset
    exp_scs = []
    nexp = 0
    for (sc, _e, hp), t in zip(sims, sim_traces):
        if hp and nexp < (4 if quick else 30):
            more = expand_offsets(sc, t, limit=40 if quick else None)
            if more:
                nexp += 1
                exp_scs += more
    out.extra['behaviours_swept_over_every_offset'] = nexp

    # 3. code -> spec: own enumerations + seeded random, judged by the monitor
    base = [SMALL_LOG, SMALL_PAR]
    big = [all_types_table('log', True), all_types_table('param', True)]
    LC, PC = 0x1111BEEF, 0x2222BEEF
    pops = [populate_scenario(base, 0, LC, 1, PC), populate_scenario(big, 0, LC, 1, PC),
            populate_scenario(base, 0, LC, 1, PC, pv=3)]
    pop_traces = run_scenarios(pops)
    lens_small, lens_big = file_lengths(pop_traces[0]), file_lengths(pop_traces[1])
    out.extra['cache_file_lengths'] = {'small': lens_small, 'all_types': lens_big}
    scs = []
    for mode in SWEEP_MODES:
        for target in ('log', 'param'):
            scs += sweep_scenarios(base, 0, LC, 1, PC, lens_small, mode, target, chunk=12,
                                   stride=1 if (not quick or mode in ('rw_cut', 'rw_crash')) else 4)
    scs += sweep_scenarios(base, 0, LC, 1, PC, file_lengths(pop_traces[2]), 'rw_cut', 'param', chunk=12, pv=3)
    if quick:
        scs += sweep_scenarios(big, 0, LC, 1, PC, lens_big, 'rw_cut', 'log', chunk=12, stride=13)
        scs += sweep_scenarios(big, 0, LC, 1, PC, lens_big, 'rw_crash', 'param', chunk=12, stride=17)
    else:
        for mode in SWEEP_MODES:
            for target in ('log', 'param'):
                scs += sweep_scenarios(big, 0, LC, 1, PC, lens_big, mode, target, chunk=12)
    for tb in ([EMPTY_LOG, SMALL_PAR], [SMALL_LOG, EMPTY_PAR], [EMPTY_LOG, EMPTY_PAR]):
        ln = {crc_str(LC): 2 if not tb[0]['els'] else lens_small[crc_str(LC)],
              crc_str(PC): 2 if not tb[1]['els'] else lens_small[crc_str(PC)]}
        for target in ('log', 'param'):
            scs += sweep_scenarios(tb, 0, LC, 1, PC, ln, 'rw_cut', target, chunk=12,
                                   stride=1 if (not quick or ln[crc_str(LC if target == 'log' else PC)] == 2) else 5)
        scs += sweep_scenarios(tb, 0, LC, 1, PC, ln, 'rw_crash', 'log', chunk=12,
                               stride=1 if (not quick or ln[crc_str(LC)] == 2) else 5)
    scs += crash_everywhere_scenarios(base, 0, LC, 1, PC)
    scs += toctou_scenarios(base, 0, LC, 1, PC)
    third = base + [all_types_table('log'), all_types_table('param')]
    scs += concurrent_scenarios(third, 0, LC, 1, PC, 2, 0x0BADF00D, dense=not quick)
    if not quick:
        scs += concurrent_scenarios(third, 0, LC, 1, PC, 3, 0x0BADF00D)
    scs += openfail_scenarios(base, 0, LC, 1, PC)
    if not quick:
        scs += toctou_scenarios(big, 0, LC, 1, PC)
    n_offsets = sum(sum(1 for o in sc['ops'] if o[0] == 'cut' or (o[0] == 'connect' and len(o) > 5 and 'wk' in o[5])) for sc in scs)
    scs += garbage_scenarios(base, 0, LC, 1, PC, sorted(GARBAGE))
    if not quick:
        scs += garbage_scenarios(big, 0, LC, 1, PC, sorted(GARBAGE))
    scs += roundtrip_scenarios(rng, 40 if quick else 600, [0, 1, 2, 3, 5, 8, 13, 30] + ([] if quick else [90, 300]))
    scs += crc_scenarios(rng, 20 if quick else 200)
    scs += random_scenarios(rng, 200 if quick else 6000)
    scs += exp_scs
    traces = run_scenarios(scs)
    all_scs = sim_scs + pops + scs
    all_traces = sim_traces + pop_traces + traces
    bad, drift = judge(out, all_traces, 'real code')
    badset = {i for (i, _c, _a) in bad}
    out.conformance['code_to_spec'] = {'traces': len(all_traces),
                                       'explained_by_design_spec': len(all_traces) - len(drift) - len(bad)}
    if drift:
        i, at = drift[0]
        out.conformance['code_to_spec']['first_drift'] = {
            'family': all_scs[i].get('family'), 'event_index': at,
            'event': {k: v for k, v in strip(all_traces[i])['ev'][at - 1].items() if k not in ('robase', 'roafter')}}
    for (i, clause, at) in bad:
        t = all_traces[i]
        out.violation(signature(t, clause, at), clause,
                      {'event_index': at, 'family': all_scs[i].get('family'),
                       'event': {k: v for k, v in strip(t)['ev'][at - 1].items() if k not in ('robase', 'roafter')} if at else None,
                       'damage': [e for e in strip(t)['ev'][:at] if e['e'] in ('garbage', 'cut')][-2:]},
                      {'scenario': {k: v for k, v in all_scs[i].items() if k != 'project'}})
    nev = sum(len(t['ev']) for t in all_traces)
    nconn = sum(1 for t in all_traces for e in t['ev'] if e['e'] == 'connect')
    out.evaluations = nconn
    out.distinct = len({json.dumps(sc['ops']) + json.dumps(sc['tables']) for sc in all_scs})
    out.exhaustive = True
    out.rule = ('scenario = (device tables, protocol version, script of processes [ro/rw roles of two directories], '
                'connections [tables, checksums, crash point, byte offset] and file damage [cut at byte k, garbage variant, '
                'remove, copy]); sources: TLC -simulate behaviours of TocCache (+ every byte offset for those with a cut '
                'inside a file), exhaustive sweeps of every byte offset 0..L of the log and of the parameter cache file in 6 '
                'directory modes, every garbage variant x file x directory role, round trips of generated tables (all '
                'type codes, odd names, V1/V2), near-miss checksums and log/param collisions, seeded random scripts; '
                'evaluations = real connections made; distinct = distinct scenarios; leaked OS threads: %d' %
                sum(t.get('leaked', 0) for t in all_traces))
    out.extra['events_judged'] = nev
    out.extra['byte_offsets_swept'] = n_offsets
    out.extra['families'] = {}
    for sc in all_scs:
        f = (sc.get('family') or 'populate').split(':')[0]
        out.extra['families'][f] = out.extra['families'].get(f, 0) + 1
    picks = [0, len(sim_scs) + len(pops), len(all_scs) - 1]
    out.samples = [_sample(all_traces[i], all_scs[i]) for i in picks if i < len(all_scs)]

    # 4. sensitivity: in-memory mutants of the code under test must be rejected by the monitor
    good = [sc for i, sc in enumerate(all_scs) if i not in badset]
    fam = {}
    for sc in good:
        fam.setdefault((sc.get('family') or 'populate').split(':')[0], []).append(sc)
    sub = []
    for f, lst in sorted(fam.items()):
        step = max(1, len(lst) // (15 if quick else 60))
        sub += lst[::step]
    sub = [{k: v for k, v in sc.items() if k != 'project'} for sc in sub]
    sub += [sc for sc in scs if (sc.get('family') or '').startswith(('concurrent:split:AA', 'openfail:rmdir:noneA'))]
    ro_extra = [{'tables': base, 'ops': proc('none', 'A', ['connect', 0, LC, 1, PC]) +
                 [['copy', 'A', crc_str(LC), 'B']] + proc('B', 'none', ['connect', 0, LC, 1, PC])}]
    names = sorted(MUTANTS)
    jobs = [(sc, name) for name in names for sc in sub + ro_extra]
    mres = common.pmap(_exec_job, jobs, init=_init, maxtasks=40)
    for (sc, name), t in zip(jobs, mres):
        if 'error' in t:
            # a mutant may break the library in ways the recorder cannot follow: that is a rejection
            # by the harness, not by the monitor -- keep it out of the count
            t['ev'] = []
    live = [(j, t) for j, t in zip(jobs, mres) if t['ev']]
    mbad, _ = judge(out, [t for _j, t in live], 'mutants', count=False)
    per = {n: [0, 0, set()] for n in names}
    for (_sc, name), _t in live:
        per[name][1] += 1
    for (i, clause, _at) in mbad:
        name = live[i][0][1]
        per[name][0] += 1
        per[name][2].add(clause)
    for name in names:
        out.sensitivity['mutant:' + name] = '%d of %d traces rejected (%s)' % (
            per[name][0], per[name][1], ', '.join(sorted(per[name][2]))[:120])
        if not per[name][0]:
            raise common.MachineryError('monitor did not reject in-memory mutant %s' % name)
    # binding self-tests on a good recorded trace: one field corrupted / one event dropped
    t0 = next(t for i, t in enumerate(all_traces) if i not in badset and
              any(e['e'] == 'done' and e['used'] and e['got'] for e in t['ev']))
    c1 = copy.deepcopy(strip(t0))
    k = next(i for i, e in enumerate(c1['ev']) if e['e'] == 'done' and e['used'] and e['got'])
    c1['tables'].append(copy.deepcopy(c1['tables'][c1['ev'][k]['got'] - 1]))
    c1['tables'][-1][0]['name'] = 's:corrupted'
    c1['ev'][k]['got'] = len(c1['tables'])
    c2 = copy.deepcopy(strip(t0))
    k2 = next(i for i, e in enumerate(c2['ev']) if e['e'] == 'wbyte' and e['k'] == e['of'])
    del c2['ev'][k2]
    cb, cd = judge(out, [c1, c2], 'corrupted', count=False)
    rej = {i for (i, _c, _a) in cb} | {i for (i, _a) in cd}
    out.sensitivity['binding:loaded-name-changed'] = 'rejected' if 0 in rej else 'ACCEPTED'
    out.sensitivity['binding:drop-final-write-event'] = 'rejected' if 1 in rej else 'ACCEPTED'
    if rej != {0, 1}:
        raise common.MachineryError('trace spec accepted a corrupted trace: %s' % out.sensitivity)
    return out.finish()
