"""C03 -- downloaded log and parameter tables equal the device tables.

spec/TocFetch.tla (design), spec/TocFetchProps.tla (the property), spec/TocFetchTrace.tla
(monitor + conformance for traces recorded from a real Crazyflie connecting over tocsim://).
Real code: cflib.crazyflie.toc (Toc, TocFetcher), log (LogTocElement, Log.refresh_toc), param
(ParamTocElement, Param.refresh_toc, _ExtendedTypeFetcher), platformservice (protocol version),
toccache (hit / miss) inside a real Crazyflie; device = harness/simdev/tocdev.py."""
import copy
import json
import os
import random
import shutil

from .. import common, tlc, vsched
from ..simdev import core as sd
from ..simdev import services as sv
from ..simdev import tocdev
from ..vsched import core as vcore
from ..vsched import vthreading, vtime

TRACE_ENV = {'JAVA_TOOL_OPTIONS': '-Xss128m'}       # CachedToc folds over the table (depth = table size)
NOREQ = 65536
FSTATE = {None: 'idle', 'IDLE': 'idle', 'GET_TOC_INFO': 'info', 'GET_TOC_ELEMENT': 'elem'}


# --------------------------------------------------------------------------- representation
def _bytes_of(s):
    """library string (decoded as ISO-8859-1) -> list of byte values"""
    try:
        return [ord(c) & 0xFFFF for c in s]
    except Exception:
        return [0]


def _int(v, dflt=70000):
    return v if isinstance(v, int) and not isinstance(v, bool) and 0 <= v < 2 ** 30 else dflt


def lib_table(toc):
    """Toc.toc (group -> name -> element) as a list of plain records, in iteration order"""
    out = []
    for g in list(toc.toc.keys()):
        for n in list(toc.toc[g].keys()):
            e = toc.toc[g][n]
            out.append({'ident': _int(getattr(e, 'ident', None)),
                        'group': _bytes_of(getattr(e, 'group', '')), 'name': _bytes_of(getattr(e, 'name', '')),
                        'ctype': str(getattr(e, 'ctype', '')), 'pytype': str(getattr(e, 'pytype', '')),
                        'access': _int(getattr(e, 'access', None)),
                        'extended': bool(getattr(e, 'extended', False)),
                        'persistent': bool(getattr(e, 'persistent', False))})
    return out


def _ref(e):
    if e is None:
        return []
    return [_int(getattr(e, 'ident', None)), _bytes_of(getattr(e, 'group', '')), _bytes_of(getattr(e, 'name', ''))]


def lookups(toc, entries):
    """the three lookup paths, asked with the keys of every device entry"""
    out = []
    for k, d in enumerate(entries):
        g = bytes(d['group']).decode('ISO-8859-1')
        n = bytes(d['name']).decode('ISO-8859-1')
        r = {}
        for key, fn in (('byname', lambda: toc.get_element_by_complete_name(g + '.' + n)),
                        ('byid', lambda: toc.get_element_by_id(k)),
                        ('bygn', lambda: toc.get_element(g, n))):
            try:
                r[key] = _ref(fn())
            except Exception:
                r[key] = []
        out.append(r)
    return out


# --------------------------------------------------------------------------- one execution
def make_policy(spec, est=600):
    kind, seed = spec[0], spec[1]
    rng = random.Random(seed)
    if kind == 'fifo':
        return vsched.FifoPolicy()
    if kind == 'random':
        return vsched.RandomPolicy(rng, tick_p=spec[2] if len(spec) > 2 else 0.0)
    return vsched.PCTPolicy(rng, depth=3, est_steps=est, tick_p=spec[2] if len(spec) > 2 else 0.0)


class Session:
    """A real Crazyflie on a TocDevice with all observation hooks installed (inside an active
    scheduler).  Shared by the free-running executions and the scripted replays."""

    def __init__(self, s, sc, cache_dir=None, manual=None):
        import cflib.crazyflie as cfm
        import cflib.crazyflie.log as logm
        import cflib.crazyflie.param as paramm
        import cflib.crazyflie.toc as tocm
        self.s = s
        self.sc = sc
        self.ev = []
        self.cur = None
        self.cur_objs = None
        self.fetcher = {}             # the fetchers of the connection in progress (a fresh dict per connect)
        self.ext = None
        self.done = {'log': False, 'param': False}
        self.cache_label = {}         # kind -> what the harness turned the cache file into ('old', 'extra', 'broken')
        self.in_retry = {}            # thread name -> request being retried
        self.nconn = 0
        self.entries = {'log': sc['log'], 'param': sc['param']}
        self.crc = {'log': 0x1A2B3C4D, 'param': 0x5E6F7081}
        self.crc.update(sc.get('crc') or {})
        self.v2 = sc['pver'] >= 4
        self.connected_evt = vthreading.Event()
        self.idle_evt = vthreading.Event()
        self._mods = (logm, paramm, tocm)
        self._saved = (logm.TocFetcher, paramm.TocFetcher, paramm._ExtendedTypeFetcher, cfm.Timer)
        self._cfm = cfm
        me = self

        class Timer(cfm.Timer):
            # the retry path of send_packet creates its new timer right after it has found the
            # pattern still pending: that is the moment the resend is decided (Timeout in the spec)
            def __init__(self, *a, **kw):
                cfm_timer_init(self, *a, **kw)
                t = s.current()
                pk = me.in_retry.get(t.name) if t is not None else None
                if pk is not None:
                    k = tocdev.kind_of(pk.port, pk.channel, bytes(pk.data))
                    if k is not None:
                        me.ev.append({'e': 'timeout', 'kind': k, 'ch': pk.channel, 'd': list(pk.data)})
        cfm_timer_init = cfm.Timer.__init__
        cfm.Timer = Timer

        class TocFetcher(tocm.TocFetcher):
            def start(self):
                kind = 'log' if self.port == sv.PORT_LOG else 'param'
                me.fetcher[kind] = self
                if kind == 'param':
                    me.ext = None
                    me.start_event(kind, self._toc_cache)     # (log: at Log.refresh_toc, see below)
                    me.fetcher[kind] = self
                tocm.TocFetcher.start(self)

        class _ExtendedTypeFetcher(paramm._ExtendedTypeFetcher):
            def __init__(self, cf, toc):
                paramm_ext_init(self, cf, toc)
                me.ext = self
                f = me.fetcher.get('param')
                if f is not None:
                    f._c03_ext = self            # the extended-type fetcher of this download
        paramm_ext_init = self._saved[2].__init__
        logm.TocFetcher = TocFetcher
        paramm.TocFetcher = TocFetcher
        paramm._ExtendedTypeFetcher = _ExtendedTypeFetcher

        self.w = sd.set_world(sd.World())
        self.dev = tocdev.build_device(sc['log'], sc['param'], sc['pver'], self.ev.append, manual=manual,
                                       context=self._context, mode='sync', needs_resending=sc['resend'],
                                       log_crc=self.crc['log'], param_crc=self.crc['param'])
        self.dev.faults = tocdev.ScriptFaults(sc.get('faults'))
        self.w.add('0', self.dev)
        tocdev.TocDriver.on_idle = self._on_idle
        self.cf = cf = cfm.Crazyflie(rw_cache=cache_dir)
        cf.packet_received.add_callback(self._on_rx)
        cf.connected.add_callback(self._on_connected)
        self.lost_evt = vthreading.Event()
        cf.connection_lost.add_callback(lambda uri, msg: self.lost_evt.set())
        cf.connection_failed.add_callback(lambda uri, msg: self.lost_evt.set())

        orig_retry = cf._no_answer_do_retry

        def retry(pk, pattern, timeout=0.2):
            t = s.current()
            name = t.name if t is not None else '?'
            self.in_retry[name] = pk
            try:
                return orig_retry(pk, pattern, timeout)
            finally:
                self.in_retry.pop(name, None)
        cf._no_answer_do_retry = retry

        # the log download begins with Log.refresh_toc (self.toc = None, RESET command); the
        # TocFetcher is created when the RESET reply arrives
        orig_refresh = cf.log.refresh_toc

        def log_refresh(refresh_done_callback, toc_cache):
            self.start_event('log', toc_cache)
            self.fetcher['log'] = None
            return orig_refresh(refresh_done_callback, toc_cache)
        cf.log.refresh_toc = log_refresh

        orig_log_done = cf._log_toc_updated_cb
        orig_param_done = cf._param_toc_updated_cb

        def log_done():
            self.done['log'] = True
            return orig_log_done()

        def param_done():
            self.done['param'] = True
            return orig_param_done()
        cf._log_toc_updated_cb = log_done
        cf._param_toc_updated_cb = param_done

    def start_event(self, kind, toc_cache):
        if getattr(self, '_fresh', False):
            self._fresh = False
            self.done = {'log': False, 'param': False}
            self.fetcher = {}
        pat = '%08X.json' % self.crc[kind]
        try:
            present = any(n.endswith(pat) for n in toc_cache._cache_files)
        except Exception:
            present = False
        label = (self.cache_label.get(kind) or 'own') if present else 'none'
        ev = {'e': 'start', 'kind': kind, 'ver': 2 if self.v2 else 1, 'cached': label,
              'crc': list(self.crc[kind].to_bytes(4, 'little')),
              'resend': bool(self.dev.needs_resending)}
        if self.entries[kind] is not self.sc[kind]:
            ev['dev'] = tocdev.table_json(self.entries[kind])     # the table the device has during this attempt
        self.ev.append(ev)

    def restore(self):
        logm, paramm, _ = self._mods
        logm.TocFetcher, paramm.TocFetcher, paramm._ExtendedTypeFetcher, self._cfm.Timer = self._saved
        tocdev.TocDriver.on_idle = None

    # ---- hooks
    def _context(self):
        t = self.s.current()
        if t is None:
            return None
        if t.name in self.in_retry:
            return 'timeout'
        if t.name.startswith('_ExtendedTypeFetcher'):
            return 'ext'
        return None

    def _on_rx(self, pk):
        k = tocdev.kind_of(pk.port, pk.channel, bytes(pk.data))
        self.finalize()
        if k is not None:
            self.cur = {'e': 'rx', 'kind': k, 'ch': pk.channel, 'd': list(pk.data), 'st': None}
            # the objects of the connection this packet belongs to (the projection is taken when the
            # dispatcher has finished with the packet; a reconnect may have replaced them by then)
            self.cur_objs = (self.fetcher, self.ext, self.done)
            self.ev.append(self.cur)

    def _on_idle(self):
        self.finalize()
        link = self.cf.link
        try:
            if link is not None and link.in_queue.empty():
                self.idle_evt.set()
        except Exception:
            pass

    def finalize(self):
        if self.cur is not None:
            self.cur['st'] = self.project(self.cur['kind'], self.cur_objs)
            self.cur = None

    def _on_connected(self, uri):
        self.nconn += 1
        self.dev.faults.setup_on = False
        self.ev.append(self.snapshot('connected'))
        self.connected_evt.set()

    def open(self, attempt):
        # the per-connection containers are replaced when the new connection's first download
        # starts: a packet of the old link still being handled belongs to the old ones
        self._fresh = True
        self.connected_evt.clear()
        # `same_uri`: every attempt uses the same URI string (the normal reconnect of an application)
        self.cf.open_link('tocsim://0' if self.sc.get('same_uri') else 'tocsim://0/%d' % attempt)

    # ---- projections
    def project(self, kind, objs=None):
        fetchers, ext, done = objs if objs is not None else (self.fetcher, self.ext, self.done)
        f = fetchers.get(kind)
        lt = 'off'
        if kind == 'log':
            lt = 'wait' if self.cf.log.toc is None else 'on'
        if f is not None:
            ext = getattr(f, '_c03_ext', None)
        if f is None:
            return {'lt': lt, 'fstate': 'idle', 'cb': False, 'reqIdx': 0, 'nItems': 0, 'ntoc': 0,
                    'done': bool(done[kind]), 'xcount': 0}
        try:
            cb = any(c.callback == f._new_packet_cb for c in self.cf.incoming.cb)
        except Exception:
            cb = False
        try:
            ntoc = sum(len(v) for v in f.toc.toc.values())
        except Exception:
            ntoc = 70000
        xc = 0
        if kind == 'param' and ext is not None:
            xc = max(0, _int(ext._count, 0))
        return {'lt': lt, 'fstate': FSTATE.get(f.state, 'idle'), 'cb': bool(cb), 'reqIdx': _int(f.requested_index, 0),
                'nItems': _int(f.nbr_of_items, 0), 'ntoc': ntoc, 'done': bool(done[kind]), 'xcount': xc}

    def snapshot(self, what):
        cf = self.cf
        out = {'e': what}
        for kind, toc in (('log', cf.log.toc), ('param', cf.param.toc)):
            if toc is None:
                out[kind] = []
                out['lk' + kind] = [{'byname': [], 'byid': [], 'bygn': []} for _ in self.entries[kind]]
            else:
                out[kind] = lib_table(toc)
                out['lk' + kind] = lookups(toc, self.entries[kind])
        return out

    def trace(self, extra=None):
        t = {'dev': {'log': tocdev.table_json(self.sc['log']), 'param': tocdev.table_json(self.sc['param'])},
             'ev': [e for e in self.ev if e['e'] != 'rx' or e['st'] is not None],
             'expect': self.sc.get('connects', 1)}
        if extra:
            t.update(extra)
        return t


def edit_cache_file(path, how):
    """Turn a cache file the library wrote itself into what another release / a crash would have
    left under the same name.  The table in it stays the right one (or the file is unusable)."""
    txt = open(path).read()
    if how == 'old':            # release that did not know extended types: no 'extended' key
        d = json.loads(txt)
        for g in d.values():
            for e in g.values():
                e.pop('extended', None)
        txt = json.dumps(d, indent=2)
    elif how == 'extra':        # a later release: additional keys the decoder does not know
        d = json.loads(txt)
        for g in d.values():
            for e in g.values():
                e['persistent'] = False
                e['flags'] = [1, 2]
        d_keys = list(d)
        txt = json.dumps({k: d[k] for k in d_keys}, indent=4, sort_keys=False)
    elif how == 'trunc':        # interrupted write
        txt = txt[:max(1, (2 * len(txt)) // 3)]
    elif how == 'garbage':
        txt = 'not a table\x00{' + txt[:20]
    elif how == 'nokey':        # one entry lost a key the decoder needs
        d = json.loads(txt)
        for g in d.values():
            for e in g.values():
                e.pop('pytype', None)
                break
            break
        txt = json.dumps(d, indent=2)
    with open(path, 'w') as f:
        f.write(txt)


CACHE_LABEL = {'old': 'old', 'extra': 'extra', 'trunc': 'broken', 'garbage': 'broken', 'nokey': 'broken'}


def execute(sc, mutant=None):
    """Free-running execution: connect (`connects` times, with the read-write cache if asked),
    faults from the script, snapshot at every connected and before every close / at the end.
    Between two connects the cache files may be rewritten (`cache_edit`: kind -> variant) and moved
    into a read-only directory (`cache_ro`), as an application restart would find them."""
    cache_dir = ro_dir = None
    if sc.get('cache'):
        cache_dir = tlc.scratch_dir('c03cache-')
        if sc.get('cache_ro'):
            ro_dir = tlc.scratch_dir('c03cache-')
        # decoys: cache files of OTHER tables (as another firmware build would have left them) whose
        # checksums share their low hex digits with this device's; they must not be taken for it
        for (crc, kind) in sc.get('decoys', ()):
            cls = 'LogTocElement' if kind == 'log' else 'ParamTocElement'
            ent = {'__class__': cls, 'ident': 0, 'group': 'decoy', 'name': 'x%X' % crc, 'ctype': 'uint8_t',
                   'pytype': '<B', 'access': 0}
            if kind == 'param':
                ent['extended'] = False
            with open(os.path.join(cache_dir, '%08X.json' % crc), 'w') as f:
                json.dump({'decoy': {ent['name']: ent}}, f, indent=2)
    undo = None
    res = {'connected': 0, 'flushes': 0}
    try:
        with vsched.scheduler(make_policy(sc['policy']), max_steps=sc.get('max_steps', 600000), max_threads=1000) as s:
            if mutant:
                undo = MUTANTS[mutant]()
            ses = Session(s, sc, cache_dir=cache_dir)
            try:
                def between_connects():
                    import cflib.crazyflie.toccache as cm
                    for kind, how in (sc.get('cache_edit') or {}).items():
                        path = os.path.join(cache_dir, '%08X.json' % ses.crc[kind])
                        if os.path.exists(path):
                            edit_cache_file(path, how)
                            ses.cache_label[kind] = CACHE_LABEL[how]
                    if ro_dir:
                        for fn in os.listdir(cache_dir):
                            shutil.move(os.path.join(cache_dir, fn), os.path.join(ro_dir, fn))
                        os.chmod(ro_dir, 0o555)
                    if ro_dir or sc.get('cache_edit'):
                        # the application starts again: a new TocCache looks at the directories
                        ses.cf._toc_cache = cm.TocCache(ro_cache=ro_dir, rw_cache=cache_dir)

                def user():
                    if sc.get('reconnect'):
                        # first attempt: the device still has its old (smaller) tables; the link dies in the
                        # middle of a download; the application opens the link again on the same object
                        rc = sc['reconnect']
                        ses.entries = {'log': rc['log'], 'param': rc['param']}
                        ses.crc = dict(rc['crc'])
                        ses.dev.set_tables(rc['log'], rc['param'], rc['crc']['log'], rc['crc']['param'])
                        ses.dev.faults.script = rc['faults']
                        ses.open(1)
                        for _ in range(200):
                            if ses.lost_evt.wait(0.35) or ses.connected_evt.is_set():
                                break
                            ses.dev.flush_held()
                        vtime.sleep(rc.get('pause', 0.05))
                        # the device comes back reflashed: the tables of the scenario
                        ses.entries = {'log': sc['log'], 'param': sc['param']}
                        ses.crc = {'log': 0x1A2B3C4D, 'param': 0x5E6F7081}
                        ses.crc.update(sc.get('crc') or {})
                        ses.dev.set_tables(sc['log'], sc['param'], ses.crc['log'], ses.crc['param'])
                        ses.dev.faults.script = sc.get('faults') or {}
                    for c in range(sc.get('connects', 1)):
                        ses.open(c + 1 + (1 if sc.get('reconnect') else 0))
                        # unsolicited value-updated notifications (MISC channel, command 1) that the
                        # firmware may send at any time, here before any table exists
                        for pid in sc.get('early_notify', ()):
                            if ses.dev.link is not None:
                                ses.dev.link.in_queue.put(sd.reply(sv.PORT_PARAM, 3, bytes([1, pid & 0xFF, pid >> 8, 7])))
                        for _ in range(sc.get('max_wait', 3000)):
                            if ses.connected_evt.wait(0.35):
                                break
                            ses.dev.flush_held()          # a delayed reply finally arrives
                            res['flushes'] += 1
                        if not ses.connected_evt.is_set():
                            break
                        res['connected'] += 1
                        ses.dev.flush_held()              # stale replies after connected
                        ses.idle_evt.clear()
                        ses.idle_evt.wait(2.0)
                        if sc.get('post_reset'):
                            # the application resets the log subsystem: one more RESET reply
                            ses.cf.log.reset()
                            vtime.sleep(0.3)
                            ses.dev.flush_held()
                            ses.idle_evt.clear()
                            ses.idle_evt.wait(2.0)
                        ses.finalize()
                        ses.ev.append(ses.snapshot('end'))
                        if c + 1 < sc.get('connects', 1):
                            ses.cf.close_link()
                            vtime.sleep(0.05)
                            between_connects()
                u = s.spawn(user, 'user')
                why = s.run(until=lambda: u.finished, horizon=3000.0)
                ses.finalize()
                rep = s.report()
                dead = [t for t in rep if t['status'] == 'dead']
                # which set-up replies (outside the two downloads) were duplicated by the script
                names = {(sv.PORT_LINK, 1): 'linksource', (sv.PORT_PLATFORM, 1): 'version', (sv.PORT_MEM, 0): 'memcount'}
                sdup = []
                for k, acts in (sc.get('faults', {}).get('setup') or {}).items():
                    i = int(k) - 1
                    if i < len(ses.dev.faults.setup_seen) and len(acts) > 1:
                        sdup.append(names.get(ses.dev.faults.setup_seen[i], 'other'))
                detail = {'why': why, 'steps': s.steps, 'connected': res['connected'], 'flushes': res['flushes'],
                          'dead': [t.get('traceback', '')[-400:] for t in dead], 'setup_dups': sorted(set(sdup))}
            finally:
                ses.restore()
        return ses.trace({'detail': detail})
    finally:
        if undo:
            undo()
        for d in (cache_dir, ro_dir):
            if d:
                try:
                    os.chmod(d, 0o755)
                except OSError:
                    pass
                shutil.rmtree(d, ignore_errors=True)


MUTANTS = {}


# --------------------------------------------------------------------------- spec -> code replay
class _ReplayStuck(Exception):
    """the code under test does not follow the scripted behaviour any more (only on changed trees)"""


def _quiesce(s, allow_ext, limit=50000):
    """run every runnable thread (optionally not the _ExtendedTypeFetcher thread) until all of
    them wait; virtual time does not advance"""
    n = 0
    while n < limit:
        runnable, _timed = s.enabled()
        cand = [r for r in runnable if allow_ext or not r.name.startswith('_ExtendedTypeFetcher')]
        if not cand:
            return
        s.steps += 1
        s.trace.append(cand[0].name)
        s.step_thread(cand[0])
        n += 1
    raise _ReplayStuck('no quiescence after %d steps' % limit)


def _bag_size(b):
    return sum(b.values()) if isinstance(b, dict) else 0


def _spec_entries(dev, kind):
    out = []
    for d in dev:
        e = {'group': bytes(d['group']), 'name': bytes(d['name']), 'type': d['type'], 'xt': d['xt']}
        if kind == 'param':
            w = tocdev.PARAM_WIDTH[d['type'] & 0x0F]
            e['value'] = bytes(w)
            e['default'] = bytes(w)
        out.append(e)
    return out


def replay(job):
    """Drive the real code along one TLC behaviour of TocFetch: environment choices verbatim
    (which reply is delivered / duplicated next, when the retry timer fires, when the device
    answers), the library threads run to quiescence after each of them, and the real objects are
    projected onto the spec variables after every step.  Returns (trace, steps, matched steps,
    first mismatch)."""
    cfg = job['cfg']
    kind = cfg['kind']
    other = 'param' if kind == 'log' else 'log'
    rng = random.Random(1)
    sc = {kind: _spec_entries(cfg['dev'], kind), other: tocdev.gen_table(other, 1, True, rng, 'short'),
          'pver': 10 if cfg['ver'] == 2 else 3, 'resend': bool(cfg['resend']), 'faults': {},
          'policy': ('fifo', 0), 'connects': 2 if cfg['cached'] != 'none' else 1,
          'crc': {kind: int.from_bytes(bytes(cfg['crc']), 'little')}}
    cache_dir = tlc.scratch_dir('c03cache-') if cfg['cached'] != 'none' else None
    mism = None
    nsteps = matched = 0
    steps_todo = job['steps']
    try:
        with vsched.scheduler(vsched.FifoPolicy(), max_steps=400000, max_threads=1000) as s:
            ses = Session(s, sc, cache_dir=cache_dir)
            try:
                dev, cf = ses.dev, ses.cf
                attempt = 1
                if cfg['cached'] != 'none':
                    def warm():
                        ses.open(1)
                        if ses.connected_evt.wait(30):
                            ses.idle_evt.clear()
                            ses.idle_evt.wait(1.0)
                            ses.finalize()
                            ses.ev.append(ses.snapshot('end'))
                        cf.close_link()
                    u0 = s.spawn(warm, 'user')
                    s.run(until=lambda: u0.finished, horizon=100.0)
                    attempt = 2
                    if ses.nconn != 1:
                        mism = (0, 'warm-up', 'the connect that fills the cache did not complete')
                        steps_todo = []
                    if cfg['cached'] != 'own':
                        path = os.path.join(cache_dir, '%08X.json' % ses.crc[kind])
                        if os.path.exists(path):
                            edit_cache_file(path, cfg['cached'])
                            ses.cache_label[kind] = CACHE_LABEL[cfg['cached']]
                dev.manual = kind
                u = s.spawn(lambda: ses.open(attempt), 'user')
                for (name, args, post) in steps_todo:
                  try:
                      nsteps += 1
                      if name == 'Start':
                          s.run(until=lambda: len(dev.upq) > 0, horizon=s.now + 50.0)
                          _quiesce(s, False)
                      elif name == 'DevReply':
                          if not dev.upq:
                              mism = mism or (nsteps, name, 'no request at the device')
                              break
                          dev.dev_reply()
                      elif name in ('Deliver', 'Dup'):
                          i = dev.find(args[0]['ch'], args[0]['d'])
                          if i is None:
                              mism = mism or (nsteps, name, 'reply not in flight: %s' % (args[0],))
                              break
                          if name == 'Dup':
                              dev.dup(i)
                          else:
                              dev.deliver(i)
                              _quiesce(s, False)
                      elif name == 'ExtSend':
                          _quiesce(s, True)
                      elif name == 'Timeout':
                          n0 = len(dev.upq)
                          t_end = s.now + 2.0
                          while len(dev.upq) == n0 and s.now < t_end:
                              runnable, timed = s.enabled()
                              cand = [r for r in runnable if not r.name.startswith('_ExtendedTypeFetcher')]
                              if cand:
                                  s.steps += 1
                                  s.step_thread(cand[0])
                              elif timed:
                                  s.tick(timed)
                              else:
                                  break
                          _quiesce(s, False)
                      else:
                          raise common.MachineryError('replay: unknown action %s' % name)
                      if s.steps >= s.max_steps:
                          mism = mism or (nsteps, name, 'step budget exhausted')
                          break
                      ses.finalize()
                      st = ses.project(kind)
                      f = ses.fetcher.get(kind)
                      real = dict(st)
                      real['xreq'] = NOREQ
                      if kind == 'param' and ses.ext is not None and ses.ext._req_param != -1:
                          real['xreq'] = ses.ext._req_param
                      real['up'] = len(dev.upq)
                      real['down'] = len(dev.bag)
                      real['pend'] = len(cf._answer_patterns)
                      real['idents'] = [e['ident'] for e in lib_table(f.toc)] if f is not None else []
                      want = post
                      if real == want:
                          matched += 1
                      elif mism is None:
                          mism = (nsteps, name, {k: (real[k], want[k]) for k in want if real[k] != want[k]})
                  except _ReplayStuck as e:
                    mism = mism or (nsteps, name, str(e))
                    break
                # the behaviour is over: let the download complete undisturbed
                dev.manual = None
                for _ in range(10000):
                    if not dev.upq:
                        break
                    dev.dev_reply()
                for _ in range(10000):
                    if not dev.bag:
                        break
                    dev.deliver(0)
                s.run(until=lambda: ses.connected_evt.is_set(), horizon=s.now + 60.0)
                s.run(horizon=s.now)
                ses.finalize()
                if ses.connected_evt.is_set():
                    ses.ev.append(ses.snapshot('end'))
                del u
            finally:
                ses.restore()
        return ses.trace({'detail': {'replay': True}}), nsteps, matched, mism
    finally:
        if cache_dir:
            shutil.rmtree(cache_dir, ignore_errors=True)


def _thaw(v):
    """frozen TLA value (tuples of pairs) back to dict / list"""
    if isinstance(v, tuple):
        if v and all(isinstance(x, tuple) and len(x) == 2 and isinstance(x[0], str) for x in v):
            return {k: _thaw(x) for k, x in v}
        return [_thaw(x) for x in v]
    return v


def _infer(pre, post):
    """TLC cannot name the disjuncts under the state-dependent quantifiers of Next (Deliver, Dup,
    Timeout): recover action and argument from the state change"""
    bd = lambda b: b if isinstance(b, dict) else {}
    d0, d1 = bd(pre['down']), bd(post['down'])
    if post['budget'] < pre['budget'] and len(post['up']) > len(pre['up']):
        return 'Timeout', [post['up'][-1]]
    for k in set(d0) | set(d1):
        if d1.get(k, 0) > d0.get(k, 0) and post['budget'] < pre['budget']:
            return 'Dup', [_thaw(k)]
        if d1.get(k, 0) < d0.get(k, 0):
            return 'Deliver', [_thaw(k)]
    raise common.MachineryError('cannot infer the action between two TocFetch states')


def behaviour_job(beh):
    """[(label, state)] of TocFetch -> replay job (None for behaviours that never start)"""
    steps = []
    cfg = None
    prev = None
    for label, st in beh:
        name, args = tlc.parse_label(label)
        if name in ('Init',) or label.startswith('Initial'):
            prev = st
            continue
        if name == 'Next':
            name, args = _infer(prev, st)
        if name == 'Start':
            cfg = st['cfg']
            args = []
        # the projection of the post-state that the real objects are compared with (plain data: a
        # job is also the replay payload of a violation)
        want = {'lt': st['lt'], 'fstate': st['fstate'], 'cb': st['cbOn'], 'reqIdx': st['reqIdx'],
                'nItems': st['nItems'], 'ntoc': len(st['toc']), 'done': st['done'],
                'xcount': st['xcount'], 'xreq': st['xreq'], 'up': len(st['up']),
                'down': _bag_size(st['down']), 'pend': len(st['pend']),
                'idents': [e['ident'] for e in st['toc']]}
        steps.append((name, args, want))
        prev = st
    if cfg is None:
        return None
    return {'cfg': cfg, 'steps': steps}


# --------------------------------------------------------------------------- in-memory mutants
def _patch(obj, name, new):
    old = obj.__dict__[name] if name in obj.__dict__ else getattr(obj, name)
    setattr(obj, name, new)
    return lambda: setattr(obj, name, old)


def _fetcher_variant(variant):
    """TocFetcher._new_packet_cb / _request_toc_element re-implemented with one seeded defect"""
    def install():
        import struct
        import cflib.crazyflie.toc as tocm
        from cflib.crtp.crtpstack import CRTPPacket
        F = tocm.TocFetcher

        def request(self, index):
            pk = CRTPPacket()
            pk.set_header(self.port, tocm.TOC_CHANNEL)
            if self._useV2:
                hi = 0 if variant == 'trunc8' else (index >> 8) & 0xFF
                pk.data = (tocm.CMD_TOC_ITEM_V2, index & 0xFF, hi)
                self.cf.send_packet(pk, expected_reply=(tocm.CMD_TOC_ITEM_V2, index & 0xFF, hi))
            else:
                pk.data = (tocm.CMD_TOC_ELEMENT, index)
                self.cf.send_packet(pk, expected_reply=(tocm.CMD_TOC_ELEMENT, index))

        def cb(self, packet):
            if packet.channel != 0:
                return
            payload = packet.data[1:]
            if self.state == tocm.GET_TOC_INFO:
                if self._useV2 and variant != 'info_u8':
                    [self.nbr_of_items, self._crc] = struct.unpack('<HI', payload[:6])
                elif self._useV2:
                    [self.nbr_of_items, _hi, self._crc] = struct.unpack('<BBI', payload[:6])
                else:
                    [self.nbr_of_items, self._crc] = struct.unpack('<BI', payload[:5])
                cache_data = self._toc_cache.fetch(self._crc)
                if cache_data:
                    self.toc.toc = cache_data
                    self._toc_fetch_finished()
                else:
                    self.state = tocm.GET_TOC_ELEMENT
                    self.requested_index = 0
                    if self.nbr_of_items > 0:
                        self._request_toc_element(self.requested_index)
                    else:
                        self._toc_cache.insert(self._crc, self.toc.toc)
                        self._toc_fetch_finished()
            elif self.state == tocm.GET_TOC_ELEMENT:
                if self._useV2:
                    ident = struct.unpack('<H', payload[:2])[0]
                else:
                    ident = payload[0]
                if variant == 'trunc8':
                    if (ident & 0xFF) != (self.requested_index & 0xFF):
                        return
                elif variant == 'accept_ge':
                    if ident < self.requested_index:          # only "old" replies are dropped
                        return
                elif variant != 'accept_any' and ident != self.requested_index:
                    return
                if self._useV2:
                    self.toc.add_element(self.element_class(ident, payload[2:]))
                else:
                    self.toc.add_element(self.element_class(ident, payload[1:]))
                last = self.nbr_of_items - (2 if variant == 'last_index' else 1)
                if self.requested_index < last:
                    self.requested_index += 1
                    self._request_toc_element(self.requested_index)
                else:
                    self._toc_cache.insert(self._crc, self.toc.toc)
                    self._toc_fetch_finished()
        u1 = _patch(F, '_new_packet_cb', cb)
        u2 = _patch(F, '_request_toc_element', request)
        return lambda: (u1(), u2())
    return install


def _mut_access_mask():
    import cflib.crazyflie.param as paramm
    E = paramm.ParamTocElement
    orig = E.__init__

    def init(self, ident=0, data=None):
        orig(self, ident, data)
        if data:
            self.access = E.RO_ACCESS if (data[0] & 0x20) else E.RW_ACCESS
    return _patch(E, '__init__', init)


def _mut_log_name():
    import cflib.crazyflie.log as logm
    E = logm.LogTocElement
    orig = E.__init__

    def init(self, ident=0, data=None):
        orig(self, ident, data)
        if data:
            naming = data[1:]
            z = naming.find(bytearray((0,)))
            self.name = naming[z + 1:].decode('ISO-8859-1')       # keeps the terminating NUL
    return _patch(E, '__init__', init)


def _mut_early_done():
    import cflib.crazyflie.param as paramm
    P = paramm.Param

    def refresh_toc(self, refresh_done_callback, toc_cache):
        def refresh_done():
            ext = [e for g in self.toc.toc for e in self.toc.toc[g].values() if e.is_extended()]
            if ext:
                f = paramm._ExtendedTypeFetcher(self.cf, self.toc)
                f.start()
                f.request_extended_types(ext)
            refresh_done_callback()                 # does not wait for the extended types
        self._useV2 = self.cf.platform.get_protocol_version() >= 4
        paramm.TocFetcher(self.cf, paramm.ParamTocElement, paramm.CRTPPort.PARAM, self.toc, refresh_done,
                          toc_cache).start()
    return _patch(P, 'refresh_toc', refresh_toc)


def _mut_ext_any():
    import struct
    import cflib.crazyflie.param as paramm
    X = paramm._ExtendedTypeFetcher

    def cb(self, pk):
        if pk.channel == paramm.MISC_CHANNEL:
            var_id = struct.unpack('<H', pk.data[1:3])[0]
            if True:                                 # any reply counts, not only the requested id
                if pk.data[3] == paramm.ParamTocElement.EXTENDED_PERSISTENT:
                    self._toc.get_element_by_id(var_id).mark_persistent()
                self._count -= 1
                if self._count == 0:
                    if self._done_callback is not None:
                        self._done_callback()
                    self._close()
                self._req_param = -1
                try:
                    self._lock.release()
                except Exception:
                    pass
    return _patch(X, '_new_packet_cb', cb)


def _mut_byid():
    import cflib.crazyflie.toc as tocm

    def get_element_by_id(self, ident):
        for group in list(self.toc.keys()):
            for name in list(self.toc[group].keys()):
                if self.toc[group][name].ident >= ident:      # first element at or above the index
                    return self.toc[group][name]
        return None
    return _patch(tocm.Toc, 'get_element_by_id', get_element_by_id)


def _mut_cache_ext():
    import cflib.crazyflie.toccache as cm
    C = cm.TocCache
    orig = C._decoder

    def dec(self, obj):
        e = orig(self, obj)
        if isinstance(e, cm.ParamTocElement):
            e.extended = False                       # the cached table forgets the extended flag
        return e
    return _patch(C, '_decoder', dec)


def _mut_toc_len():
    import cflib.crazyflie.toc as tocm
    tocm.Toc.__len__ = lambda self: sum(len(v) for v in self.toc.values())   # an empty Toc becomes falsy

    def undo():
        del tocm.Toc.__len__
    return undo


def _mut_cache_tolerant():
    import cflib.crazyflie.toccache as cm
    C = cm.TocCache

    def dec(self, obj):
        if '__class__' in obj:
            elem = {'LogTocElement': cm.LogTocElement, 'ParamTocElement': cm.ParamTocElement}[obj['__class__']]()
            elem.ident = obj['ident']
            elem.group = str(obj['group'])
            elem.name = str(obj['name'])
            elem.ctype = str(obj['ctype'])
            elem.pytype = str(obj['pytype'])
            elem.access = obj['access']
            if isinstance(elem, cm.ParamTocElement):
                elem.extended = obj.get('extended', False)       # files of older releases are accepted
            return elem
        return obj
    return _patch(C, '_decoder', dec)


def _mut_platform_every_reply():
    """the connection set-up is started again by every protocol-version reply"""
    import cflib.crazyflie.platformservice as pm
    P = pm.PlatformService

    def cb(self, pk):
        if pk.channel == pm.VERSION_COMMAND and pk.data[0] == pm.VERSION_GET_PROTOCOL:
            self._protocolVersion = pk.data[1]
            fn = getattr(self, '_c03_last_callback', None) or self._callback
            if fn is not None:
                self._c03_last_callback = fn
                fn()
    return _patch(P, '_platform_callback', cb)


def _mut_stale_by_uri():
    """the left-over test of TocFetcher compares the URI instead of the link object"""
    import cflib.crazyflie.toc as tocm
    F = tocm.TocFetcher
    orig_start, orig_cb = F.start, F._new_packet_cb

    def start(self):
        orig_start(self)
        self._c03_uri = self.cf.link_uri

    def cb(self, packet):
        if self.cf.link is not None and self.cf.link_uri == getattr(self, '_c03_uri', None):
            self._link = self.cf.link            # same URI: taken for the same connection
        return orig_cb(self, packet)
    u1, u2 = _patch(F, 'start', start), _patch(F, '_new_packet_cb', cb)
    return lambda: (u1(), u2())


def _mut_version_reset_by_dup():
    """every link-source answer, also a duplicated late one, sets the protocol version back to -1"""
    import cflib.crazyflie.platformservice as pm
    P = pm.PlatformService
    orig = P._crt_service_callback

    def cb(self, pk):
        if pk.channel == pm.LINKSERVICE_SOURCE and self._callback is None:
            self._protocolVersion = -1
        return orig(self, pk)
    return _patch(P, '_crt_service_callback', cb)


MUTANTS.update({
    'stale_by_uri': _mut_stale_by_uri,
    'version_reset_by_dup': _mut_version_reset_by_dup,
    'accept_ge': _fetcher_variant('accept_ge'),
    'toc_len': _mut_toc_len,
    'cache_tolerant': _mut_cache_tolerant,
    'platform_every_reply': _mut_platform_every_reply,
    'last_index': _fetcher_variant('last_index'),
    'accept_any': _fetcher_variant('accept_any'),
    'trunc8': _fetcher_variant('trunc8'),
    'info_u8': _fetcher_variant('info_u8'),
    'access_mask': _mut_access_mask,
    'log_name': _mut_log_name,
    'early_done': _mut_early_done,
    'ext_any': _mut_ext_any,
    'byid': _mut_byid,
    'cache_ext': _mut_cache_ext,
})


# --------------------------------------------------------------------------- scenario sources
SIZES_V2 = [0, 1, 2, 3, 254, 255, 256, 257, 258, 300]
SIZES_V1 = [0, 1, 2, 3, 254, 255]
PVER_V2 = [4, 5, 10]
PVER_V1 = [0, 1, 3, -1]        # -1: the link service does not answer with the magic string -> no version -> V1
FAULT_ACTS = [['deliver', 'dup'], ['deliver', 'dup', 'dup'], [['hold', 1]], [['hold', 2]], [['hold', 3]],
              [['hold', 1], 'dup'], [['hold', 6]],
              # a duplicate that arrives 1 / 2 / 4 downlink packets after the original
              ['deliver', ['hold', 1]], ['deliver', ['hold', 2]], ['deliver', ['hold', 4]]]
SETUP_ACTS = [['deliver', 'dup'], ['deliver', ['hold', 1]], ['deliver', ['hold', 2]], ['deliver', ['hold', 3]],
              ['deliver', ['hold', 5]], [['hold', 1]], [['hold', 2]]]


def pick_crcs(rng, cls=None):
    """table checksums.  'elem': the bytes of an INFO reply parse as a TOC element (log: low byte a
    type code 1..8; param: known type nibble and a NUL among the other bytes); 'zeros': leading
    zero hex digits; 'plain': anything.  Log and param checksums differ (DESIGN 3.1(7))."""
    cls = cls or rng.choice(['elem', 'elem', 'plain', 'zeros'])
    if cls == 'elem':
        lb = [rng.randint(1, 8)] + [rng.choice([0, rng.randint(1, 255)]) for _ in range(3)]
        pb = [rng.choice(tocdev.PARAM_CODES) | rng.choice([0, 0x10, 0x40, 0x50]), rng.randint(1, 255), rng.randint(1, 255),
              rng.randint(1, 255)]
        pb[rng.randint(1, 3)] = 0
        lc, pc = int.from_bytes(bytes(lb), 'little'), int.from_bytes(bytes(pb), 'little')
    elif cls == 'zeros':
        lc, pc = rng.randrange(1 << 16), rng.randrange(1 << 20)
    else:
        lc, pc = rng.randrange(1 << 32), rng.randrange(1 << 32)
    if lc == pc:
        pc ^= 0x01000000
    return {'log': lc, 'param': pc}


def make_scenario(rng, nl, npar, pver, resend=True, faults=None, policy=('fifo', 0), style='mixed', **kw):
    v2 = pver >= 4
    sc = {'log': tocdev.gen_table('log', nl, v2, rng, style), 'param': tocdev.gen_table('param', npar, v2, rng, style),
          'pver': pver, 'resend': resend, 'faults': faults or {}, 'policy': list(policy)}
    sc['crc'] = pick_crcs(rng)
    sc.update(kw)
    return sc


def _nreplies(sc, kind):
    n = 1 + len(sc[kind]) + (1 if kind == 'log' else 0)      # log: RESET reply, INFO, items
    if kind == 'param':
        n += sum(1 for e in sc['param'] if e['type'] & 0x10)
    return n


def scenarios(tier, rng):
    """(family, scenario) list.  Round 2 added: setup (set-up replies outside the downloads duplicated /
    delayed), reset (Log.reset after connected), cachefmt (cache file variants, ro/rw directory), late
    duplicates in every fault list, element-like checksums.  Families: sizes (every table size of the property x both protocol
    generations, no faults / one fault), small (sizes 0..3, every single fault position x action and
    pairs of them), boundary (one fault around index 255/256 and at the last index), cache (second
    connect served from the cache the library wrote itself), random (seeded: sizes up to 40, fault
    density, schedules with ticks)."""
    quick = tier == 'quick'
    out = []
    # -- sizes
    for v2 in (True, False):
        sizes = SIZES_V2 if v2 else SIZES_V1
        pvs = PVER_V2 if v2 else PVER_V1
        big = [n for n in sizes if n > 3]
        small = [n for n in sizes if n <= 3]
        pairs = [(a, b) for a in small for b in small]
        if quick:
            pairs = pairs[::3]
            bigpairs = [(big[i], big[-1 - i]) for i in range(len(big))][::2]
            if not v2:
                bigpairs.append((0, big[-1]))
        else:
            bigpairs = [(a, b) for a in big for b in big if (a + b) % 2 == 0 or a == b] + [(0, big[-1]), (big[-1], 0)]
        for i, (a, b) in enumerate(pairs + bigpairs):
            out.append(('sizes', make_scenario(rng, a, b, pvs[i % len(pvs)], resend=(i % 3 != 0),
                                               style=['mixed', 'latin1'][i % 2])))
    # -- small tables: faults at every position
    for v2 in (True, False):
        for (a, b) in [(0, 0), (1, 1), (2, 3), (3, 2), (3, 3)]:
            base = make_scenario(rng, a, b, 10 if v2 else 3)
            base['crc'] = pick_crcs(rng, 'elem')      # a duplicated INFO reply looks like an element
            for kind in ('log', 'param'):
                nrep = _nreplies(base, kind)
                singles = [(k, act) for k in range(1, nrep + 1) for act in FAULT_ACTS]
                if quick:
                    # the set-up end of the download (RESET, INFO, first element) keeps every
                    # duplicate placement; the rest is thinned out
                    front = [(k, act) for (k, act) in singles if k <= 3 and len(act) > 1]
                    singles = front + [x for x in singles[::3] if x not in front]
                for (k, act) in singles:
                    sc = copy.deepcopy(base)
                    sc['faults'] = {kind: {str(k): act}}
                    out.append(('small', sc))
                npairs = 12 if quick else 120
                for _ in range(npairs):
                    sc = copy.deepcopy(base)
                    ks = rng.sample(range(1, nrep + 3), min(3, nrep + 2))
                    sc['faults'] = {kind: {str(k): rng.choice(FAULT_ACTS) for k in ks[:rng.randint(2, 3)]}}
                    sc['policy'] = [rng.choice(['fifo', 'random', 'pct']), rng.randrange(1 << 30), rng.choice([0.0, 0.05])]
                    out.append(('small', sc))
    # -- boundary: one fault around the 8-bit boundary / at the last index, big tables
    cases = [(2, 257), (2, 258), (2, 300), (2, 256), (1, 255), (1, 254)]
    if quick:
        cases = [(2, 257), (1, 255)]
    for (ver, n) in cases:
        ks = sorted({1, 2, 255, 256, 257, 258, 259, n, n + 1} & set(range(1, n + 2)))
        if quick:
            ks = [k for k in ks if k in (257, 256)][:1 if ver == 1 else 2]
        for j, k in enumerate(ks):
            acts = FAULT_ACTS[:4] if not quick else [FAULT_ACTS[j % 4]]
            for ai, act in enumerate(acts):
                kind = ['log', 'param'][(j + ai) % 2]
                nl, npar = (n, 3) if kind == 'log' else (3, n)
                sc = make_scenario(rng, nl, npar, 10 if ver == 2 else 3, faults={kind: {str(k): act}})
                out.append(('boundary', sc))
    # -- cache: miss then hit (the cache file is the one the library wrote at the first connect)
    csizes = [(0, 0), (1, 1), (3, 3), (2, 7), (12, 9)] + ([(257, 40)] if quick else [(257, 256), (300, 3), (5, 300), (255, 255)])
    for i, (a, b) in enumerate(csizes):
        for v2 in (True, False):
            if not v2 and max(a, b) > 255:
                continue
            reps = 1 if (quick or max(a, b) > 50) else 6
            for r in range(reps):
                f = {}
                if r:
                    f = {rng.choice(['log', 'param']): {str(rng.randint(1, 4)): rng.choice(FAULT_ACTS)}}
                out.append(('cache', make_scenario(rng, a, b, 10 if v2 else 3, faults=f, cache=True, connects=2,
                                                   resend=(r % 2 == 0))))
    # -- cache with decoys: device checksums with leading zero hex digits, other tables' files whose
    #    names end in the same digits (a file-name match on fewer than 8 digits would take them)
    for i, (a, b) in enumerate([(1, 1), (3, 2), (0, 4)] if quick else [(1, 1), (3, 2), (0, 4), (12, 9), (2, 0)]):
        for (lc, pc, decoys) in ((0x0003BEEF, 0x00000A1C, [(0x1A23BEEF, 'log'), (0xDEAD0A1C, 'param'), (0x7003BEEF, 'param')]),
                                 (0x00000000, 0x0BCDEF12, [(0x10000000, 'log'), (0xABCDEF12, 'param'), (0x00000001, 'log')])):
            out.append(('cache', make_scenario(rng, a, b, 10 if i % 2 == 0 else 3, cache=True, connects=2,
                                               crc={'log': lc, 'param': pc}, decoys=decoys)))
    for (a, b) in [(2, 3), (1, 5)]:
        out.append(('cache', make_scenario(rng, a, b, 10, cache=True, connects=2, early_notify=[0, 2])))
    # -- setup: the other replies of the connection set-up (link-service source, protocol version,
    #    memory count) duplicated at once, duplicated with the copy arriving 1..5 packets later, delayed
    k = 0
    for (a, b) in [(0, 0), (1, 1), (3, 2)]:
        for pver in (10, 3, -1):
            base = make_scenario(rng, a, b, pver)
            for pos in (1, 2, 3):
                for act in SETUP_ACTS:
                    k += 1
                    if quick and k % 3:
                        continue
                    sc = copy.deepcopy(base)
                    sc['faults'] = {'setup': {str(pos): act}}
                    if k % 5 == 0:
                        sc['faults']['log'] = {str(1 + k % 3): rng.choice(FAULT_ACTS)}
                    out.append(('setup', sc))
    # -- setup on big tables: a late duplicate of the link-source / version reply must not change the
    #    protocol generation the tables are fetched with (V2 device, more than 255 entries)
    for (a, b, pos, j) in ([(300, 3, 1, 1), (3, 257, 1, 2)] if quick else
                           [(300, 3, 1, 1), (3, 257, 1, 2), (257, 258, 1, 3), (300, 2, 2, 1), (2, 300, 2, 2)]):
        out.append(('setup', make_scenario(rng, a, b, 10, faults={'setup': {str(pos): ['deliver', ['hold', j]]}})))
    # -- reconnect: the link dies in the middle of a download, the application opens the link again on
    #    the SAME Crazyflie object -- to the same URI (the normal case) or another one -- and the device
    #    has been reflashed in between: larger tables, other checksums.  Only the second attempt connects.
    k = 0
    # (old tables, new tables, table whose download is interrupted, reply the link dies on); the new
    # table is much larger than the old one so that a fetcher that survived finishes long before it
    cases = [((3, 2), (14, 2), 'log', 3), ((3, 2), (14, 1), 'log', 4), ((4, 1), (16, 2), 'log', 5),
             ((2, 2), (2, 12), 'param', 2), ((1, 3), (2, 14), 'param', 3), ((3, 3), (6, 5), 'log', 2),
             ((0, 2), (9, 2), 'log', 1), ((2, 1), (3, 9), 'param', 1)]
    for (old, new, kind, pos) in cases:
        for pver in (10, 3):
            k += 1
            sc = make_scenario(rng, new[0], new[1], pver, same_uri=(k % 4 != 0))
            for e in sc['param'][:2]:
                e['type'] &= ~0x10          # the small table is through at once
            o = make_scenario(rng, old[0], old[1], pver)
            sc['reconnect'] = {'log': o['log'], 'param': o['param'], 'crc': o['crc'],
                               'faults': {kind: {str(pos): ['fail']}}, 'pause': [0.05, 0.5, 1.2][k % 3]}
            if k % 5 == 0:
                sc['faults'] = {'log': {str(rng.randint(1, 4)): rng.choice(FAULT_ACTS)}}
            out.append(('reconnect', sc))
    # -- reset: the application resets the log subsystem after connected (one more RESET reply),
    #    also with an empty log table and with duplicated RESET replies
    for (a, b) in [(0, 2), (2, 2), (0, 0)]:
        for pver in (10, 3):
            for f in ({}, {'log': {'1': ['deliver', 'dup']}}, {'log': {'1': ['deliver', ['hold', 1]]}},
                      {'log': {'1': ['deliver', ['hold', 2]]}}):
                out.append(('reset', make_scenario(rng, a, b, pver, faults=f, post_reset=True)))
    # -- cachefmt: what an application restart may find under the table's checksum: a file of an
    #    older release (no 'extended' key), of a later one (extra keys), a truncated / garbage /
    #    incomplete file; in the read-write or in the read-only directory.  The tables hold
    #    persistent parameters; `connected` must show the device's table whatever the file is.
    k = 0
    for (a, b) in [(2, 4), (0, 3), (3, 1)]:
        for v2 in (True, False):
            for how in ('old', 'extra', 'trunc', 'garbage', 'nokey'):
                for kinds in (('param',), ('log',), ('log', 'param')):
                    k += 1
                    if quick and k % 3 != 1:
                        continue
                    sc = make_scenario(rng, a, b, 10 if v2 else 3, cache=True, connects=2,
                                       cache_edit={kd: how for kd in kinds}, cache_ro=(k % 2 == 0))
                    for j, e in enumerate(sc['param']):
                        if j % 2 == 0:               # extended + persistent
                            e['type'] |= 0x10
                            e['xt'] = 1
                    if k % 4 == 0:
                        sc['faults'] = {rng.choice(['log', 'param']): {str(rng.randint(1, 3)): rng.choice(FAULT_ACTS)}}
                    out.append(('cachefmt', sc))
    # -- random
    for _ in range(250 if quick else 4000):
        pver = rng.choice(PVER_V2 + PVER_V1)
        a, b = rng.choice([0, 1, 2, 3, 5, 9, 17, 40]), rng.choice([0, 1, 2, 3, 5, 9, 17, 40])
        sc = make_scenario(rng, a, b, pver, resend=rng.random() < 0.8, style=rng.choice(['mixed', 'latin1', 'short']))
        dens = rng.choice([0.0, 0.05, 0.2, 0.5])
        f = {}
        for kind in ('log', 'param'):
            f[kind] = {str(k): rng.choice(FAULT_ACTS) for k in range(1, _nreplies(sc, kind) + 4) if rng.random() < dens}
        sc['faults'] = f
        sc['policy'] = [rng.choice(['fifo', 'random', 'pct']), rng.randrange(1 << 30), rng.choice([0.0, 0.0, 0.03, 0.1])]
        if rng.random() < 0.15:
            sc['faults']['setup'] = {str(rng.randint(1, 3)): rng.choice(SETUP_ACTS)}
        if rng.random() < 0.15:
            sc['cache'] = True
            sc['connects'] = 2
            if rng.random() < 0.4:
                sc['cache_edit'] = {rng.choice(['log', 'param']): rng.choice(['old', 'extra', 'trunc', 'garbage', 'nokey'])}
                sc['cache_ro'] = rng.random() < 0.5
        elif rng.random() < 0.1:
            sc['post_reset'] = True
        out.append(('random', sc))
    return out


def _jsonable(sc):
    sc = copy.deepcopy(sc)
    for kind in ('log', 'param'):
        for e in sc[kind] + (sc['reconnect'][kind] if sc.get('reconnect') else []):
            for k in ('group', 'name', 'value', 'default'):
                if k in e:
                    e[k] = list(e[k])
    return sc


def _unjson(sc):
    sc = copy.deepcopy(sc)
    for kind in ('log', 'param'):
        for e in sc[kind] + (sc['reconnect'][kind] if sc.get('reconnect') else []):
            for k in ('group', 'name', 'value', 'default'):
                if k in e:
                    e[k] = bytes(e[k])
    return sc


# --------------------------------------------------------------------------- workers
def _init():
    vsched.load_cflib()
    tocdev.install()


def _exec_job(job):
    sc, mutant = job
    try:
        return execute(sc, mutant)
    except common.MachineryError:
        raise
    except Exception as e:                    # harness trouble must not look like a verdict
        if mutant:
            return {'dev': {'log': [], 'param': []}, 'ev': [], 'expect': 1, 'detail': {'crash': repr(e)}}
        raise


def run_scenarios(scs, mutant=None):
    return common.pmap(_exec_job, [(sc, mutant) for sc in scs], init=_init, maxtasks=40)


def _replay_job(job):
    return replay(job)


def run_replays(jobs):
    return common.pmap(_replay_job, jobs, init=_init, maxtasks=40)


# --------------------------------------------------------------------------- judging
def judge(out, traces, label, count=True):
    """all traces through TLC (monitor + conformance).  Returns [(index, clause, at, witness)],
    number of drifting traces, number of traces that did not connect as often as expected."""
    for i, t in enumerate(traces):
        t['id'] = i + 1
    slim = [{k: v for k, v in t.items() if k != 'detail'} for t in traces]
    # big traces cost seconds each, small ones milliseconds: balance the batches by size
    order = sorted(range(len(slim)), key=lambda i: -len(slim[i]['ev']))
    nb = max(1, min(common.NCPU, len(slim) // 2 or 1))
    verdicts = {}
    st = {'states': 0, 'transitions': 0, 'wall_s': 0.0, 'batches': 0}
    buckets = [[] for _ in range(nb)]
    load = [0] * nb
    for i in order:
        j = load.index(min(load))
        buckets[j].append(slim[i])
        load[j] += len(slim[i]['ev']) + 20
    buckets = [b for b in buckets if b]
    res = common.pmap(_validate_bucket, buckets, nproc=len(buckets))
    for v, s1 in res:
        verdicts.update(v)
        for k in ('states', 'transitions', 'wall_s', 'batches'):
            st[k] += s1[k]
    if count:
        out.traces += len(traces)
        out.states += st['states']
        out.transitions += st['transitions']
        out.tlc_runs.append({'config': 'TRACE_TocFetch (%s)' % label, 'states': st['states'],
                             'transitions': st['transitions'], 'wall_s': round(st['wall_s'], 2),
                             'traces': len(traces), 'batches': st['batches']})
    bad, drift, unconnected = [], [], []
    for i, t in enumerate(traces):
        clause, at, conf, conf_at, wit, nconn = verdicts[t['id']]
        if clause != 'ok':
            bad.append((i, clause, at, wit))
        elif not conf:
            drift.append((i, conf_at))
        if nconn < t.get('expect', 1):
            unconnected.append(i)
    return bad, drift, unconnected


def _validate_bucket(bucket):
    return common.validate_traces('TocFetchTrace.tla', 'TRACE_TocFetch.cfg', bucket, chunk=len(bucket), nproc=1,
                                  env=TRACE_ENV, timeout=3000)


def signature(trace, clause, at, wit):
    """violated clause + table + protocol generation + where in the table (index class) + what
    kind of disturbance the download of that table saw"""
    kind, k = (wit + ['', 0])[:2] if isinstance(wit, list) else ('', 0)
    idx = k - 1
    n = len(trace['dev'].get(kind, [])) if kind else 0
    if idx < 0:
        cls = 'none'
    elif idx >= 256:
        cls = 'idx>=256'
    elif idx == 255:
        cls = 'idx=255'
    elif idx == n - 1:
        cls = 'last'
    elif idx == 0:
        cls = 'first'
    else:
        cls = 'mid'
    ver = next((e['ver'] for e in trace['ev'] if e['e'] == 'start'), 0)
    seen = {e['e'] for e in trace['ev'][:max(at, 0)] if e.get('kind') == kind}
    cached = any(e['e'] == 'start' and e['kind'] == kind and e['cached'] != 'none' for e in trace['ev'][:max(at, 0)])
    dist = '+'.join(sorted(seen & {'dup', 'timeout'})) or 'clean'
    when = trace['ev'][at - 1]['e'] if 0 < at <= len(trace['ev']) else '?'
    sdup = (trace.get('detail') or {}).get('setup_dups')
    if sdup:
        # a duplicated set-up reply outside the two downloads: the signature names it and stays coarse
        return '%s/%s/setup-dup:%s' % (clause, kind or '-', '+'.join(sdup))
    fmt = sorted({e['cached'] for e in trace['ev'][:max(at, 0)] if e['e'] == 'start' and e.get('kind') == kind
                  and e['cached'] not in ('none', 'own')})
    if fmt:
        dist += '+file:' + '+'.join(fmt)
    return '%s/%s/v%d/%s/%s%s/at-%s' % (clause, kind or '-', ver, cls, dist, '+cache' if cached else '', when)


# --------------------------------------------------------------------------- the check
def _summary(sc):
    return {'pver': sc['pver'], 'log_entries': len(sc['log']), 'param_entries': len(sc['param']),
            'resend': sc['resend'], 'faults': sc['faults'], 'policy': sc['policy'],
            'connects': sc.get('connects', 1), 'cache': bool(sc.get('cache')),
            'cache_edit': sc.get('cache_edit'), 'cache_ro': bool(sc.get('cache_ro')),
            'post_reset': bool(sc.get('post_reset')), 'same_uri': bool(sc.get('same_uri')),
            'reconnect': ({'log_entries': len(sc['reconnect']['log']), 'param_entries': len(sc['reconnect']['param']),
                           'faults': sc['reconnect']['faults']} if sc.get('reconnect') else None), 'crc': {k: '%08X' % v for k, v in (sc.get('crc') or {}).items()}}


def mutant_suite(rng, tier):
    """(scenario, mutants it is meant for | None = all): duplicated / late replies at every
    position of small tables, a table beyond 256 entries, the last index, a cache hit"""
    out = []
    for v2 in ((True,) if tier == 'quick' else (True, False)):
        base = make_scenario(rng, 3, 4, 10 if v2 else 3)
        for e, t in zip(base['param'], (0x48, 0x19, 0x06, 0x50)):     # RO, extended persistent, plain, RO+extended
            e['type'] = t
            e['xt'] = 1 if t & 0x10 else 0
            e['value'] = e['default'] = bytes(tocdev.PARAM_WIDTH[t & 0x0F])
        for kind in ('log', 'param'):          # entries 0 and 2 share a group: dict order != index order
            for e, g in zip(base[kind], (b'A', b'B', b'A', b'C')):
                e['group'] = g
            base[kind][2]['name'] = bytes(base[kind][0]['name'][:20]) + b'x'
        base['crc'] = pick_crcs(rng, 'elem')
        out.append((base, None))
        for kind in ('log', 'param'):
            for k in range(1, _nreplies(base, kind) + 1):
                for act in ((['deliver', 'dup'], ['deliver', ['hold', 1]]) if tier == 'quick' else
                            (['deliver', 'dup'], ['deliver', ['hold', 1]], [['hold', 1]])):
                    sc = copy.deepcopy(base)
                    sc['faults'] = {kind: {str(k): act}}
                    out.append((sc, ('accept_any', 'accept_ge', 'toc_len', 'ext_any', 'early_done', 'last_index')))
    big = ('trunc8', 'info_u8', 'last_index')
    out.append((make_scenario(rng, 258, 3, 10), big))
    if tier != 'quick':
        out.append((make_scenario(rng, 3, 300, 5), big))
        out.append((make_scenario(rng, 255, 2, 3), big))
    c = make_scenario(rng, 2, 4, 10, cache=True, connects=2)
    for e, t in zip(c['param'], (0x18, 0x19, 0x06, 0x50)):
        e['type'] = t
        e['xt'] = 1
        e['value'] = e['default'] = bytes(tocdev.PARAM_WIDTH[t & 0x0F])
    out.append((c, None))
    # a cache file of a release without extended types under the param checksum; persistent parameters
    for ro in (False, True):
        c2 = copy.deepcopy(c)
        c2['cache_edit'] = {'param': 'old'}
        c2['cache_ro'] = ro
        out.append((c2, ('cache_tolerant', 'cache_ext')))
    # a duplicated protocol-version / link-source reply that arrives later
    for pos in (1, 2):
        for j in (1, 2, 3):
            sc = make_scenario(rng, 3, 2, 10, faults={'setup': {str(pos): ['deliver', ['hold', j]]}})
            out.append((sc, ('platform_every_reply',)))
    # the application resets the log subsystem of a device with an empty log table
    out.append((make_scenario(rng, 0, 2, 10, post_reset=True), ('toc_len',)))
    # link failure in the middle of the log download, reconnect to the same URI, reflashed device
    for pos in (3, 4):
        sc = make_scenario(rng, 14, 1, 10, same_uri=True)
        sc['param'][0]['type'] &= ~0x10
        o = make_scenario(rng, 3, 2, 10)
        sc['reconnect'] = {'log': o['log'], 'param': o['param'], 'crc': o['crc'], 'faults': {'log': {str(pos): ['fail']}}}
        out.append((sc, ('stale_by_uri',)))
    # a late duplicate of the link-source answer, V2 device with more than 255 log entries
    out.append((make_scenario(rng, 258, 2, 10, faults={'setup': {'1': ['deliver', ['hold', 1]]}}), ('version_reset_by_dup',)))
    return out


def main(tier, seed, replay=None):
    out = common.Outcome('C03', tier, seed)
    rng = random.Random(seed)
    quick = tier == 'quick'
    out.assumptions = [
        'device tables are legal: distinct group.name entries, names of 1..N bytes from 1..255 without "." (the '
        'complete-name lookup splits at "."), fitting one 30-byte CRTP packet (len(group)+len(name) <= 24 for V2, 25 for V1)',
        'log items carry a bare type code 1..8 (tools/crtp-dissector.lua lists no access flag for log items); their access attribute is 0',
        'parameter type byte: low nibble type code, 0x10 extended, 0x20 core (ignored), 0x40 read-only (dissector); '
        'persistent = extended and the device answers extended type 1',
        'pytype is compared as the representation of the C type; for the parameter FP16 code the library has none (accepted)',
        'V1 tables have at most 255 entries (8-bit count); protocol version < 4 (or no version service) = V1, >= 4 = V2',
        'log and param tables have different CRCs (DESIGN 3.1(7)); replies are duplicated, delayed or stale but not lost or corrupted',
        'the property is conditional on connected; an execution with only duplicated/delayed/stale replies that never '
        'signals connected is nevertheless reported (clause NeverConnected): the quantifier is about exactly these executions',
        'the firmware twin (simdev TocTable/ParamService) follows the dissector layouts; the extended-type query is answered for V1 devices too',
        'every reply of the connection set-up may be duplicated (at once or 1..5 packets later) or delayed: link-service source, '
        'protocol version, log RESET, table INFO, items, extended types, memory count; table checksums are arbitrary, in '
        'particular such that the bytes of an INFO reply parse as a table element',
        'cache present = whatever an earlier run may have left under the table\'s checksum in the read-write or read-only '
        'directory with the RIGHT table in it or unusable: written by this release, by an older one (no extended key), by a '
        'later one (extra keys), truncated, garbage, an entry without a needed key; connected must show the device\'s table in every case',
    ]
    if replay:
        rp = json.load(open(replay))['replay']
        _init()
        if 'job' in rp:
            t = globals()['replay'](rp['job'])[0]
        else:
            t = execute(_unjson(rp['scenario']))
        bad, _d, _u = judge(out, [t], 'replay')
        for (i, clause, at, wit) in bad:
            out.violation(signature(t, clause, at, wit), clause, {'event_index': at, 'witness': wit}, rp)
        if _u and not bad:
            out.violation('NeverConnected/replay', 'NeverConnected', {'detail': t.get('detail')}, rp)
        return out.finish()

    import time as _time
    timing = out.extra.setdefault('timing_s', {})
    _t = [_time.time()]

    def lap(name):
        timing[name] = round(_time.time() - _t[0], 1)
        if os.environ.get('VERIF_TIMING'):
            import sys
            print('[C03 timing] %s %.1fs' % (name, timing[name]), file=sys.stderr)
        _t[0] = _time.time()
    # 1. design spec: exhaustive; every bug configuration must be refuted (vacuity guard)
    # 2. spec -> code: a transition tour of the complete state graph (every order of replies,
    #    duplicates and timeouts the fault budget allows) + random simulation of larger tables
    #    (the TLC runs are independent processes: started together)
    from concurrent.futures import ThreadPoolExecutor
    cfgs = ['MC_TocFetch_quick.cfg', 'MC_TocFetch_boundary_quick.cfg'] if quick else \
           ['MC_TocFetch_thorough.cfg', 'MC_TocFetch_boundary.cfg', 'MC_TocFetch_deep.cfg']
    bugs = ('offbyone', 'acceptany', 'earlydone', 'accessmask', 'trunc8',
            'accepthigher', 'resetguard', 'versionrestarts', 'oldcache', 'stalefetcher')
    gcfg = 'MC_TocFetch_quick.cfg' if quick else 'MC_TocFetch_tour.cfg'
    nsim = 150 if quick else 1000
    w = max(2, common.NCPU // 4)
    with ThreadPoolExecutor(max_workers=8) as ex:
        chk = cfgs[1:] if quick else cfgs
        f_chk = [ex.submit(tlc.check, 'MC_TocFetch.tla', cfg, coverage=(not quick and 'boundary' not in cfg),
                           timeout=3000, workers=(w if 'boundary' in cfg else 2), heap='3g') for cfg in chk]
        f_bug = [ex.submit(tlc.expect_violation, 'MC_TocFetch.tla', 'MC_TocFetch_bug_%s.cfg' % bug, timeout=900, workers=2, heap='2g')
                 for bug in bugs]
        f_dump = ex.submit(tlc.dump_graph, 'MC_TocFetch.tla', gcfg, timeout=3000, workers=1, coverage=not quick, heap='3g')
        f_sim = ex.submit(tlc.simulate, 'MC_TocFetch.tla', 'SIM_TocFetch.cfg', num=nsim, depth=50,
                          seed=seed % 100000, timeout=1800, heap='3g')
        rg, g = f_dump.result()
        out.add_tlc(gcfg + ' (exhaustive, graph dumped)', rg)       # the dump run is the exhaustive check of gcfg
        for cfg, f in zip(chk, f_chk):
            out.add_tlc(cfg, f.result())
        for bug, f in zip(bugs, f_bug):
            rb = f.result()
            out.sensitivity['spec:' + bug] = 'refuted (%s) after %d states' % (rb.violated, rb.distinct)
        rs, behs = f_sim.result()
    lap('1_design_spec_tlc')
    paths, covered, total = tlc.tour(g, max_len=60)
    jobs = []
    for init, path in paths:
        beh = [('Init', g.states[init])] + [(lab, g.states[dst]) for lab, dst in path]
        j = behaviour_job(beh)
        if j:
            jobs.append(j)
    ntour = len(jobs)
    out.add_tlc('SIM_TocFetch.cfg (-simulate num=%d)' % nsim, rs)
    jobs += [j for j in (behaviour_job(b) for b in behs) if j]
    lap('2a_graph_tour_simulate')
    rres = run_replays(jobs)
    lap('2b_replay_real_code')
    rtraces = [r[0] for r in rres]
    steps = sum(r[1] for r in rres)
    matched = sum(r[2] for r in rres)
    mism = [(i, r[3]) for i, r in enumerate(rres) if r[3]]
    out.conformance['spec_to_code'] = {'behaviours': len(jobs), 'tour_paths': ntour, 'graph_edges': total,
                                       'graph_edges_covered': covered, 'steps': steps, 'steps_matched': matched,
                                       'first_mismatches': [str(m)[:300] for m in mism[:3]]}
    # 3. code -> spec: enumerated and seeded-random scenarios; everything recorded from the real
    #    code (replays included) is judged by TLC: monitor = verdict, conformance = binding
    fam_scs = scenarios(tier, rng)
    scs = [x[1] for x in fam_scs]
    traces = run_scenarios(scs)
    lap('3a_run_scenarios')
    nr = len(rtraces)
    bad, drift, unconn = judge(out, rtraces + traces, 'real code: replays + scenarios')
    lap('3b_judge_all_traces')
    fams = {}
    for (f, _sc) in fam_scs:
        fams[f] = fams.get(f, 0) + 1
    out.conformance['code_to_spec'] = {'traces': nr + len(traces),
                                       'explained_by_design_spec': nr + len(traces) - len(drift),
                                       'drift_examples': [({'scenario': _summary(scs[i - nr])} if i >= nr else
                                                           {'replayed_cfg': str(jobs[i]['cfg'])[:200]}, at)
                                                          for i, at in drift[:3]]}
    for (i, clause, at, wit) in bad:
        if i < nr:
            out.violation(signature(rtraces[i], clause, at, wit), clause,
                          {'event_index': at, 'witness': wit, 'source': 'replayed TLC behaviour'}, {'job': jobs[i]})
        else:
            i -= nr
            out.violation(signature(traces[i], clause, at, wit), clause,
                          {'event_index': at, 'witness': wit, 'family': fam_scs[i][0], 'scenario': _summary(scs[i]),
                           'detail': traces[i].get('detail')},
                          {'scenario': _jsonable(scs[i])})
    # Executions in which nothing but duplicated / delayed / stale replies happen always reach
    # `connected` on the tree as given (asserted here over every tier and seed).  The property is
    # conditional on `connected`, but its quantifier ("regardless of duplicated, stale or delayed
    # replies") is about exactly these executions: a download that does not survive them is reported
    # (clause NeverConnected), not hidden as a machinery failure.
    for i in unconn[:20]:
        if i < nr:
            out.violation('NeverConnected/replayed-behaviour', 'NeverConnected',
                          {'source': 'replayed TLC behaviour', 'cfg': str(jobs[i]['cfg'])[:300]}, {'job': jobs[i]})
        else:
            sc_ = scs[i - nr]
            sd_ = (traces[i - nr].get('detail') or {}).get('setup_dups')
            out.violation('NeverConnected/%s' % (('setup-dup:' + '+'.join(sd_)) if sd_ else fam_scs[i - nr][0]), 'NeverConnected',
                          {'family': fam_scs[i - nr][0], 'scenario': _summary(sc_), 'detail': traces[i - nr].get('detail')},
                          {'scenario': _jsonable(sc_)})
    all_traces = rtraces + traces
    out.evaluations = len(all_traces)
    out.distinct = len({json.dumps([t['dev'], [(e['e'], e.get('kind'), e.get('d')) for e in t['ev']
                                                if e['e'] in ('dup', 'timeout', 'rx')]], sort_keys=True)
                        for t in all_traces})
    out.extra['families'] = fams
    out.extra['connected_events'] = sum(sum(1 for e in t['ev'] if e['e'] == 'connected') for t in all_traces)
    out.extra['dup_events'] = sum(sum(1 for e in t['ev'] if e['e'] == 'dup') for t in all_traces)
    out.extra['timeout_events'] = sum(sum(1 for e in t['ev'] if e['e'] == 'timeout') for t in all_traces)
    out.extra['cache_hits'] = sum(sum(1 for e in t['ev'] if e['e'] == 'start' and e['cached'] != 'none') for t in all_traces)
    out.rule = ('scenario = (log table, param table, protocol version, retry on/off, fault script per k-th reply, schedule '
                'policy, cache/2 connects); sources: transition tour over the complete state graph of %s (%d of %d edges) '
                'and TLC -simulate behaviours replayed step by step, table sizes {0,1,2,3,254..258,300} x V1/V2, every '
                'single fault position x action on tables of size 0..3, faults around index 255/256 and the last index, '
                'cache miss-then-hit and cache files of other formats (ro/rw), duplicated/delayed set-up replies '
                '(link source, version, RESET, memory count), Log.reset after connected, seeded random; distinct = distinct (tables, delivery history); every trace has >= 1 '
                'connected snapshot judged by TocFetchProps' % (gcfg, covered, total))
    out.exhaustive = bool(covered == total)
    pick = [0, len(traces) // 2, len(traces) - 1]
    out.samples = [{'scenario': _summary(scs[i]),
                    'events': [{k: v for k, v in e.items() if k not in ('log', 'param', 'lklog', 'lkparam')}
                               for e in traces[i]['ev'][:6]],
                    'library_param_table_at_connected': next((e['param'][:2] for e in traces[i]['ev'] if e['e'] == 'connected'), None)}
                   for i in pick]

    # observations outside the verdict (inputs the property's quantifier does not include)
    probe = make_scenario(random.Random(3), 2, 1, 10)
    probe['log'][1]['type'] = 0x21            # LOG_CORE | uint8_t: the dissector knows this flag for log items
    probe['max_wait'] = 12
    pt = run_scenarios([probe])[0]
    out.extra['observations'] = {
        'log_item_type_byte_with_flag_bit_0x20': 'connected=%d of 1 (LogTocElement looks the whole byte up in its type '
                                                 'table: KeyError, the download stalls); not judged' % pt['detail']['connected']}
    # 4. sensitivity: in-memory mutants of the code under test must be rejected by the monitor
    suite = mutant_suite(random.Random(seed + 1), tier)
    mjobs = [(sc, name) for name in sorted(MUTANTS) for (sc, only) in suite if only is None or name in only]
    mt = common.pmap(_exec_job, mjobs, init=_init, maxtasks=40)
    o2 = common.Outcome('C03', tier, seed)
    mbad, _md, mun = judge(o2, mt, 'mutants', count=False)
    for name in sorted(MUTANTS):
        idx = [i for i, j in enumerate(mjobs) if j[1] == name]
        rej = [(i, c) for (i, c, _a, _w) in mbad if i in idx]
        clauses = sorted({c for (_i, c) in rej})
        out.sensitivity['mutant:' + name] = '%d of %d traces rejected (%s); %d never connected' % (
            len(rej), len(idx), ','.join(clauses) or '-', sum(1 for i in mun if i in idx))
        if not rej:
            raise common.MachineryError('monitor did not reject in-memory mutant %s' % name)
    lap('4a_mutants')
    # binding self-tests on a recorded trace: a corrupted observation and a dropped protocol event
    src = next(t for t in traces if any(e['e'] == 'connected' and e['param'] for e in t['ev'])
               and sum(1 for e in t['ev'] if e['e'] == 'rx' and e['kind'] == 'param') >= 3)
    t1 = copy.deepcopy(src)
    ce = next(e for e in t1['ev'] if e['e'] == 'connected')
    ce['param'][0]['ident'] += 1
    t2 = copy.deepcopy(src)
    ce = next(e for e in t2['ev'] if e['e'] == 'connected')
    ce['lkparam'][0]['byid'] = []
    t3 = copy.deepcopy(src)
    del t3['ev'][next(i for i, e in enumerate(t3['ev']) if e['e'] == 'rx' and e['kind'] == 'param')]
    t4 = copy.deepcopy(src)
    rx = [e for e in t4['ev'] if e['e'] == 'rx' and e['kind'] == 'param'][1]
    rx['st']['reqIdx'] += 1
    o2 = common.Outcome('C03', tier, seed)
    tests = (('corrupt-ident-in-snapshot', t1, 'monitor'), ('corrupt-lookup-result', t2, 'monitor'),
             ('drop-one-rx-event', t3, 'conform'), ('corrupt-projection', t4, 'conform'))
    cbad, cdrift, _u = judge(o2, [t for (_n, t, _w) in tests], 'corrupted', count=False)
    for k, (name, t, want) in enumerate(tests):
        hit_m = any(i == k for (i, _c, _a, _w2) in cbad)
        hit_c = any(i == k for (i, _a) in cdrift)
        ok = hit_m if want == 'monitor' else (hit_c or hit_m)
        out.sensitivity['binding:' + name] = ('rejected by %s' % want) if ok else 'ACCEPTED'
        if not ok:
            raise common.MachineryError('trace spec accepted corrupted trace %s' % name)
    lap('4b_binding_tests')
    return out.finish()
