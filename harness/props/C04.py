"""C04 -- parameter writes and reads are typed correctly and never cross-attributed.

spec/ParamProto.tla (design), spec/ParamProtoProps.tla (the property: typed codec + protocol
clauses), spec/ParamProtoTrace.tla (monitor + step-by-step conformance).

Real code: cflib.crazyflie.param.Param + _ParamUpdater thread + the dispatcher thread of a real
Crazyflie connected through sim:// to a simulated device whose parameter service answers only
when the scenario's schedule says so (arbitrary reply delays) and sends unsolicited
value-changed notifications.  User calls come from 1-3 virtual threads.

One execution is a sequence of *steps*: a step is one grant of the virtual scheduler (a thread
runs from one synchronisation operation to the next) or one device action.  The recorded trace
holds a step marker per step (which design-spec action it corresponds to) followed by the
observable events the step produced.  The monitor uses the observables only."""
import copy
import json
import math
import random
import struct

from .. import common, tlc, vsched
from ..simdev import core as sd
from ..simdev import services as sv
from ..vsched import core as vcore

# --------------------------------------------------------------------------- own type table
# [fw param.h] type nibble: bits 0-1 size (1,2,4,8 bytes), bit 2 float, bit 3 unsigned
TYPES = [0x08, 0x09, 0x0A, 0x0B, 0x00, 0x01, 0x02, 0x03, 0x06, 0x07]
CMD = {'store': 3, 'getstate': 4, 'clear': 5, 'getdefault': 6}     # [fw param_logic.c MISC_*]
MISC = set(CMD)


def width(t):
    return 1 << (t & 3)


def is_float(t):
    return bool(t & 4)


def is_unsigned(t):
    return bool(t & 8)


def int_range(t):
    bits = 8 * width(t)
    return (0, (1 << bits) - 1) if is_unsigned(t) else (-(1 << (bits - 1)), (1 << (bits - 1)) - 1)


# ---- representation conversions (Python value <-> what the TLA+ modules read)
def int_repr(v):
    m, mag = abs(v), []
    while m:
        mag.append(m & 0xFF)
        m >>= 8
    return {'k': 'int', 'neg': v < 0, 'mag': mag}


def f64_repr(x):
    return {'k': 'f64', 'b': list(struct.pack('<d', x))}       # IEEE-754 binary64 pattern of the float


def str_repr(t, s):
    """a cached value string (Param.values / callback argument) as a number of the type's kind"""
    if s is None:
        return {'k': 'none'}
    try:
        if is_float(t):
            return f64_repr(float(s))
        return int_repr(int(s))
    except (ValueError, TypeError, OverflowError):
        return {'k': 'bad'}


def typed_bytes(t, n):
    """own encoder, used for projections / payload logging only (never for the verdict)"""
    if n is None:
        return None
    if is_float(t):
        try:
            return list(struct.pack('<f' if width(t) == 4 else '<d', float(n)))
        except (OverflowError, struct.error):
            return None
    lo, hi = int_range(t)
    n = int(n)
    if not lo <= n <= hi:
        return None
    return list((n % (1 << (8 * width(t)))).to_bytes(width(t), 'little'))


def py_value(val):
    """scenario value -> the Python object handed to set_value"""
    if val is None:
        return None
    if val['py'] == 'int':
        return int(val['v'])
    if val['py'] == 'float':
        return float.fromhex(val['hex']) if val['hex'] not in ('nan', 'inf', '-inf') else float(val['hex'])
    if val['py'] == 'str':
        return str(val['v'])
    raise ValueError(val)


def req_repr(val, t):
    """the requested value as the monitor reads it: an integer for integer types, the binary64
    pattern of the real number for float types"""
    if val is None:
        return {'k': 'none'}
    v = py_value(val)
    if isinstance(v, str):
        v = float(v) if (is_float(t) or any(c in v for c in '.enai')) else int(v)
    if isinstance(v, float):
        return f64_repr(v)
    if is_float(t):
        return f64_repr(float(v))          # scenarios only use integers that are exact in binary64
    return int_repr(v)


def fval(x):
    if math.isnan(x):
        return {'py': 'float', 'hex': 'nan'}
    if math.isinf(x):
        return {'py': 'float', 'hex': 'inf' if x > 0 else '-inf'}
    return {'py': 'float', 'hex': x.hex()}


def ival(n):
    return {'py': 'int', 'v': int(n)}


# --------------------------------------------------------------------------- device side
class ParamDev(sv.ParamService):
    """simdev.ParamService + [fw param_logic.c paramGetDefaultValue]: read-only parameters have
    no default value (ENOENT); + scripted value-changed notification emitted just before the answer
    to the extended-type request of a parameter (connect phase); records the extended types answered."""

    def __init__(self, table, connect_ntf=None):
        super().__init__(table)
        self.connect_ntf = dict(connect_ntf or {})      # index -> new value bytes
        self.ext_answers = {}

    def handle(self, pk):
        d = bytes(pk.data)
        ents = self.table.entries
        if pk.channel == 3 and len(d) >= 3 and d[0] == 6:
            i = d[1] | (d[2] << 8)
            if i < len(ents) and ents[i]['type'] & 0x40:
                self.requests.append((pk.channel, d))
                return [sd.reply(sv.PORT_PARAM, 3, d[:3] + bytes([2]))]
        if pk.channel == 3 and len(d) >= 3 and d[0] == 2:
            i = d[1] | (d[2] << 8)
            pre = []
            if i in self.connect_ntf:
                ents[i]['value'] = bytes(self.connect_ntf.pop(i))
                pre = [self.notify(i)]
            rep = super().handle(pk)
            if rep:
                self.ext_answers[i] = bytes(rep[0].data)[3]
            return pre + rep
        return super().handle(pk)


class ManualDevice(sd.Device):
    """After `manual` is switched on, port-2 requests are queued and served only when the
    controller calls answer(): the reply delay is a scheduling choice."""

    def __init__(self, *a, **kw):
        super().__init__(*a, **kw)
        self.manual = False
        self.pending = []
        self.emitted = []            # (kind, packet, wire index) of every packet emitted in manual mode
        self.n_ans = 0
        self.on_tx = None
        self.on_down = None

    def uplink(self, link, pk):
        if self.manual and link is self.link and pk.port == sv.PORT_PARAM and pk.channel in (1, 2, 3):
            self.up_n += 1
            self.pending.append(pk)
            self.on_tx(pk, len(self.pending))
            return
        return super().uplink(link, pk)

    def answer(self):
        pk = self.pending.pop(0)
        for r in self.services[sv.PORT_PARAM].handle(pk):
            self.n_ans += 1
            self.emitted.append(('ans', r, self.n_ans))
            self.on_down('ans', r, self.n_ans)
            self._deliver(self.link, r, 'deliver')

    def duplicate(self, j):
        """the link delivers a second copy of the j-th emitted packet (an answer)"""
        kind, r, w = self.emitted[j - 1]
        self.emitted.append(('dup', r, w))
        self.on_down('dup', r, w)
        self._deliver(self.link, r, 'dup')

    def notify(self, i, value):
        ent = self.services[sv.PORT_PARAM].table.entries[i]
        ent['value'] = bytes(value)
        r = self.services[sv.PORT_PARAM].notify(i)
        self.emitted.append(('ntf', r, 0))
        self.on_down('ntf', r, 0)
        self._deliver(self.link, r, 'deliver')


def norm_cb(c):
    """update callback of a scenario: [id, scope, ref (, script kind, target, registered at the start)]"""
    c = list(c)
    return c + ['nop', 0, True][len(c) - 3:] if len(c) < 6 else c


def make_entries(params):
    ents = []
    for i, p in enumerate(params):
        tb = p['type'] | (0x40 if p['ro'] else 0) | (0x10 if p['pers'] else 0)
        ents.append({'group': ('g%d' % p['group']).encode(), 'name': ('p%d' % (i + 1)).encode(), 'type': tb,
                     'value': bytes(p['init']), 'default': bytes(p['default']), 'ext': 1 if p['pers'] else 0,
                     'stored': bytes(p['stored']) if p['stored'] else None})
    return ents


def pname(params, p):
    if p == 0:
        return 'g1.nope'
    return 'g%d.p%d' % (params[p - 1]['group'], p)


# --------------------------------------------------------------------------- one execution
def _is_user(key):
    return key[0] == 'u' and key[1:].isdigit()


class Chooser:
    """Picks the next step among the enabled actors.  kinds: random, pct, burst, fifo, script."""

    def __init__(self, spec):
        self.kind = spec[0]
        self.rng = random.Random(spec[1] if len(spec) > 1 and not isinstance(spec[1], list) else 0)
        self.script = list(spec[1]) if self.kind == 'script' else []
        self.i = 0
        self.prio = {}
        self.drift = 0
        self.n = 0
        self.change = set(self.rng.randrange(1, 120) for _ in range(3)) if self.kind == 'pct' else set()
        self.low = 0

    def choose(self, keys):
        self.n += 1
        if self.kind == 'script':
            while self.i < len(self.script):
                want = self.script[self.i]
                self.i += 1
                if want in keys:
                    return want
                self.drift += 1
            return keys[0]
        if self.kind == 'fifo':
            return keys[0]
        if self.kind in ('slowdev', 'slowdisp'):   # the device (the dispatcher) moves only rarely
            slow = 'ans' if self.kind == 'slowdev' else 'disp'
            rest = [k for k in keys if k != slow]
            if rest and self.rng.random() < 0.93:
                return rest[self.rng.randrange(len(rest))]
            return keys[self.rng.randrange(len(keys))]
        if self.kind == 'burst':           # users first: as many requests pending as possible
            us = [k for k in keys if _is_user(k)]
            if us and self.rng.random() < 0.9:
                return us[self.rng.randrange(len(us))]
            return keys[self.rng.randrange(len(keys))]
        if self.kind == 'pct':
            for k in keys:
                if k not in self.prio:
                    self.prio[k] = self.rng.random() + 1.0
            best = max(keys, key=lambda k: self.prio[k])
            if self.n in self.change:
                self.low -= 1
                self.prio[best] = self.low
                best = max(keys, key=lambda k: self.prio[k])
            return best
        return keys[self.rng.randrange(len(keys))]


def execute(sc, mutant=None, want_projection=False):
    """Run one scenario against the real code; returns the trace dict."""
    import cflib.crazyflie as cfm
    from cflib.crtp.crtpstack import CRTPPort
    params = sc['params']
    np_ = len(params)
    ev = []
    st = {'on': False, 'cur': {}, 'rid': 0, 'nrx': 0}
    names = {pname(params, p): p for p in range(1, np_ + 1)}
    proj = []
    detail = {}
    with vsched.scheduler(vsched.FifoPolicy(), max_steps=100000) as s:
        w = sd.set_world(sd.World())
        dev = ManualDevice({
            sv.PORT_LINK: sv.LinkService(), sv.PORT_PLATFORM: sv.PlatformService(10),
            sv.PORT_LOG: sv.LogService(sv.TocTable([{'group': b'pm', 'name': b'vbat', 'type': 7}], 0x11111111)),
            sv.PORT_PARAM: ParamDev(sv.TocTable(make_entries(params), 0x22220000 + (sc.get('crc', 0) & 0xFFFF)),
                                    {p - 1: v for (p, v) in sc.get('connect_ntf', [])}),
            sv.PORT_MEM: sv.MemoryService([])}, mode='sync')
        ents = dev.services[sv.PORT_PARAM].table.entries
        w.add('0', dev)
        cf = cfm.Crazyflie(rw_cache=None)
        upd = cf.param.param_updater
        if mutant:
            mutant(cf, 'pre')

        def me():
            r = s.current()
            return r.name if r is not None else None

        # ---- observation points (instance level, /repo untouched)
        q = upd.request_queue
        q_put = q._put

        def logged_put(item):
            if st['on']:
                ev.append({'e': 'issue', 'rid': st['cur'].get(st.get('actor', 0), 0), 'chan': item.channel,
                           'data': list(item.data)})
            q_put(item)
        q._put = logged_put

        def on_rx(pk):
            if st['on'] and pk.port == CRTPPort.PARAM and pk.channel in (1, 2, 3):
                st['nrx'] += 1
                ev.append({'e': 'rx', 'chan': pk.channel, 'data': list(pk.data)})
        cf.packet_received.add_callback(on_rx)

        holds = sc.get('holds', [])
        due = []                             # virtual time at which the device may answer each pending request

        def on_tx(pk, n):
            ev.append({'e': 'tx', 'chan': pk.channel, 'data': list(pk.data)})
            k = st.get('ntx', 0)
            st['ntx'] = k + 1
            due.append(s.now + (holds[k] if k < len(holds) else 0.0))
        dev.on_tx = on_tx
        def on_down(kind, r, w):
            if kind == 'ntf':
                ev.append({'e': 'ntf', 'chan': r.channel, 'data': list(r.data)})
            else:
                ev.append({'e': kind, 'chan': r.channel, 'data': list(r.data), 'w': w})
        dev.on_down = on_down

        def cached(name):
            g, n = name.split('.')
            try:
                return cf.param.values[g][n]
            except (KeyError, TypeError):
                return None

        def got(name):
            try:
                return cf.param.get_value(name)
            except Exception:
                return None

        cbdefs = {c[0]: norm_cb(c) for c in sc['updcbs']}
        cbfun, registered = {}, []          # id -> closure; ids registered now (harness-side book-keeping)

        def api_register(cid, on):
            _cid, scope, ref, _k, _t, _r = cbdefs[cid]
            fn = cbfun[cid]
            if scope == 'all':
                if on:
                    cf.param.add_update_callback(cb=fn)
                else:
                    cf.param.all_update_callback.remove_callback(fn)     # (remove_update_callback cannot address it)
            elif scope == 'group':
                if on:
                    cf.param.add_update_callback(group='g%d' % ref, cb=fn)
                else:
                    cf.param.remove_update_callback('g%d' % ref, cb=fn)
            else:
                g, n = pname(params, ref).split('.')
                if on:
                    cf.param.add_update_callback(group=g, name=n, cb=fn)
                else:
                    cf.param.remove_update_callback(g, n, fn)
            if on:
                registered.append(cid)
            else:
                registered.remove(cid)

        def make_upd_cb(cid):
            _cid, _scope, _ref, kind, target, _reg0 = cbdefs[cid]

            def cb(name, value):
                p = names.get(name, 0)
                t = params[p - 1]['type'] if p else 0
                e = {'e': 'upd', 'cb': cid, 'p': p, 'arg': str_repr(t, value),
                     'cache': str_repr(t, cached(name)), 'get': str_repr(t, got(name)), 'ops': []}
                try:
                    if kind == 'removeSelf' and cid in registered:
                        api_register(cid, False)
                        e['ops'].append(['remove', cid])
                    elif kind == 'remove' and target in registered:
                        api_register(target, False)
                        e['ops'].append(['remove', target])
                    elif kind == 'add' and target not in registered:
                        api_register(target, True)
                        e['ops'].append(['add', target])
                finally:
                    ev.append(e)
            cb._c04_cid = cid
            return cb

        # ---- connect (real handshake: platform, log toc, mem, param toc, extended types, all values)
        done = {}
        cf.fully_connected.add_callback(lambda uri: done.setdefault('fc', True))

        def setup():
            cf.open_link('sim://0/1')
        s.spawn(setup, 'setup')
        why = s.run(until=lambda: done.get('fc'), horizon=60.0)
        if not done.get('fc'):
            raise common.MachineryError('simulated connect did not complete (%s): %s' % (why, s.report()))
        t2 = s.spawn(lambda: cf.link_statistics.stop(), 'setup')
        s.run(until=lambda: t2.finished, horizon=s.now + 5.0)
        if not t2.finished:
            raise common.MachineryError('could not stop link statistics')
        if mutant:
            mutant(cf, 'post')
        upd = cf.param.param_updater
        init_cache = [str_repr(p['type'], cached(pname(params, i + 1))) for i, p in enumerate(params)]
        persistent_seen = [bool(cf.param.toc.get_element_by_complete_name(pname(params, i + 1)).is_persistent())
                           for i in range(np_)]
        for c in sc['updcbs']:
            cbfun[c[0]] = make_upd_cb(c[0])
        for c in sc['updcbs']:
            if norm_cb(c)[5]:
                api_register(c[0], True)
        base_cbs = len(cf.incoming.cb)
        init_dev = [list(e['value']) for e in ents]          # what the device holds now (= what was fetched)
        for i in sorted(dev.services[sv.PORT_PARAM].ext_answers):
            ev.append({'e': 'ext', 'p': i + 1, 'dev': dev.services[sv.PORT_PARAM].ext_answers[i], 'lib': persistent_seen[i]})

        # ---- user threads
        ops = [list(x) for x in sc['users']]
        nxt = [0] * len(ops)
        mailbox = {}

        def misc_cb(rid, p, k):
            t = params[p - 1]['type']

            def cb(name, value):
                if k in ('store', 'clear'):
                    pay = [[1 if value else 0]]
                elif value is None:
                    pay = []
                elif k == 'getdefault':
                    pay = [typed_bytes(t, value) or []]
                else:
                    pay = [[1 if value.is_stored else 0], typed_bytes(t, value.default_value) or []]
                    if value.is_stored:
                        pay.append(typed_bytes(t, value.stored_value) or [])
                ev.append({'e': 'cb', 'rid': rid, 'pay': pay})
            cb._c04_rid = rid
            return cb

        def do_op(u, op):
            k, p, val = op
            st['rid'] += 1
            rid = st['rid']
            t = params[p - 1]['type'] if p else TYPES[0]
            name = pname(params, p)
            ev.append({'e': 'call', 'rid': rid, 'u': u, 'k': k, 'p': p, 'v': req_repr(val, t)})
            st['cur'][u] = rid
            exc = ''
            try:
                if k == 'set':
                    cf.param.set_value(name, py_value(val))
                elif k == 'read':
                    cf.param.request_param_update(name)
                elif k == 'get':
                    r = cf.param.get_value(name)
                    ev.append({'e': 'got', 'rid': rid, 'p': p, 'val': str_repr(t, r), 'nrx': st['nrx']})
                elif k == 'store':
                    cf.param.persistent_store(name, misc_cb(rid, p, k))
                elif k == 'clear':
                    cf.param.persistent_clear(name, misc_cb(rid, p, k))
                elif k == 'getstate':
                    cf.param.persistent_get_state(name, misc_cb(rid, p, k))
                elif k == 'getdefault':
                    cf.param.get_default_value(name, misc_cb(rid, p, k))
                else:
                    raise common.MachineryError('unknown op %r' % (k,))
            except common.MachineryError:
                raise
            except Exception as e:          # the API refuses by raising
                exc = type(e).__name__
            finally:
                st['cur'][u] = 0
            ev.append({'e': 'ret', 'rid': rid, 'exc': exc})

        def user_body(u):
            while True:
                s.yield_op(vcore.Op('user.op', ('user', u), lambda: True, lambda: None))
                op = mailbox.pop(u, None)
                if op is None:
                    return
                do_op(u, op)

        urecs = []
        for u in range(1, len(ops) + 1):
            rec = s.spawn(user_body, 'user', args=(u,))
            for _ in range(10):
                if rec.pending is not None and rec.pending.kind == 'user.op':
                    break
                s.step_thread(rec)
            urecs.append(rec)
        urec = s.by_name.get('_ParamUpdater#0')
        drec = s.by_name.get('_IncomingPacketHandler#0')
        known = set([urec, drec] + urecs)

        def action_of(key):
            if _is_user(key):
                u = int(key[1:])
                op = urecs[u - 1].pending
                if op.kind == 'user.op':
                    o = ops[u - 1][nxt[u - 1]]
                    t = params[o[1] - 1]['type'] if o[1] else TYPES[0]
                    return {'e': 'step', 'a': 'UBegin', 'u': u, 'op': {'k': o[0], 'p': o[1], 'v': req_repr(o[2], t)}}
                if op.kind == 'queue.put' and op.obj is upd.request_queue:
                    return {'e': 'step', 'a': 'UPut', 'u': u}
                return {'e': 'step', 'a': 'Other', 'u': u, 'what': op.kind}
            if key == 'upd':
                op = urec.pending
                a = 'Other'
                if op.kind == 'queue.get' and op.obj is upd.request_queue:
                    a = 'UpdGet'
                elif op.kind == 'lock.acquire' and op.obj is getattr(upd.wait_lock, '_real', upd.wait_lock):
                    a = 'UpdLock' if op.ready() else 'UpdLockTimeout'
                elif op.kind == 'lock.acquire' and op.obj is cf._send_lock:
                    a = 'UpdSend'
                elif op.kind == 'lock.release' and op.obj is cf._send_lock:
                    a = 'UpdDone'
                return {'e': 'step', 'a': a, 'u': 0, 'what': op.kind}
            if key == 'disp':
                op = drec.pending
                a = 'Other'
                if op.kind == 'queue.get':
                    a = 'DispRecv' if op.ready() else 'DispIdle'
                elif op.kind == 'lock.release' and op.obj is upd.wait_lock:
                    a = 'DispRel'
                return {'e': 'step', 'a': a, 'u': 0, 'what': op.kind}
            if key == 'ans':
                return {'e': 'step', 'a': 'DevAnswer', 'u': 0}
            if key == 'ntf':
                n = sc['notifs'][st.get('nn', 0)]
                return {'e': 'step', 'a': 'DevNotify', 'u': 0, 'n': {'p': n[0], 'v': list(n[1])}}
            if key == 'dup':
                return {'e': 'step', 'a': 'DevDup', 'u': 0, 'i': next_dup()}
            if key == 'tick':
                return {'e': 'step', 'a': 'Tick', 'u': 0, 't': int(round(next_deadline() * 1000))}
            return {'e': 'step', 'a': 'Other', 'u': 0, 'what': key}

        dups = sc.get('dups', [])

        def next_dup():
            """down index of the answer the next duplicate copies, or 0 if it cannot happen yet"""
            if st.get('nd', 0) >= len(dups):
                return 0
            how, x = dups[st.get('nd', 0)]
            answers = [j + 1 for j, e in enumerate(dev.emitted) if e[0] == 'ans']
            if how == 'down':
                return x if x in answers else 0
            return answers[x % len(answers)] if answers else 0

        def enabled_keys():
            runnable, _timed = s.enabled()
            keys = []
            for i, rec in enumerate(urecs):
                if rec in runnable and rec.pending is not None:
                    if rec.pending.kind == 'user.op':
                        if nxt[i] < len(ops[i]):
                            keys.append('u%d' % (i + 1))
                    else:
                        keys.append('u%d' % (i + 1))
            if urec in runnable:
                keys.append('upd')
            if drec in runnable and drec.pending is not None:
                keys.append('disp')            # a packet is there, or the 1 s poll ran out (virtual time)
            if dev.pending and due[0] <= s.now + 1e-9:
                keys.append('ans')
            if st.get('nn', 0) < len(sc['notifs']):
                keys.append('ntf')
            if next_dup():
                keys.append('dup')
            for rec in runnable:
                if rec not in known and rec.pending is not None and rec.pending.ready():
                    keys.append('t:' + rec.name)
            if next_deadline(relevant_only=True) is not None:
                keys.append('tick')            # (last: the fifo policy lets time pass only when nothing else can move)
            return keys

        def next_deadline(relevant_only=False):
            """earliest future deadline: a held device answer or a timed wait of a thread.  relevant_only: is
            anything but the dispatcher's idle poll waiting for time to pass?"""
            ds = []
            if dev.pending and due[0] > s.now + 1e-9:
                ds.append(due[0])
            for rec in s.threads:
                op = rec.pending
                if op is None or rec.finished or op.deadline is None or op.ready() or op.deadline <= s.now:
                    continue
                if relevant_only and (rec is drec or rec not in known):
                    continue
                ds.append(op.deadline)
            return min(ds) if ds else None

        def typed_cache():
            out = []
            for i, p in enumerate(params):
                sv_ = cached(pname(params, i + 1))
                r = None
                try:
                    r = typed_bytes(p['type'], (float(sv_) if is_float(p['type']) else int(sv_)))
                except (TypeError, ValueError):
                    pass
                out.append(r)
            return out

        def projection():
            uop, dop = urec.pending, drec.pending
            upc = '?'
            if uop is not None:
                upc = {('queue.get', True): 'get'}.get((uop.kind, uop.obj is upd.request_queue), None) or \
                    ('lock' if uop.kind == 'lock.acquire' and uop.obj is upd.wait_lock else
                     'send' if uop.kind == 'lock.acquire' else 'unlock' if uop.kind == 'lock.release' else '?')
            dpc = '?'
            if dop is not None:
                dpc = 'recv' if dop.kind == 'queue.get' else 'rel' if dop.kind == 'lock.release' else '?'
            lp = upd._lock_pattern
            rc, rc_rid = getattr(upd, '_reply_callback', None), 0
            if rc is not None:
                rc_rid = -1
                for cell in (getattr(rc, '__closure__', None) or ()):
                    try:
                        rc_rid = getattr(cell.cell_contents, '_c04_rid', rc_rid)
                    except ValueError:
                        pass
            real_regs = set()
            callers = list(cf.param.param_update_callbacks.values()) + list(cf.param.group_update_callbacks.values()) + \
                [cf.param.all_update_callback]
            for c in callers:
                for fn in c.callbacks:
                    real_regs.add(getattr(fn, '_c04_cid', -1))
            return {'regs': sorted(real_regs), 'replyCb': rc_rid, 'reqQ': len(upd.request_queue.queue), 'waitLock': bool(upd.wait_lock.locked()),
                    'lockPat': list(lp) if lp is not None else [], 'upc': upc, 'dpc': dpc,
                    'oneShots': len(cf.incoming.cb) - base_cbs, 'devq': len(dev.pending),
                    'inq': len(dev.link.in_queue.queue) if dev.link is not None else -1,
                    'dval': [list(e['value']) for e in ents],
                    'dstored': [list(e['stored']) if e.get('stored') else [] for e in ents],
                    'cache': typed_cache()}

        # ---- the run
        dev.manual = True
        st['on'] = True
        chooser = Chooser(sc['policy'])
        schedule = []
        budget = sc.get('max_steps', 2000)
        nsteps = 0
        while True:
            keys = enabled_keys()
            if not keys or nsteps >= budget:
                break
            key = chooser.choose(keys)
            nsteps += 1
            schedule.append(key)
            ev.append(action_of(key))
            if _is_user(key):
                u = int(key[1:])
                rec = urecs[u - 1]
                if rec.pending.kind == 'user.op':
                    mailbox[u] = ops[u - 1][nxt[u - 1]]
                    nxt[u - 1] += 1
                st['actor'] = u              # queue.put fires in controller context: remember whose step it is
                s.step_thread(rec)
                st['actor'] = 0
            elif key == 'upd':
                s.step_thread(urec)
            elif key == 'disp':
                s.step_thread(drec)
            elif key == 'ans':
                due.pop(0)
                dev.answer()
            elif key == 'tick':
                s.now = next_deadline()
            elif key == 'ntf':
                n = sc['notifs'][st.get('nn', 0)]
                st['nn'] = st.get('nn', 0) + 1
                dev.notify(n[0] - 1, n[1])
            elif key == 'dup':
                j = next_dup()
                st['nd'] = st.get('nd', 0) + 1
                dev.duplicate(j)
            else:
                s.step_thread(s.by_name[key[2:]])
            if want_projection:
                proj.append(projection())
        st['on'] = False
        rep = s.report()
        dead = [t for t in rep if t['status'] == 'dead']
        for i, p in enumerate(params):
            nm = pname(params, i + 1)
            ev.append({'e': 'final', 'p': i + 1, 'cache': str_repr(p['type'], cached(nm)),
                       'get': str_repr(p['type'], got(nm))})
        ev.append({'e': 'end', 'budget': nsteps >= budget, 'dead': bool(dead)})
        detail = {'schedule': schedule, 'drift': chooser.drift, 'steps': nsteps,
                  'dead': [t.get('traceback', '')[-500:] for t in dead],
                  'threads': [(t['name'], t['status'], t.get('op')) for t in rep if t['status'] not in ('finished',)]}
    cfg = {'np': np_, 'type': [p['type'] for p in params], 'ro': [bool(p['ro']) for p in params],
           'pers': [bool(p['pers']) for p in params], 'group': [p['group'] for p in params],
           'init': init_dev,
           'updcbs': [{'id': c[0], 'scope': c[1], 'ref': c[2], 'script': [c[3], c[4]], 'reg0': bool(c[5])}
                      for c in map(norm_cb, sc['updcbs'])],
           'default': [list(p['default']) for p in params],
           'stored0': [list(p['stored']) if p['stored'] else [] for p in params]}
    # binding sanity of the set-up itself (machinery, not verdict): the connect-time cache and the
    # persistent flags must be what the device table says
    detail['init_cache'] = init_cache
    detail['connect_ntf'] = sc.get('connect_ntf')
    detail['persistent_seen'] = persistent_seen
    out = {'cfg': cfg, 'ev': ev, 'detail': detail}
    if want_projection:
        out['proj'] = proj
    return out


# --------------------------------------------------------------------------- scenario sources
def P_(t, ro=False, pers=False, group=1, init=None, default=None, stored=None):
    w = width(t)
    return {'type': t, 'ro': ro, 'pers': pers, 'group': group, 'init': init if init is not None else [0] * w,
            'default': default if default is not None else [0] * w, 'stored': stored}


F32_MAX = 3.4028234663852886e38
F32_OVER = 3.4028235677973366e38          # smallest binary64 that rounds to 2^128 in binary32
F32_SUB = 1.401298464324817e-45           # 2^-149


def boundary_values(t, rng):
    """requested values for type t: the boundary classes of the property's quantifier + random"""
    out = []
    if is_float(t):
        xs = [0.0, -0.0, 1.0, -1.0, 1.5, 0.1, math.inf, -math.inf, math.nan, 1e308, -1e308, 5e-324,
              F32_MAX, -F32_MAX, math.nextafter(F32_OVER, 0.0), F32_OVER, -F32_OVER, 1e39, -1e39, 3.5e38,
              F32_SUB, F32_SUB / 2, math.nextafter(F32_SUB / 2, 1.0), 1.5 * F32_SUB, 2.0 ** -126,
              math.nextafter(2.0 ** -126, 0.0), 16777217.0, 16777219.0]
        for _ in range(6):
            xs.append(struct.unpack('<d', bytes(rng.randrange(256) for _ in range(8)))[0])
            xs.append(struct.unpack('<f', bytes(rng.randrange(256) for _ in range(4)))[0])
        out = [fval(x) for x in xs]
        out += [ival(0), ival(1), ival(-1), ival(16777216), ival(3), {'py': 'str', 'v': '2.5'}, {'py': 'str', 'v': '-7'}]
    else:
        lo, hi = int_range(t)
        ns = [lo - 1, lo, lo + 1, -1, 0, 1, hi - 1, hi, hi + 1, 1 << (8 * width(t)), -(1 << (8 * width(t))),
              (1 << 64), -(1 << 63) - 1, rng.randint(lo, hi), rng.randint(lo, hi), rng.randint(-(1 << 70), 1 << 70),
              hi + rng.randint(1, 1 << 20), lo - rng.randint(1, 1 << 20)]
        out = [ival(n) for n in ns]
        out += [{'py': 'str', 'v': str(rng.randint(lo, hi))}, {'py': 'str', 'v': str(hi + 1)}]
    return out


def rand_typed(t, rng, nan_ok=False):
    while True:
        b = [rng.randrange(256) for _ in range(width(t))]
        if is_float(t) and not nan_ok:
            x = struct.unpack('<f' if width(t) == 4 else '<d', bytes(b))[0]
            if math.isnan(x):
                continue
        return b


def rand_table(rng):
    """3-6 parameters; at least two persistent ones of the same type, a read-only one"""
    t0 = rng.choice(TYPES)
    ps = [P_(t0, pers=True, group=1), P_(t0, pers=True, group=rng.choice([1, 2]))]
    for _ in range(rng.randint(1, 4)):
        t = rng.choice(TYPES)
        ps.append(P_(t, ro=rng.random() < 0.25, pers=rng.random() < 0.5, group=rng.choice([1, 2])))
    if not any(p['ro'] for p in ps):
        ps.append(P_(rng.choice(TYPES), ro=True, group=2))
    rng.shuffle(ps)
    for p in ps:
        t = p['type']
        p['init'] = rand_typed(t, rng)
        p['default'] = rand_typed(t, rng)
        p['stored'] = rand_typed(t, rng) if (p['pers'] and rng.random() < 0.4) else None
    return ps


DELAYS = [0.5, 0.99, 1.0, 1.01, 2.5, 10.0]       # seconds of virtual time a reply is held by the device


def script_updcbs(rng, cbs):
    """give some of the callbacks a script that changes the registrations while an update is dispatched"""
    out = [norm_cb(c) for c in cbs]
    ids = [c[0] for c in out]
    for c in out:
        r = rng.random()
        if r < 0.3:
            c[3] = 'removeSelf'
        elif r < 0.45 and len(ids) > 1:
            c[3], c[4] = 'remove', rng.choice([i for i in ids if i != c[0]])
        elif r < 0.6 and len(ids) > 1:
            c[3], c[4] = 'add', rng.choice([i for i in ids if i != c[0]])
    for c in out:
        if any(d[3] == 'add' and d[4] == c[0] for d in out) and rng.random() < 0.7:
            c[5] = False
    return out


def callback_scenarios():
    """update callbacks (per name, per group, all) that remove themselves / remove another / add another while an
    update is dispatched; two answers and a notification for the parameter so that the changed registry is used again"""
    out = []
    params = [P_(0x08, group=1, init=[6], default=[5]), P_(0x08, group=1, init=[7], default=[9]), P_(0x09, group=2, init=[1, 0])]
    N, T, F = 'nop', True, False
    configs = [
        [[1, 'param', 1, 'removeSelf', 0, T], [2, 'param', 1, N, 0, T], [3, 'param', 1, N, 0, T]],
        [[1, 'group', 1, 'removeSelf', 0, T], [2, 'group', 1, N, 0, T], [3, 'all', 0, N, 0, T]],
        [[1, 'all', 0, 'removeSelf', 0, T], [2, 'all', 0, N, 0, T]],
        [[1, 'param', 1, 'remove', 2, T], [2, 'param', 1, N, 0, T], [3, 'all', 0, N, 0, T]],
        [[1, 'param', 1, 'remove', 2, T], [2, 'group', 1, N, 0, T], [3, 'all', 0, N, 0, T]],
        [[1, 'param', 1, 'add', 4, T], [2, 'all', 0, 'add', 5, T], [3, 'group', 1, N, 0, T], [4, 'param', 1, N, 0, F],
         [5, 'all', 0, 'removeSelf', 0, F]],
        [[1, 'param', 1, N, 0, T], [2, 'all', 0, 'remove', 1, T], [3, 'all', 0, N, 0, T]],
        [[1, 'param', 1, 'removeSelf', 0, T], [2, 'param', 1, 'removeSelf', 0, T], [3, 'param', 1, N, 0, T],
         [4, 'group', 1, 'add', 1, T]],
    ]
    progs = [[[['set', 1, ival(9)], ['read', 1, None], ['read', 2, None]]],
             [[['read', 1, None], ['set', 1, ival(3)]], [['read', 2, None], ['read', 1, None]]]]
    for cbs in configs:
        for users in progs:
            for ntf in ([], [[1, [4]]]):
                for pol in (['fifo', 0], ['random', 5], ['burst', 9]):
                    out.append({'params': copy.deepcopy(params), 'updcbs': copy.deepcopy(cbs), 'users': copy.deepcopy(users),
                                'notifs': ntf, 'policy': pol, 'crc': 12})
    return out


def hold_scenarios():
    """the device holds replies for 0.5 .. 10 s of virtual time while further requests are queued"""
    out = []
    params = [P_(0x08, pers=True, group=1, init=[6], default=[5]), P_(0x09, group=1, init=[7, 0], default=[9, 0]),
              P_(0x06, group=2, init=[0, 0, 192, 63], default=[0, 0, 128, 63])]
    progs = [[[['set', 1, ival(9)], ['set', 2, ival(300)]]],
             [[['read', 1, None], ['getstate', 1, None], ['set', 3, fval(2.5)]]],
             [[['set', 1, ival(9)], ['read', 2, None]], [['getdefault', 1, None], ['set', 2, ival(4)]]]]
    for d in DELAYS:
        for users in progs:
            for which in ([d], [0.0, d], [d, d, d]):
                for pol in (['fifo', 0], ['random', 11], ['burst', 4]):
                    out.append({'params': copy.deepcopy(params), 'updcbs': [[1, 'param', 1], [2, 'all', 0]],
                                'users': copy.deepcopy(users), 'notifs': [], 'holds': which, 'policy': pol, 'crc': 13})
    return out


def rand_updcbs(rng, params):
    cbs, cid = [], 0
    for _ in range(rng.randint(1, 5)):
        cid += 1
        r = rng.random()
        if r < 0.5:
            cbs.append([cid, 'param', rng.randint(1, len(params))])
        elif r < 0.75:
            cbs.append([cid, 'group', rng.choice([1, 2])])
        else:
            cbs.append([cid, 'all', 0])
    return cbs


def rand_op(rng, params):
    r = rng.random()
    np_ = len(params)
    rw = [i + 1 for i, p in enumerate(params) if not p['ro']]
    ro = [i + 1 for i, p in enumerate(params) if p['ro']]
    pers = [i + 1 for i, p in enumerate(params) if p['pers']]
    if r < 0.34:
        p = rng.choice(rw)
        t = params[p - 1]['type']
        vals = boundary_values(t, rng)
        v = rng.choice(vals)
        if params[p - 1]['pers'] and is_float(t) and v.get('hex') == 'nan':
            v = fval(1.0)                  # keep NaN out of stored values (payload comparison is byte-wise)
        return ['set', p, v]
    if r < 0.40:
        return ['set', rng.choice(ro) if ro and rng.random() < 0.7 else 0, ival(rng.randint(0, 3))]
    if r < 0.52:
        return ['read', rng.randint(1, np_) if rng.random() < 0.95 else 0, None]
    if r < 0.60:
        return ['get', rng.randint(1, np_), None]
    k = rng.choice(['store', 'clear', 'getstate', 'getstate', 'getdefault', 'getdefault'])
    if k == 'getdefault':
        return [k, rng.randint(1, np_), None]
    if pers and rng.random() < 0.93:
        return [k, rng.choice(pers), None]
    return [k, rng.randint(1, np_), None]


def gen_scenario(rng, big=False, misc_unique=False):
    """misc_unique: at most one query per misc command in the scenario (such programs do not depend on how
    reply callbacks are matched, so the other clauses are exercised to the end of the run)"""
    params = rand_table(rng)
    nu = rng.choice([1, 2, 2, 3, 3])
    users = [[rand_op(rng, params) for _ in range(rng.randint(1, 5 if big else 3))] for _ in range(nu)]
    if misc_unique:
        seen = set()
        for u in users:
            for op in u:
                if op[0] in MISC:
                    if op[0] in seen:
                        op[0], op[2] = 'read', None
                    seen.add(op[0])
    notifs = []
    for _ in range(rng.choice([0, 0, 1, 1, 2, 3 if big else 2])):
        p = rng.randint(1, len(params))
        notifs.append([p, rand_typed(params[p - 1]['type'], rng)])
    kind = rng.choice(['random', 'random', 'pct', 'pct', 'burst', 'fifo', 'slowdev', 'slowdev', 'slowdev', 'slowdisp'])
    cbs = rand_updcbs(rng, params)
    if rng.random() < 0.35:
        cbs = script_updcbs(rng, cbs)
    sc = {'params': params, 'updcbs': cbs, 'users': users, 'notifs': notifs,
          'policy': [kind, rng.randrange(1 << 30)], 'crc': rng.randrange(1 << 16)}
    if rng.random() < 0.25:
        sc['holds'] = [rng.choice(DELAYS + [0.0, 0.0]) for _ in range(rng.randint(1, 4))]
    if rng.random() < 0.3:
        # a retransmitting link delivers some answers twice; the protocol has no sequence numbers, so such a
        # run keeps the release patterns of its requests distinct (a second copy of an old answer cannot be
        # told from the answer to a later request with the same pattern)
        distinct_patterns(users)
        sc['dups'] = [['sel', rng.randrange(1000)] for _ in range(rng.randint(1, 3))]
    if rng.random() < 0.02:
        # the firmware changes a value by itself while the client is still connecting
        q = rng.choice([i + 1 for i, p in enumerate(params) if p['pers']])
        sc['connect_ntf'] = [[q, rand_typed(params[q - 1]['type'], rng)]]
    return sc


def distinct_patterns(users):
    """replace every request whose release pattern (read/write: the parameter; misc: command + parameter) was
    already used in this scenario by a get_value"""
    seen = set()
    for u in users:
        for op in u:
            if op[0] == 'get':
                continue
            key = ('v', op[1]) if op[0] in ('set', 'read') else (op[0], op[1])
            if key in seen:
                op[0], op[2] = 'get', None
                if op[1] == 0:
                    op[1] = 1
            seen.add(key)


def dup_scenarios():
    """every kind of answer delivered twice: right away, after the next request went out, at the very end"""
    out = []
    params = [P_(0x09, pers=True, group=1, init=[7, 1], default=[9, 0]), P_(0x09, pers=True, group=1, init=[5, 0], default=[3, 0]),
              P_(0x06, group=2, init=[0, 0, 192, 63], default=[0, 0, 128, 63])]
    firsts = [['read', 1, None], ['set', 1, ival(513)], ['getstate', 1, None], ['store', 1, None], ['clear', 1, None],
              ['getdefault', 1, None], ['set', 3, fval(2.5)]]
    seconds = [['read', 2, None], ['getstate', 2, None], ['set', 2, ival(77)]]
    for f in firsts:
        for snd in [None] + seconds:
            for two in (False, True):
                if two and snd is None:
                    continue
                ops = [f] + ([snd] if snd else [])
                users = [[f], [snd]] if two else [ops]
                for pol in (['fifo', 0], ['random', 3], ['slowdisp', 5], ['burst', 2]):
                    for nd in (1, 2):
                        out.append({'params': copy.deepcopy(params), 'updcbs': [[1, 'param', 1], [2, 'all', 0]],
                                    'users': copy.deepcopy(users), 'notifs': [], 'dups': [['sel', 0]] * nd,
                                    'policy': pol, 'crc': 11})
    return out


def codec_scenarios(rng):
    """Every type x every boundary class, one thread, sets followed by a read of the same parameter."""
    out = []
    for t in TYPES:
        vals = boundary_values(t, rng)
        for chunk in range(0, len(vals), 6):
            params = [P_(t, group=1, init=rand_typed(t, rng), default=rand_typed(t, rng)),
                      P_(TYPES[(TYPES.index(t) + 3) % len(TYPES)], group=2)]
            ops = []
            for v in vals[chunk:chunk + 6]:
                ops.append(['set', 1, v])
                ops.append(['get', 1, None])
            ops.append(['read', 1, None])
            out.append({'params': params, 'updcbs': [[1, 'param', 1], [2, 'all', 0]], 'users': [ops], 'notifs': [],
                        'policy': ['fifo', 0], 'crc': t})
    return out


def pair_scenarios():
    """Two queries of every pair of misc commands: same parameter / another parameter of the same type /
    of another type; from one thread and from two; all requests pending together and strictly sequential."""
    out = []
    kinds = ['store', 'clear', 'getstate', 'getdefault']
    for t in (0x08, 0x06, 0x03):
        other = 0x01 if t != 0x01 else 0x02
        params = [P_(t, pers=True, group=1, init=rand_typed(t, random.Random(t)), default=rand_typed(t, random.Random(t + 1))),
                  P_(t, pers=True, group=1, init=rand_typed(t, random.Random(t + 2)), default=rand_typed(t, random.Random(t + 3)),
                     stored=rand_typed(t, random.Random(t + 4))),
                  P_(other, pers=True, group=2, init=[1, 0], default=[3, 0])]
        for k1 in kinds:
            for k2 in kinds:
                for p2 in (1, 2, 3):
                    for two in (False, True):
                        for pol in (['burst', 1], ['fifo', 0], ['random', 7]):
                            users = [[[k1, 1, None]], [[k2, p2, None]]] if two else [[[k1, 1, None], [k2, p2, None]]]
                            out.append({'params': copy.deepcopy(params), 'updcbs': [[1, 'all', 0]], 'users': users,
                                        'notifs': [], 'policy': pol, 'crc': t})
    return out


def mutant_scenarios(rng, n):
    """Scenarios for the sensitivity runs: every feature present, but no two pending queries of one misc
    command (so that the unmutated code passes them whether or not the one-shot defect is repaired)."""
    out = []
    for i in range(n):
        r = random.Random(rng.randrange(1 << 60))
        params = [P_(0x09, group=1), P_(0x06, group=1), P_(r.choice(TYPES), pers=True, group=2),
                  P_(r.choice([0x00, 0x01, 0x02, 0x03]), group=2), P_(r.choice(TYPES), ro=True, group=1)]
        for p in params:
            p['init'], p['default'] = rand_typed(p['type'], r), rand_typed(p['type'], r)
        lo3, hi3 = int_range(params[3]['type'])
        pool = [['set', 1, ival(r.choice([40000, 65535, 32768, 7]))], ['set', 1, ival(r.choice([65536, -1, 70000]))],
                ['set', 2, fval(r.choice([1.75, 2.5, -3.25, 1e-3, 7.7]))], ['set', 2, fval(r.choice([1e39, -1e39]))],
                ['set', 4, ival(r.choice([lo3, hi3, -1, 5]))], ['set', 4, ival(r.choice([lo3 - 1, hi3 + 1]))],
                ['set', 5, ival(1)], ['set', 0, ival(1)], ['read', 1, None], ['read', 2, None], ['read', 4, None],
                ['read', 5, None], ['get', 1, None], ['get', 4, None], ['set', 1, ival(r.randint(0, 65535))],
                ['set', 4, ival(r.randint(lo3, hi3))], ['read', 1, None], ['set', 1, ival(r.randint(32768, 65535))]]
        misc = [[k, 3, None] for k in ('store', 'getstate', 'clear', 'getdefault')]
        r.shuffle(pool)
        r.shuffle(misc)
        ops = pool[:r.randint(5, 9)] + misc[:r.randint(0, 2)]
        r.shuffle(ops)
        nu = r.choice([2, 3])
        users = [ops[k::nu] for k in range(nu)]
        notifs = [[q, rand_typed(params[q - 1]['type'], r)] for q in [r.choice([1, 2, 4, 5]) for _ in range(r.randint(1, 3))]]
        out.append({'params': params, 'updcbs': [[1, 'param', 1], [2, 'group', 1], [3, 'all', 0], [4, 'param', 4]],
                    'users': users, 'notifs': notifs,
                    'policy': [r.choice(['slowdev', 'slowdev', 'burst', 'random', 'pct', 'slowdisp']), r.randrange(1 << 30)],
                    'crc': 99})
    # fixed schedule: a notification is dispatched while the first request is still unanswered
    params = [P_(0x08, pers=True, init=[6], default=[5]), P_(0x08, pers=True, init=[7], default=[9])]
    out[0] = {'params': params, 'updcbs': [[1, 'all', 0]], 'users': [[['set', 1, ival(9)], ['read', 2, None]]],
              'notifs': [[2, [3]]], 'crc': 98,
              'policy': ['script', ['u1', 'u1', 'u1', 'u1', 'upd', 'upd', 'upd', 'upd', 'ntf', 'disp', 'disp', 'upd', 'upd', 'upd',
                                    'upd', 'ans', 'ans', 'disp', 'disp', 'disp', 'disp']]}
    return out


def connect_ntf_scenarios():
    """a value-changed notification for a persistent parameter arrives while its extended type is being fetched;
    first value byte 1 (looks like "persistent") and not 1"""
    out = []
    for first in (1, 0, 7):
        for which in (1, 2):
            params = [P_(0x08, pers=True, init=[6], default=[5]), P_(0x09, pers=True, group=2, init=[7, 0], default=[9, 0]),
                      P_(0x08, init=[1], default=[1])]
            val = [first] if which == 1 else [first, 3]
            out.append({'params': params, 'updcbs': [[1, 'all', 0]],
                        'users': [[['getstate', which, None], ['read', which, None]]], 'notifs': [], 'policy': ['fifo', 0],
                        'crc': 5, 'connect_ntf': [[which, val]]})
    return out


WITNESS = {'params': [P_(0x08, pers=True, init=[6], default=[5]), P_(0x08, pers=True, init=[7], default=[9])],
           'updcbs': [[1, 'all', 0]], 'users': [[['getstate', 1, None], ['getstate', 2, None]]], 'notifs': [],
           'policy': ['burst', 0], 'crc': 1}
WITNESS_SAME = dict(WITNESS, users=[[['getstate', 1, None], ['store', 1, None], ['getstate', 1, None]]])


# --------------------------------------------------------------------------- TLC behaviours -> real code
ACTOR = {'UBegin': 'u', 'UPut': 'u', 'UpdGet': 'upd', 'UpdLock': 'upd', 'UpdSend': 'upd', 'UpdDone': 'upd',
         'DevAnswer': 'ans', 'DevNotify': 'ntf', 'DevDup': 'dup', 'DispRecv': 'disp', 'DispRel': 'disp'}


def repr_to_val(v):
    if v['k'] == 'int':
        n = sum(b << (8 * i) for i, b in enumerate(v['mag']))
        return ival(-n if v['neg'] else n)
    if v['k'] == 'f64':
        return fval(struct.unpack('<d', bytes(v['b']))[0])
    return None


def scenario_from_behaviour(beh):
    cf = beh[0][1]['cf']
    params = [{'type': cf['type'][i], 'ro': cf['ro'][i], 'pers': cf['pers'][i], 'group': cf['group'][i],
               'init': list(cf['init'][i]), 'default': list(cf['default'][i]),
               'stored': list(cf['stored0'][i]) or None} for i in range(cf['np'])]
    nu = len(beh[0][1]['ust'])
    users = [[] for _ in range(nu)]
    notifs, dups, script, acts = [], [], [], []
    for label, _st in beh[1:]:
        name, args = tlc.parse_label(label)
        acts.append(name)
        if name == 'UBegin':
            u, op = args
            users[u - 1].append([op['k'], op['p'], repr_to_val(op['v'])])
            script.append('u%d' % u)
        elif name == 'UPut':
            script.append('u%d' % args[0])
        elif name == 'DevNotify':
            notifs.append([args[0]['p'], list(args[0]['v'])])
            script.append('ntf')
        elif name == 'DevDup':
            dups.append(['down', args[0]])
            script.append('dup')
        else:
            script.append(ACTOR[name])
    sc = {'params': params, 'users': users,
          'updcbs': [[c['id'], c['scope'], c['ref'], c['script'][0], c['script'][1], c['reg0']] for c in cf['updcbs']],
          'notifs': notifs, 'dups': dups, 'policy': ['script', script], 'crc': 7}
    return sc, acts


def spec_projection(st):
    return {'regs': sorted(st['regs']), 'replyCb': st['replyCb']['rid'], 'reqQ': len(st['reqQ']), 'waitLock': st['waitLock'], 'lockPat': list(st['lockPat']), 'upc': st['upc'],
            'dpc': st['dpc'], 'oneShots': len(st['oneShots']), 'devq': len(st['devq']), 'inq': len(st['inq']),
            'dval': [list(x) for x in st['dval']], 'dstored': [list(x) for x in st['dstored']],
            'cache': [list(x) for x in st['cache']]}


def compact_behaviour(beh):
    sc, acts = scenario_from_behaviour(beh)
    return {'sc': sc, 'acts': acts, 'labels': [b[0] for b in beh[1:]],
            'projs': [spec_projection(b[1]) for b in beh[1:]]}


def _replay_job(cb):
    sc, acts = cb['sc'], cb['acts']
    t = execute(sc, want_projection=True)
    steps = [e for e in t['ev'] if e['e'] == 'step']
    n = len(acts)
    ok, first = 0, None
    for i in range(n):
        good = i < len(steps) and steps[i]['a'] == acts[i] and i < len(t['proj']) and t['proj'][i] == cb['projs'][i]
        if good:
            ok += 1
        elif first is None:
            first = {'step': i, 'label': cb['labels'][i], 'real_action': steps[i]['a'] if i < len(steps) else None,
                     'real': t['proj'][i] if i < len(t['proj']) else None, 'spec': cb['projs'][i]}
            break
    del t['proj']
    return {'trace': pack(t), 'sc': sc, 'steps': n, 'matched': ok, 'first': first, 'drift': t['detail']['drift']}


# --------------------------------------------------------------------------- in-memory mutants
class MutantSkipped(Exception):
    """the place a mutant patches does not exist in the tree under test"""


def _replace_port_cb(cf, old, new):
    cbs = cf.incoming.cb
    for i, c in enumerate(cbs):
        if c.callback == old:
            cbs[i] = c._replace(callback=new)
            return True
    raise MutantSkipped('port callback of _ParamUpdater not found among the registered callbacks')


def mut_wrap(cf):
    """set_value wraps out-of-range integers instead of raising"""
    from cflib.crazyflie.param import WRITE_CHANNEL
    from cflib.crtp.crtpstack import CRTPPacket, CRTPPort
    par = cf.param
    orig = par.set_value

    def set_value(name, value):
        el = par.toc.get_element_by_complete_name(name)
        if el is not None and el.access == 0 and el.pytype not in ('<f', '<d'):
            n = struct.calcsize(el.pytype)
            pk = CRTPPacket()
            pk.set_header(CRTPPort.PARAM, WRITE_CHANNEL)
            pk.data = struct.pack('<H', el.ident) + (int(value) % (1 << (8 * n))).to_bytes(n, 'little')
            par.param_updater.request_param_setvalue(pk)
            return
        return orig(name, value)
    par.set_value = set_value


def mut_ro(cf):
    """read-only parameters are written like any other"""
    from cflib.crazyflie.param import WRITE_CHANNEL
    from cflib.crtp.crtpstack import CRTPPacket, CRTPPort
    par = cf.param
    orig = par.set_value

    def set_value(name, value):
        el = par.toc.get_element_by_complete_name(name)
        if el is not None and el.access == 1:
            pk = CRTPPacket()
            pk.set_header(CRTPPort.PARAM, WRITE_CHANNEL)
            pk.data = struct.pack('<H', el.ident) + struct.pack(el.pytype, float(value) if el.pytype in ('<f', '<d') else int(value))
            par.param_updater.request_param_setvalue(pk)
            return
        return orig(name, value)
    par.set_value = set_value


def mut_lifo(cf):
    """the updater serves the newest request first"""
    q = cf.param.param_updater.request_queue
    q._get = lambda: q.queue.pop()


def mut_nowait(cf):
    """the updater does not wait for the previous answer"""
    class NoLock:
        def acquire(self, *a, **k):
            return True

        def release(self):
            pass

        def locked(self):
            return False
    cf.param.param_updater.wait_lock = NoLock()


def _packet_cb_variant(variant):
    def install(cf):
        from cflib.crazyflie.param import MISC_CHANNEL, READ_CHANNEL, WRITE_CHANNEL, MISC_VALUE_UPDATED
        upd = cf.param.param_updater

        def new_packet_cb(pk):
            if pk.channel == READ_CHANNEL or pk.channel == WRITE_CHANNEL:
                release_pattern = pk.data[:2]
                if pk.channel == READ_CHANNEL and variant != 'no_strip':
                    pk.data = pk.data[:2] + pk.data[3:]
                if upd._lock_pattern == release_pattern or variant == 'release_any':
                    upd.updated_callback(pk)
                    if variant == 'twice':
                        upd.updated_callback(pk)
                    if variant != 'no_reset':
                        upd._lock_pattern = None
                    try:
                        upd.wait_lock.release()
                    except Exception:
                        pass
            elif pk.channel == MISC_CHANNEL:
                if pk.data[0] == MISC_VALUE_UPDATED:
                    upd.updated_callback(pk)
                    if variant == 'release_any' and upd._lock_pattern is not None:
                        upd._lock_pattern = None
                        try:
                            upd.wait_lock.release()
                        except Exception:
                            pass
                        return
                release_pattern = pk.data[:3]
                if upd._lock_pattern == release_pattern:
                    reply_callback = getattr(upd, '_reply_callback', None)      # (absent in pre-fix trees)
                    upd._reply_callback = None
                    upd._lock_pattern = None
                    upd.wait_lock.release()
                    if reply_callback is not None:
                        reply_callback(pk)
        _replace_port_cb(cf, upd._new_packet_cb, new_packet_cb)
    return install


def mut_stale_cache(cf):
    """the update callbacks run but Param.values keeps the old value"""
    par = cf.param
    upd = par.param_updater
    orig = upd.updated_callback

    def updated(pk):
        if not par.is_updated:
            return orig(pk)
        saved = copy.deepcopy(par.values)
        orig(pk)
        par.values = saved
    upd.updated_callback = updated


def mut_u16_signed(cf):
    """uint16 parameters are packed/unpacked as int16"""
    from cflib.crazyflie.param import ParamTocElement
    old = ParamTocElement.types[0x09]
    ParamTocElement.types[0x09] = ('uint16_t', '<h')

    def undo():
        ParamTocElement.types[0x09] = old
    return undo


def mut_float_trunc(cf):
    """float parameters go through int() like the integer ones"""
    par = cf.param
    orig = par.set_value

    def set_value(name, value):
        el = par.toc.get_element_by_complete_name(name)
        if el is not None and el.pytype in ('<f', '<d'):
            try:
                value = int(float(value))
            except (ValueError, OverflowError):
                pass
        return orig(name, value)
    par.set_value = set_value


def mut_wrong_index(cf):
    """V1-style 8 bit index arithmetic: the index is sent +1"""
    par = cf.param
    upd = par.param_updater
    orig = upd.request_param_update

    def request_param_update(var_id):
        return orig(var_id + 1 if var_id is not None else var_id)
    upd.request_param_update = request_param_update


def mut_caller_live(cf):
    """Caller.call iterates the live callback list (no defensive copy)"""
    from cflib.utils.callbacks import Caller
    orig = Caller.call

    def call(self, *args):
        for cb in self.callbacks:
            cb(*args)
    Caller.call = call

    def undo():
        Caller.call = orig
    return undo


def mut_wait_timeout(cf):
    """the updater waits at most 1 s for the previous answer"""
    upd = cf.param.param_updater
    real = upd.wait_lock

    class TimedLock:
        _real = real

        def acquire(self, *a, **k):
            return real.acquire(timeout=1.0)

        def release(self):
            return real.release()

        def locked(self):
            return real.locked()
    upd.wait_lock = TimedLock()


MUTANTS = {
    'wrap_out_of_range': mut_wrap, 'readonly_not_refused': mut_ro, 'lifo_queue': mut_lifo, 'no_wait_lock': mut_nowait,
    'release_on_any_packet': _packet_cb_variant('release_any'),
    'update_callbacks_twice': _packet_cb_variant('twice'), 'read_status_not_stripped': _packet_cb_variant('no_strip'),
    'lock_pattern_not_reset': _packet_cb_variant('no_reset'), 'stale_cache': mut_stale_cache, 'uint16_as_int16': mut_u16_signed, 'float_truncated': mut_float_trunc,
    'read_wrong_index': mut_wrong_index, 'caller_live_iteration': mut_caller_live, 'wait_lock_timeout': mut_wait_timeout,
}


def patch_exttype_pre(cf):
    """emulation of the proposed repair 2: the extended-type fetcher only accepts MISC_GET_EXTENDED_TYPE replies"""
    from cflib.crazyflie import param as pm
    orig = pm._ExtendedTypeFetcher._new_packet_cb

    def new_packet_cb(self, pk):
        if pk.channel == pm.MISC_CHANNEL and pk.data[0] != pm.MISC_GET_EXTENDED_TYPE:
            return
        return orig(self, pk)
    pm._ExtendedTypeFetcher._new_packet_cb = new_packet_cb

    def undo():
        pm._ExtendedTypeFetcher._new_packet_cb = orig
    return undo


def patch_oneshot_post(cf):
    """emulation of the proposed repair 1: the reply handler travels with its request and runs exactly when
    the reply that releases that request is dispatched (no port callbacks registered at call time)"""
    from cflib.crazyflie import param as pm
    from cflib.crtp.crtpstack import CRTPPort
    par, upd = cf.param, cf.param.param_updater
    st = {'inflight': None}
    orig_send = cf.send_packet

    def send_packet(pk, *a, **k):
        if pk.port == CRTPPort.PARAM:
            st['inflight'] = pk
        return orig_send(pk, *a, **k)
    cf.send_packet = send_packet
    orig_add, orig_remove = cf.add_port_callback, cf.remove_port_callback
    pending = {'cb': None}

    def add_port_callback(port, cb):
        if port == CRTPPort.PARAM and getattr(cb, '__name__', '') == 'new_packet_cb':
            pending['cb'] = cb               # picked up by send_param_misc below (same thread, same call)
            return
        return orig_add(port, cb)

    def remove_port_callback(port, cb):
        if port == CRTPPort.PARAM and getattr(cb, '__name__', '') == 'new_packet_cb':
            return
        return orig_remove(port, cb)
    cf.add_port_callback, cf.remove_port_callback = add_port_callback, remove_port_callback
    orig_misc = upd.send_param_misc

    def send_param_misc(pk):
        pk._reply_cb, pending['cb'] = pending['cb'], None
        return orig_misc(pk)
    upd.send_param_misc = send_param_misc

    def new_packet_cb(pk):
        if pk.channel == pm.READ_CHANNEL or pk.channel == pm.WRITE_CHANNEL:
            release_pattern = pk.data[:2]
            if pk.channel == pm.READ_CHANNEL:
                pk.data = pk.data[:2] + pk.data[3:]
            if upd._lock_pattern == release_pattern:
                upd.updated_callback(pk)
                upd._lock_pattern = None
                try:
                    upd.wait_lock.release()
                except Exception:
                    pass
        elif pk.channel == pm.MISC_CHANNEL:
            if pk.data[0] == pm.MISC_VALUE_UPDATED:
                upd.updated_callback(pk)
            if upd._lock_pattern == pk.data[:3]:
                upd._lock_pattern = None
                cb = getattr(st['inflight'], '_reply_cb', None)
                upd.wait_lock.release()
                if cb is not None:
                    cb(pk)
    _replace_port_cb(cf, upd._new_packet_cb, new_packet_cb)


PRE_CONNECT = {'uint16_as_int16', 'caller_live_iteration'}       # the others are switched on after the connection is complete


# --------------------------------------------------------------------------- running / judging
class Tr(dict):
    """A recorded trace kept compressed (the parent process holds tens of thousands of them and forks worker
    pools): t['cfg'] / t['ev'] are decoded on access; 'detail', 'stats', 'id', 'conf' are ordinary entries."""

    def __getitem__(self, k):
        if k in ('ev', 'cfg'):
            import zlib
            return json.loads(zlib.decompress(dict.__getitem__(self, '_z')))[k]
        return dict.__getitem__(self, k)

    def plain(self):
        return {'cfg': self['cfg'], 'ev': self['ev'], 'detail': dict.get(self, 'detail')}


def pack(t):
    import hashlib
    import zlib
    if 'skipped' in t:
        return t
    ev = t['ev']
    stats = {'nev': len(ev), 'nset': sum(1 for e in ev if e['e'] == 'call' and e['k'] == 'set'),
             'ncall': sum(1 for e in ev if e['e'] == 'call'),
             'key': hashlib.md5(json.dumps([e for e in ev if e['e'] != 'step'], sort_keys=True).encode()).hexdigest()}
    r = Tr(detail=t.get('detail'), stats=stats)
    dict.__setitem__(r, '_z', zlib.compress(json.dumps({'cfg': t['cfg'], 'ev': ev}, separators=(',', ':')).encode(), 3))
    return r


def _exec_job(job):
    sc, mutant = job
    undo = None
    holder = {}

    def wrapped(cf, phase):
        if mutant == 'PATCHED':
            if phase == 'pre':
                holder['undo'] = patch_exttype_pre(cf)
            else:
                patch_oneshot_post(cf)
        elif phase == ('pre' if mutant in PRE_CONNECT else 'post'):
            holder['undo'] = MUTANTS[mutant](cf)
    try:
        return pack(execute(sc, wrapped if mutant else None))
    except (MutantSkipped, AttributeError) as e:
        if not mutant:
            raise
        return {'skipped': '%s: %s' % (type(e).__name__, e)}
    finally:
        undo = holder.get('undo')
        if undo:
            undo()


def _init():
    import os
    os.environ.setdefault('OPENBLAS_NUM_THREADS', '1')
    vsched.load_cflib()
    sd.install()


def run_scenarios(scs, mutant=None):
    return common.pmap(_exec_job, [(sc, mutant) for sc in scs], init=_init, maxtasks=400)


def _batch(args):
    cfg, path = args
    r = tlc.run('ParamProtoTrace.tla', cfg, workers=1, timeout=3000, env={'TRACE_FILE': path}, heap='2g')
    return (r.output, r.distinct, r.generated, r.wall_s, r.violated)


def validate_groups(trace_cfg, groups, nproc, cfg_of=None):
    """One round of TLC runs over several groups of traces (each batch file holds traces of one group
    only, so TLC's state counts are per group).  -> {group: (verdicts, stats)}"""
    cfg_of = cfg_of or {}
    import multiprocessing as mp
    import shutil
    d = tlc.scratch_dir('c04traces-')
    try:
        jobs, owner = [], []
        total = sum(len(ts) for ts in groups.values())
        for g, ts in groups.items():
            nb = max(1, min(len(ts), round(nproc * len(ts) / max(1, total)) or 1))
            chunk = max(1, min(4000, (len(ts) + nb - 1) // nb))
            for i in range(0, len(ts), chunk):
                path = '%s/%s-%d.json' % (d, g, i // chunk)
                with open(path, 'w') as f:
                    json.dump([dict(id=t['id'], cfg=q['cfg'], ev=q['ev']) for t in ts[i:i + chunk] for q in [plain(t)]], f,
                              separators=(',', ':'))
                jobs.append((cfg_of.get(g, trace_cfg), path))
                owner.append(g)
        if len(jobs) == 1:
            outs = [_batch(jobs[0])]
        else:
            with mp.get_context('fork').Pool(min(nproc, len(jobs))) as pool:
                outs = pool.map(_batch, jobs)
    finally:
        shutil.rmtree(d, ignore_errors=True)
    res = {g: ({}, {'states': 0, 'transitions': 0, 'wall_s': 0.0, 'batches': 0}) for g in groups}
    for g, (o, distinct, generated, wall, violated) in zip(owner, outs):
        if violated:
            raise common.MachineryError('trace spec run reported %s:\n%s' % (violated, o[-3000:]))
        v, st = res[g]
        st['states'] += distinct
        st['transitions'] += generated
        st['wall_s'] += wall
        st['batches'] += 1
        for x in tlc.printed_tuples(o, 'VERDICT'):
            v[x[0]] = x[1:]
    for g, ts in groups.items():
        missing = [t['id'] for t in ts if t['id'] not in res[g][0]]
        if missing:
            raise common.MachineryError('%d traces of group %s got no verdict (first ids %s)\n%s' %
                                        (len(missing), g, missing[:5], outs[0][0][-3000:]))
    return res


def classify(traces, verdicts):
    bad, drift = [], []
    for t in traces:
        clause, at, conf, conf_at = verdicts[t['id']]
        t['conf'] = bool(conf)
        if clause != 'ok':
            bad.append((t, clause, at))
        elif not conf:
            drift.append((t, conf_at))
    return bad, drift


def judge(out, traces, label, trace_cfg, nproc=None):
    for i, t in enumerate(traces):
        t['id'] = i + 1
    verdicts, st = validate_groups(trace_cfg, {'g': traces}, nproc or common.NCPU)['g']
    out.traces += len(traces)
    out.states += st['states']
    out.transitions += st['transitions']
    out.tlc_runs.append({'config': '%s (%s)' % (trace_cfg, label), 'states': st['states'],
                         'transitions': st['transitions'], 'wall_s': round(st['wall_s'], 2), 'traces': len(traces)})
    return classify(traces, verdicts)


def signature(t, clause, at):
    """clause + canonical witness class, computed from the failing trace"""
    t = plain(t)
    ev = t['ev'][:max(at, 0)]
    calls = {e['rid']: e for e in ev if e['e'] == 'call'}
    issues = [e for e in ev if e['e'] == 'issue']
    downs = [e for e in ev if e['e'] in ('ans', 'ntf', 'dup')]
    if clause in ('ReplyToOtherRequest', 'ReplyNotDelivered', 'ReplyDeliveredTwice', 'DuplicateDelivered'):
        # the dispatch that failed: the last completed one before `at`
        rxi = [i for i, e in enumerate(ev) if e['e'] == 'rx']
        last = t['ev'][at - 1] if 0 < at <= len(t['ev']) else {}
        if last.get('e') == 'rx' and len(rxi) >= 2:
            k, lo, hi = len(rxi) - 1, rxi[-2], rxi[-1]
        elif rxi:
            k, lo, hi = len(rxi), rxi[-1], len(ev)
        else:
            return clause + '/outside-dispatch'
        cbs = [e for e in ev[lo:hi] if e['e'] == 'cb']
        d = downs[k - 1] if k - 1 < len(downs) else None
        if clause == 'DuplicateDelivered':
            return '%s/%s' % (clause, {1: 'read-reply', 2: 'write-reply', 3: 'misc-reply'}.get(d['chan'], '?') if d else '?')
        if d is None or d['e'] != 'ans':
            return '%s/%s' % (clause, 'notification' if d else 'unknown-packet')
        req = issues[d['w'] - 1] if d['w'] - 1 < len(issues) else None
        rc = calls.get(req['rid']) if req else None
        if rc is None:
            return clause + '/unattributed'
        if clause != 'ReplyToOtherRequest':
            return '%s/%s' % (clause, rc['k'])
        others = [calls[c['rid']] for c in cbs if c['rid'] != rc['rid'] and c['rid'] in calls]
        if not others:
            return '%s/%s-reply-to-callback-without-request' % (clause, rc['k'])
        o = others[0]
        return '%s/%s/%s' % (clause, 'same-command' if o['k'] == rc['k'] else 'other-command',
                             'same-parameter' if o['p'] == rc['p'] else 'other-parameter')
    if clause == 'ExtendedTypeNotDelivered':
        return clause + '/notification-during-connect' if t.get('detail', {}).get('connect_ntf') else clause
    if clause in ('SetEncoding', 'SetAddress', 'OutOfRangeMustRaise', 'OutOfRangeNoTransmission', 'SetNotTransmitted',
                  'RefusedMustRaise', 'RefusedNoTransmission', 'OneRequestPerCall', 'ReadAddress', 'MiscAddress',
                  'RaisedButIssued'):
        last = t['ev'][at - 1] if 0 < at <= len(t['ev']) else {}
        c = calls.get(last.get('rid'))
        if c:
            ty = t['cfg']['type'][c['p'] - 1] if c['p'] else -1
            return '%s/%s/type=%d' % (clause, c['k'], ty)
    return clause


# --------------------------------------------------------------------------- the check
VARIANT_CFG = {'none': ('TRACE_ParamProto.cfg', 'SIM_ParamProto.cfg'),              # the repaired code
               'cmdOnly': ('TRACE_ParamProto_cmdOnly.cfg', 'SIM_ParamProto_cmdOnly.cfg'),   # pre-fix trees
               'cmdId': ('TRACE_ParamProto_cmdId.cfg', 'SIM_ParamProto_cmdId.cfg')}
BUG_CFGS = ['cmdOnly', 'cmdId', 'noWait', 'lifo', 'wrap', 'roSend', 'anyRelease', 'cbTwice', 'noReset', 'liveIter',
            'waitTimeout']


def detect_variant():
    """Which one-shot matching does the code under test implement?  Decides only which variant of the
    design spec the conformance check (and the simulation) uses; the monitor does not depend on it."""
    def stolen(t):
        rx = [i for i, e in enumerate(t['ev']) if e['e'] == 'rx']
        if not rx:
            return False
        hi = rx[1] if len(rx) > 1 else len(t['ev'])
        return sum(1 for e in t['ev'][rx[0]:hi] if e['e'] == 'cb') > 1
    ts = run_scenarios([WITNESS, WITNESS_SAME])
    if stolen(ts[0]):
        return 'cmdOnly'
    if stolen(ts[1]):
        return 'cmdId'
    return 'none'


def _tlc_jobs(tier):
    jobs = [('check', 'MC_ParamProto_%s.cfg' % ('quick' if tier == 'quick' else 'thorough'), 6),
            ('check', 'MC_ParamProto_codec.cfg', 2), ('check', 'MC_ParamProto_cbs.cfg', 2),
            ('check', 'MC_ParamProto_dup_quick.cfg' if tier == 'quick' else 'MC_ParamProto_dup.cfg', 4)]
    if tier == 'thorough':
        jobs.append(('check', 'MC_ParamProto_thorough4.cfg', 6))
        jobs.append(('check', 'MC_ParamProto_asis.cfg', 4))
    for b in BUG_CFGS:
        jobs.append(('bug', 'MC_ParamProto_bug_%s.cfg' % b, 1))
    return jobs


def _run_tlc_job(job):
    kind, cfg, workers = job
    if kind == 'check':
        return job, tlc.check('MC_ParamProto.tla', cfg, workers=workers, timeout=3000, coverage=False, heap='3g')
    return job, tlc.expect_violation('MC_ParamProto.tla', cfg, workers=workers, timeout=900, heap='1g')


def _sim_job(arg):
    sim_cfg, nsim, seed = arg
    rs, behs = tlc.simulate('MC_ParamProto.tla', sim_cfg, num=nsim, depth=70, seed=seed, timeout=2400, heap='1g')
    rs.output = rs.output[-1500:]
    return (sim_cfg, nsim, rs, [compact_behaviour(b) for b in behs if len(b) > 2])


def _tlc_helper(tier, sim_args, conn):
    """runs the design-spec TLC jobs and the simulation concurrently (own process: the parent stays
    single-threaded and forks its worker pools safely)"""
    from concurrent.futures import ThreadPoolExecutor
    try:
        with ThreadPoolExecutor(max_workers=4) as ex:
            fsims = [ex.submit(_sim_job, a) for a in sim_args]
            futs = [ex.submit(_run_tlc_job, j) for j in _tlc_jobs(tier)]
            conn.send([f.result() for f in fsims])      # first message: the simulated behaviours
            res = [f.result() for f in futs]
        for (_job, r) in res:
            r.output = r.output[-1500:]
        conn.send(res)                          # second message: the exhaustive checks
    except Exception as e:           # reported by the parent as a machinery failure
        conn.send('TLC job failed: %s' % str(e)[-3000:])
    finally:
        conn.close()


def plain(t):
    return t.plain() if isinstance(t, Tr) else t


def corrupted_traces(traces):
    """binding self-test: copies of recorded traces with one field changed / one event dropped"""
    def clean(t):      # no two reply callbacks in one dispatch (such traces are rejected anyway)
        n = 0
        for e in t['ev']:
            if e['e'] == 'rx':
                n = 0
            elif e['e'] == 'cb':
                n += 1
                if n > 1:
                    return False
        return not any(e['e'] == 'ext' and e['lib'] != (e['dev'] == 1) for e in t['ev'])
    corrupt = []
    good = (plain(t) for t in traces[:400])
    good = [t for t in good if clean(t)]
    t0 = copy.deepcopy(next(t for t in good if any(e['e'] == 'cb' for e in t['ev'])))
    t0['ev'].pop(next(i for i, e in enumerate(t0['ev']) if e['e'] == 'cb'))
    corrupt.append(('drop-reply-callback-event', t0))
    t1 = copy.deepcopy(next(t for t in good if len({json.dumps(e['data']) for e in t['ev'] if e['e'] == 'tx'}) >= 2))
    ix = [i for i, e in enumerate(t1['ev']) if e['e'] == 'tx']
    j = next(k for k in ix[1:] if t1['ev'][k]['data'] != t1['ev'][ix[0]]['data'])
    t1['ev'][ix[0]], t1['ev'][j] = t1['ev'][j], t1['ev'][ix[0]]
    corrupt.append(('swap-two-wire-packets', t1))
    t2 = copy.deepcopy(next(t for t in good if any(e['e'] == 'upd' for e in t['ev'])))
    e2 = next(e for e in t2['ev'] if e['e'] == 'upd')
    e2['arg'] = {'k': 'int', 'neg': False, 'mag': [1, 2, 3, 4, 5, 6, 7, 8, 9]}
    corrupt.append(('change-callback-value', t2))
    t3 = copy.deepcopy(next(t for t in good if any(e['e'] == 'step' and e['a'] == 'UpdLock' for e in t['ev'])))
    t3['ev'].pop([i for i, e in enumerate(t3['ev']) if e['e'] == 'step' and e['a'] == 'UpdLock'][0])
    corrupt.append(('drop-one-step-marker(conformance)', t3))
    return corrupt


def report_violations(out, bad, scs_by_id):
    def size(b):
        sc = scs_by_id[b[0]['id']]
        return (sum(len(u) for u in sc['users']), len(sc['users']), len(sc['notifs']), b[0]['stats']['nev'])
    seen_sig = {}
    for (t, clause, at) in sorted(bad, key=size):
        sc = scs_by_id[t['id']]
        tid = t['id']
        t = plain(t)
        sg = signature(t, clause, at)
        seen_sig[sg] = seen_sig.get(sg, 0) + 1
        if seen_sig[sg] > 3:                 # (finish() keeps the first of a signature; spare the rest of the work)
            out.violation(sg, clause, {'event_index': at}, {'scenario': dict(sc, policy=['script', t['detail']['schedule']])})
            continue
        rp = dict(sc)
        rp['policy'] = ['script', t['detail']['schedule']]
        lo = max(0, at - 14)
        out.violation(sg, clause,
                      {'event_index': at, 'users': sc['users'], 'notifs': sc['notifs'], 'dups': sc.get('dups'), 'connect_ntf': sc.get('connect_ntf'),
                       'types': t['cfg']['type'], 'events_before': t['ev'][lo:at], 'schedule': t['detail']['schedule']},
                      {'scenario': rp})


def main(tier, seed, replay=None):
    import os
    os.environ.setdefault('OPENBLAS_NUM_THREADS', '1')
    out = common.Outcome('C04', tier, seed)
    rng = random.Random(seed)
    import time as _time
    timing = out.extra.setdefault('timing_s', {})
    tlast = [_time.time()]

    def lap(label):
        now = _time.time()
        timing[label] = round(now - tlast[0], 1)
        tlast[0] = now
        if os.environ.get('VERIF_DEBUG'):
            print('[C04] %-28s %6.1fs' % (label, timing[label]), flush=True)
    out.assumptions = [
        'issue point of a request = the moment it is handed to the updater FIFO (request_queue.put), inside the API call; '
        'wire order must equal that order',
        '"answered before the next is sent": the device has emitted its answer before it receives the next request '
        '(device answers after an arbitrary, scheduler-chosen delay)',
        'update callbacks that add / remove registrations while an update is dispatched: a callback registered throughout is '
        'called exactly once per answer, one added or removed during that dispatch at most once (reading of C07, DESIGN 3.1(2))',
        'reply delays are also delays in virtual time (0.5 .. 10 s, the clock may advance whenever something waits for it); the '
        'clauses do not mention time, so they must hold for every delay',
        'duplicated answers (a retransmitting link): a second copy of an answer must reach nobody and change nothing; judged in runs '
        'whose requests have pairwise distinct release patterns (without sequence numbers a copy of an old answer cannot be told '
        'from the answer to a later request for the same parameter / command)',
        'unsolicited value-changed packets: nothing positive is demanded (the cache may or may not follow them); they must not '
        'reach a reply callback, must not release the outstanding request, and an update callback run for them must carry their value',
        'a reply is "delivered to a request" when the callback given with that request runs while that reply is dispatched; '
        'the payload handed over is compared with the design spec (conformance), not judged by the monitor',
        'V2 protocol (16 bit index), link that needs no retransmission, no disconnect during the run; FP16 (type 5) is not a '
        'firmware parameter type and is excluded',
        'float parameters: the requested real is encoded round-to-nearest-even; a finite value beyond the binary32 range must raise; '
        'NaN must arrive as some NaN',
        'simulated device (harness/props/C04.py ParamDev/ManualDevice on simdev.ParamService) is the firmware twin',
    ]
    if replay:
        rp = json.load(open(replay))['replay']
        _init()
        t = execute(rp['scenario'])
        bad, _ = judge(out, [t], 'replay', 'TRACE_ParamProto.cfg')
        report_violations(out, bad, {t['id']: rp['scenario']})
        out.samples = [{'events': t['ev'][:40]}]
        return out.finish()

    # 1. design spec: exhaustive checks, every bug configuration must be refuted, and the simulation that
    #    feeds step 2 -- all in a helper process while this process drives the real code
    variant = detect_variant()
    trace_cfg, sim_cfg = VARIANT_CFG[variant]
    out.extra['code_variant_detected'] = variant
    lap('variant probe')
    nsim = 80 if tier == 'quick' else 600
    import multiprocessing as mp
    ctx = mp.get_context('fork')
    pipe_r, pipe_w = ctx.Pipe(duplex=False)
    sims = [(sim_cfg, nsim, seed % 100000)]
    if variant == 'none':            # behaviours with duplicated answers (distinct release patterns)
        sims.append(('SIM_ParamProto_dup.cfg', nsim // 2, (seed + 1) % 100000))
    helper = ctx.Process(target=_tlc_helper, args=(tier, sims, pipe_w))
    helper.start()
    pipe_w.close()
    try:
        # 3a. code -> spec: enumerations + seeded random programs executed on the real code
        msc = mutant_scenarios(rng, 12 if tier == 'quick' else 100)
        pairs = pair_scenarios()
        if tier == 'quick':
            pairs = pairs[:len(pairs) // 6]
        dsc = dup_scenarios()
        if tier == 'quick':
            dsc = dsc[::4]
        dval_ = [sc for sc in dsc if sc['users'][0][0][0] in ('read', 'set')]
        dmisc = [sc for sc in dsc if sc['users'][0][0][0] not in ('read', 'set')]
        ssc = msc + dval_[::(8 if tier == 'quick' else 4)] + dmisc[::(24 if tier == 'quick' else 12)]   # what the mutants run on
        csc, hsc = callback_scenarios(), hold_scenarios()
        if tier == 'quick':
            csc, hsc = csc[::2], hsc[::3]
        ssc += csc[::(8 if tier == 'quick' else 4)] + hsc[::(9 if tier == 'quick' else 5)]
        scs = codec_scenarios(rng) + pairs + msc + dsc + csc + hsc + connect_ntf_scenarios()
        nrand = 300 if tier == 'quick' else 10000
        for i in range(nrand):
            scs.append(gen_scenario(random.Random(rng.randrange(1 << 60)), big=(i % 4 == 0), misc_unique=(i % 3 != 0)))
        traces = run_scenarios(scs)
        lap('execute scenarios')
        # 4a. in-memory mutants on the sensitivity scenarios
        mnames = sorted(MUTANTS)
        mtraces = common.pmap(_exec_job, [(sc, name) for name in mnames for sc in ssc], init=_init, maxtasks=400)
        # 4a'. control (pre-fix trees only): the same machinery on an in-memory emulation of the two repairs must accept
        ctraces = []
        if variant != 'none':
            csc = pairs[::(3 if tier == 'quick' else 1)] + connect_ntf_scenarios() + \
                [gen_scenario(random.Random(seed * 7 + i)) for i in range(60 if tier == 'quick' else 1500)]
            ctraces = [t for t in common.pmap(_exec_job, [(sc, 'PATCHED') for sc in csc], init=_init, maxtasks=400)
                       if 'skipped' not in t]
        lap('execute mutants')
        sim = pipe_r.recv()
        if isinstance(sim, str):
            raise tlc.TLCError(sim)
        lap('wait for simulation')
        # 2. spec -> code: behaviours of the design spec (the variant the code implements) replayed step by step
        behs = []
        for (cfg_name, n_, rs, bs) in sim:
            out.add_tlc('%s (-simulate num=%d depth=70)' % (cfg_name, n_), rs)
            behs += bs
        reps = common.pmap(_replay_job, behs, init=_init, maxtasks=300)
        lap('replay behaviours')
        out.conformance['spec_to_code'] = {
            'behaviours': len(reps), 'fully_matched': sum(1 for r in reps if r['matched'] == r['steps'] and not r['drift']),
            'steps': sum(r['steps'] for r in reps), 'steps_matched': sum(r['matched'] for r in reps),
            'first_mismatches': [r['first'] for r in reps if r['first']][:3]}
        # 3b/4b. every trace judged by the monitor (TLC, ParamProtoProps) and explained by the design spec;
        #        the mutants' traces and corrupted traces go through the same round, in files of their own
        all_traces = [r['trace'] for r in reps] + traces
        all_scs = [r['sc'] for r in reps] + scs
        for i, t in enumerate(all_traces):
            t['id'] = i + 1
        corrupt = corrupted_traces(all_traces)
        allm = [t for t in mtraces if 'skipped' not in t] + [c[1] for c in corrupt]
        for i, t in enumerate(allm):
            t['id'] = i + 1
        for i, t in enumerate(ctraces):
            t['id'] = i + 1
        vr = validate_groups(trace_cfg, {'real': all_traces, 'sens': allm, 'ctrl': ctraces},
                             10 if tier == 'quick' else common.NCPU, cfg_of={'ctrl': 'TRACE_ParamProto.cfg'})
        lap('judge traces (TLC)')
        res = pipe_r.recv()
    finally:
        helper.join(10)
        if helper.is_alive():
            helper.terminate()
    if isinstance(res, str):
        raise tlc.TLCError(res)
    lap('wait for design-spec TLC')
    for (job, r) in res:
        if job[0] == 'check':
            out.add_tlc(job[1], r)
        else:
            out.sensitivity['spec:' + job[1][len('MC_ParamProto_bug_'):-4]] = \
                'refuted (%s) after %d states' % (r.violated, r.distinct)
    verdicts, st = vr['real']
    out.traces += len(all_traces)
    out.states += st['states']
    out.transitions += st['transitions']
    out.tlc_runs.append({'config': '%s (real code)' % trace_cfg, 'states': st['states'], 'transitions': st['transitions'],
                         'wall_s': round(st['wall_s'], 2), 'traces': len(all_traces)})
    out.tlc_runs.append({'config': '%s (mutants + corrupted traces)' % trace_cfg, 'states': vr['sens'][1]['states'],
                         'transitions': vr['sens'][1]['transitions'], 'wall_s': round(vr['sens'][1]['wall_s'], 2),
                         'traces': len(allm), 'note': 'sensitivity runs, not added to the evidence totals'})
    bad, drift = classify(all_traces, verdicts)
    by_id = {t['id']: sc for t, sc in zip(all_traces, all_scs)}
    report_violations(out, bad, by_id)
    out.conformance['code_to_spec'] = {
        'traces': len(all_traces), 'design_variant': variant, 'rejected_by_monitor': len(bad),
        'explained_step_by_step': len(all_traces) - len(drift) - len(bad),
        'rejected_yet_explained_by_this_variant': sum(1 for (t, _c, _a) in bad if t.get('conf')),
        'drift_without_rejection': len(drift),
        'first_drift': [{'at': a, 'event': t['ev'][a - 1] if 0 < a <= len(t['ev']) else None,
                         'schedule': t['detail']['schedule']} for (t, a) in drift[:2]]}
    out.evaluations = len(all_traces)
    out.distinct = len({t['stats']['key'] for t in all_traces})
    nset = sum(t['stats']['nset'] for t in all_traces)
    out.extra['set_calls_judged'] = nset
    out.extra['api_calls_judged'] = sum(t['stats']['ncall'] for t in all_traces)
    out.extra['violations_by_signature'] = {}
    for (t, clause, at) in bad:
        sg = signature(t, clause, at)
        out.extra['violations_by_signature'][sg] = out.extra['violations_by_signature'].get(sg, 0) + 1
    out.rule = ('scenario = (parameter table over the 10 firmware types with read-only/persistent flags and groups, registered update '
                'callbacks, 1-3 user threads with set/read/get/store/clear/get-state/get-default programs, notification list, schedule '
                'policy fifo|random|PCT|burst); sources: TLC -simulate behaviours of ParamProto, the type x boundary-class product, '
                'all pairs of misc commands x parameter relation x threads x policy, seeded random; distinct = distinct observable histories')
    out.exhaustive = False
    ok_ix = [i for i, t in enumerate(all_traces) if t['id'] not in {b[0]['id'] for b in bad}]
    out.samples = []
    for i in ([ok_ix[0], ok_ix[len(ok_ix) // 2]] if ok_ix else []):
        out.samples.append({'users': all_scs[i]['users'], 'types': all_traces[i]['cfg']['type'],
                            'events': [e for e in all_traces[i]['ev'] if e['e'] != 'step'][:14]})
    if bad:
        t, clause, at = bad[0]
        out.samples.append({'rejected': clause, 'users': by_id[t['id']]['users'],
                            'events': [e for e in t['ev'][max(0, at - 12):at] if e['e'] != 'step']})

    # 4c. sensitivity verdicts
    if ctraces:
        cbad, cdrift = classify(ctraces, vr['ctrl'][0])
        out.tlc_runs.append({'config': 'TRACE_ParamProto.cfg (control: emulated repairs)', 'states': vr['ctrl'][1]['states'],
                             'transitions': vr['ctrl'][1]['transitions'], 'wall_s': round(vr['ctrl'][1]['wall_s'], 2),
                             'traces': len(ctraces), 'note': 'control runs, not added to the evidence totals'})
        out.sensitivity['control:emulated-repairs'] = (
            '%d traces of the code with both repairs emulated in memory: %d rejected by the monitor, %d not explained '
            'by the design spec with Bug = "none"' % (len(ctraces), len(cbad), len(cdrift)))
        if cbad:
            raise common.MachineryError('the monitor rejects the emulated repaired code: %s' % sorted({c for (_t, c, _a) in cbad}))
    else:
        out.sensitivity['control:emulated-repairs'] = 'skipped: the tree under test is the repaired code (variant none)'
    bad_ids = {b[0]['id'] for b in bad}
    msc_ids = {id(sc) for sc in msc}
    msc_failed = [t['id'] for t, sc in zip(all_traces, all_scs) if id(sc) in msc_ids and t['id'] in bad_ids]
    if msc_failed:
        out.extra['sensitivity_scenarios_failing_unmutated'] = len(msc_failed)
    mbad, mdrift = classify(allm, vr['sens'][0])
    bad_by_id = {t['id']: c for (t, c, _a) in mbad}
    drift_ids = {t['id'] for (t, _a) in mdrift}
    for mi, name in enumerate(mnames):
        mine = mtraces[mi * len(ssc):(mi + 1) * len(ssc)]
        ran = [t for t in mine if 'skipped' not in t]
        if not ran:
            out.sensitivity['mutant:' + name] = 'skipped (%s)' % (mine[0]['skipped'] if mine else 'no scenario')
            continue
        cl = {}
        for t in ran:
            if t['id'] in bad_by_id:
                cl[bad_by_id[t['id']]] = cl.get(bad_by_id[t['id']], 0) + 1
        n = sum(cl.values())
        out.sensitivity['mutant:' + name] = '%d of %d traces rejected %s' % (n, len(ran), sorted(cl.items()))
        if os.environ.get('VERIF_DEBUG'):
            print('[C04] mutant', name, out.sensitivity['mutant:' + name], flush=True)
        if n == 0:
            raise common.MachineryError('monitor did not reject in-memory mutant %s' % name)
    ncorr0 = len(allm) - len(corrupt)
    for i, (name, _t) in enumerate(corrupt):
        cid = ncorr0 + i + 1
        how = bad_by_id.get(cid) or ('conformance lost' if cid in drift_ids else None)
        out.sensitivity['binding:' + name] = ('rejected (%s)' % how) if how else 'ACCEPTED'
        if not how:
            raise common.MachineryError('trace spec accepted corrupted trace %s' % name)
    return out.finish()
