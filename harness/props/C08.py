"""C08 -- every command packet decodes to the caller's arguments under the firmware layout.

spec/CommandsProps.tla (the property: firmware-side layout table + decode rules),
spec/Commands.tla (design spec written from the code: struct.pack model, version switches, x-mode,
saturation, quaternion compression), spec/CommandsTrace.tla (monitor + conformance for traces
recorded from the real Crazyflie object).

The link behind Crazyflie.send_packet is part of the environment: one kind serialises inside send_packet,
the other keeps the CRTPPacket object and serialises it later (RadioDriver's out_queue of one); what a
command emitted is what the link put on the wire for the object.

Python drives the real API, records what reaches the link, and converts representations
(float -> float32 bit pattern of the *argument*, exact rational -> floor/has-fraction, int ->
bytes).  Every decision about the recorded bytes is taken by TLC."""
import contextlib
import copy
import io
import itertools
import json
import math
import random
import struct
import warnings
from contextlib import contextmanager
from fractions import Fraction

from .. import common, tlc, vsched

TRACE_SPEC = 'CommandsTrace.tla'
TRACE_CFG = 'TRACE_Commands.cfg'
VERSIONS = [-1, 3, 7, 8, 9, 10]

# argument kinds per command, positional (f float, i int, b bool, o optional float, m fixed-point
# source, q quaternion component, l list of ints, r raw bytes) -- the same order as CommandsProps.Layout uses
KINDS = {
    'setpoint': 'fffi', 'notify_stop': 'i', 'stop_setpoint': '', 'velocity_world': 'ffff',
    'zdistance': 'ffff', 'hover': 'ffff', 'full_state': 'mmmmmmmmmqqqqmmm', 'position': 'ffff',
    'hl_takeoff': 'ffio', 'hl_land': 'ffio', 'hl_stop': 'i', 'hl_group_mask': 'i',
    'hl_goto': 'fffffbbi', 'hl_spiral': 'fffffbbi', 'hl_start_traj': 'ifbbi', 'hl_define_traj': 'iiii',
    'extpos': 'fff', 'loc_extpos': 'fff', 'extpose': 'fffffff', 'loc_extpose': 'fffffff',
    'emergency_stop': '', 'emergency_watchdog': '', 'lh_persist': 'll', 'arm': 'b', 'crash_recovery': '',
    'lpp_position': 'ifff', 'lpp_raw': 'ir', 'lpp_reboot': 'ii', 'lpp_mode': 'ii',
}
CMDS = sorted(KINDS)


def _call(cf, cmd, a):
    """The public API call for one command (a = python argument values, positional as in KINDS)."""
    c, h, loc = cf.commander, cf.high_level_commander, cf.loc
    if cmd == 'setpoint':
        return c.send_setpoint(a[0], a[1], a[2], a[3])
    if cmd == 'notify_stop':
        return c.send_notify_setpoint_stop(a[0])
    if cmd == 'stop_setpoint':
        return c.send_stop_setpoint()
    if cmd == 'velocity_world':
        return c.send_velocity_world_setpoint(a[0], a[1], a[2], a[3])
    if cmd == 'zdistance':
        return c.send_zdistance_setpoint(a[0], a[1], a[2], a[3])
    if cmd == 'hover':
        return c.send_hover_setpoint(a[0], a[1], a[2], a[3])
    if cmd == 'full_state':
        return c.send_full_state_setpoint(list(a[0:3]), list(a[3:6]), list(a[6:9]), list(a[9:13]),
                                          a[13], a[14], a[15])
    if cmd == 'position':
        return c.send_position_setpoint(a[0], a[1], a[2], a[3])
    if cmd == 'hl_takeoff':
        return h.takeoff(a[0], a[1], group_mask=a[2], yaw=a[3])
    if cmd == 'hl_land':
        return h.land(a[0], a[1], group_mask=a[2], yaw=a[3])
    if cmd == 'hl_stop':
        return h.stop(group_mask=a[0])
    if cmd == 'hl_group_mask':
        return h.set_group_mask(a[0])
    if cmd == 'hl_goto':
        return h.go_to(a[0], a[1], a[2], a[3], a[4], relative=a[5], linear=a[6], group_mask=a[7])
    if cmd == 'hl_spiral':
        return h.spiral(a[0], a[1], a[2], a[3], a[4], sideways=a[5], clockwise=a[6], group_mask=a[7])
    if cmd == 'hl_start_traj':
        return h.start_trajectory(a[0], time_scale=a[1], relative=a[2], reversed=a[3], group_mask=a[4])
    if cmd == 'hl_define_traj':
        return h.define_trajectory(a[0], a[1], a[2], type=a[3])
    if cmd == 'extpos':
        return cf.extpos.send_extpos(a[0], a[1], a[2])
    if cmd == 'loc_extpos':
        return loc.send_extpos([a[0], a[1], a[2]])
    if cmd == 'extpose':
        return cf.extpos.send_extpose(*a)
    if cmd == 'loc_extpose':
        return loc.send_extpose(list(a[0:3]), list(a[3:7]))
    if cmd == 'emergency_stop':
        return loc.send_emergency_stop()
    if cmd == 'emergency_watchdog':
        return loc.send_emergency_stop_watchdog()
    if cmd == 'lh_persist':
        return loc.send_lh_persist_data_packet(list(a[0]), list(a[1]))
    if cmd == 'arm':
        return cf.platform.send_arming_request(a[0])
    if cmd == 'crash_recovery':
        return cf.platform.send_crash_recovery_request()
    if cmd == 'lpp_raw':
        return loc.send_short_lpp_packet(a[0], bytes(a[1]))
    from lpslib.lopoanchor import LoPoAnchor
    if cmd == 'lpp_position':
        return LoPoAnchor(cf).set_position(a[0], (a[1], a[2], a[3]))
    if cmd == 'lpp_reboot':
        return LoPoAnchor(cf).reboot(a[0], a[1])
    if cmd == 'lpp_mode':
        return LoPoAnchor(cf).set_mode(a[0], a[1])
    raise common.MachineryError('unknown command %r' % cmd)


# --------------------------------------------------------------------------- representations
def f_rec(x):
    """float argument -> exact discrete form.  struct.pack('<f', argument) is the one trusted step."""
    x = float(x)
    try:
        b = list(struct.pack('<f', x))
    except OverflowError:
        b = []
    neg = math.copysign(1.0, x) < 0
    hasg, g = False, 0
    if math.isfinite(x) and abs(x) <= 128.0 and x * 8 == int(x * 8) and not (x == 0 and neg):
        hasg, g = True, int(x * 8)
    return {'k': 'f', 'b': b, 'neg': neg, 'hasg': hasg, 'g': g}


def i_rec(n):
    n = int(n)
    m = abs(n)
    return {'k': 'i', 'neg': n < 0, 'b': list(m.to_bytes(max(1, (m.bit_length() + 7) // 8), 'little'))}


LIM = 1 << 30


def m_rec(x):
    """fixed-point source -> exact facts about p = 1000 * x (rational arithmetic): lo = floor(p),
    ex = p is an integer, tr = trunc(RN(p)) with RN the correctly rounded double of p (what an IEEE
    multiplication returns; computed here from the exact rational, not by multiplying floats)."""
    x = float(x)
    if not math.isfinite(x):
        return {'k': 'm', 'fin': False, 'lo': 0, 'ex': False, 'tr': 0}
    fr = Fraction(x) * 1000
    lo = math.floor(fr)
    ex = (fr == lo)
    tr = int(float(fr)) if abs(fr) < 2 ** 1000 else (LIM if fr > 0 else -LIM)
    if lo >= LIM:
        lo, ex, tr = LIM, False, LIM
    elif lo <= -LIM:
        lo, ex, tr = -LIM, False, -LIM
    return {'k': 'm', 'fin': True, 'lo': lo, 'ex': ex, 'tr': tr}


# doubles whose product with 1000 is rounded across an integer by the multiplication
ROUNDED_UP = {(4349, 4350): 4.35, (699, 700): 0.7, (-700, -700): -0.7, (-4350, -4350): -4.35}


def quat_u(q):
    """floor(4096 * |q|), exact (the design spec's Bug variants look at the length of the argument)."""
    s = sum(Fraction(float(x)) ** 2 for x in q)
    return min(math.isqrt(math.floor(s * 4096 * 4096)), 1 << 30)


def q_recs(q):
    """four quaternion components -> integer numerators over a common positive scale (the layout
    normalises, so the scale is irrelevant) + the length class u; None when they are not on the
    |n| <= 16 grid.  Any common factor is allowed: n_i * c is on the grid for every double c for
    which the four products are exact."""
    fr = [Fraction(float(x)) for x in q]
    den = 1
    for f in fr:
        den = den * f.denominator // math.gcd(den, f.denominator)
    nums = [int(f * den) for f in fr]
    if max(abs(n) for n in nums) > 16:
        g = 0
        for n in nums:
            g = math.gcd(g, abs(n))
        nums = [n // g for n in nums]
    if max(abs(n) for n in nums) > 16:
        return None
    u = quat_u(q)
    return [{'k': 'q', 'n': n, 'u': u} for n in nums]


def py_quat(recs):
    """four "q" records -> floats with exactly these records: n_i * 2^e when a power of two gives the
    length class, else n_i * j / 2^20 (exact products) with floor(|n| * j / 256) = u."""
    ns = [r['n'] for r in recs]
    u = recs[0]['u']
    want = [dict(r) for r in recs]
    if not any(ns):
        return [0.0] * 4
    for e in range(-14, 15):
        q = [float(n) * 2.0 ** e for n in ns]
        if q_recs(q) == want:
            return q
    nn = sum(n * n for n in ns)
    j0 = math.isqrt((u * 256) ** 2 // nn)
    for j in range(max(1, j0 - 2), j0 + 4):
        q = [n * j / 1048576.0 for n in ns]
        if q_recs(q) == want:
            return q
    raise common.MachineryError('no float quaternion has the records %r' % (recs,))


def py_args_from_records(recs):
    out, i = [], 0
    while i < len(recs):
        if recs[i]['k'] == 'q':
            out.extend(py_quat(recs[i:i + 4]))
            i += 4
        else:
            out.append(py_from_record(recs[i]))
            i += 1
    return out


def arg_records(cmd, a):
    ks = KINDS[cmd]
    out = []
    i = 0
    while i < len(ks):
        k = ks[i]
        if k == 'f':
            out.append(f_rec(a[i]))
        elif k == 'i':
            out.append(i_rec(a[i]))
        elif k == 'b':
            out.append({'k': 'b', 'v': bool(a[i])})
        elif k == 'o':
            out.append({'k': 'none'} if a[i] is None else f_rec(a[i]))
        elif k == 'm':
            out.append(m_rec(a[i]))
        elif k == 'l':
            out.append({'k': 'l', 'v': [int(v) for v in a[i]]})
        elif k == 'r':
            out.append({'k': 'r', 'v': [int(v) for v in a[i]]})
        elif k == 'q':
            qs = q_recs(a[i:i + 4])
            if qs is None:
                raise common.MachineryError('quaternion %r is not on the integer grid' % (a[i:i + 4],))
            out.extend(qs)
            i += 3
        i += 1
    return out


def py_from_record(r):
    """design-spec argument record -> a python value with exactly that record."""
    k = r['k']
    if k == 'f':
        if not r['b']:
            return -1e39 if r['neg'] else 1e39
        return struct.unpack('<f', bytes(r['b']))[0]
    if k == 'i':
        n = int.from_bytes(bytes(r['b']), 'little')
        return -n if r['neg'] else n
    if k == 'b':
        return bool(r['v'])
    if k == 'none':
        return None
    if k == 'm':
        if not r['fin']:
            return float('nan')
        if (r['lo'], r['tr']) in ROUNDED_UP and not r['ex']:
            return ROUNDED_UP[(r['lo'], r['tr'])]
        return r['lo'] / 1000.0 if r['ex'] else (r['lo'] + 0.5) / 1000.0
    if k in ('l', 'r'):
        return list(r['v'])
    raise common.MachineryError('bad arg record %r' % (r,))


# python values <-> JSON (replay files): floats as the hex of their IEEE double
def enc(v):
    if v is None:
        return ['n']
    if isinstance(v, bool):
        return ['b', v]
    if isinstance(v, int):
        return ['i', str(v)]
    if isinstance(v, float):
        return ['f', struct.pack('>d', v).hex()]
    if isinstance(v, (list, tuple)):
        return ['l', [int(x) for x in v]]
    raise common.MachineryError('cannot encode %r' % (v,))


def dec(e):
    t = e[0]
    if t == 'n':
        return None
    if t == 'b':
        return bool(e[1])
    if t == 'i':
        return int(e[1])
    if t == 'f':
        return struct.unpack('>d', bytes.fromhex(e[1]))[0]
    return list(e[1])


# --------------------------------------------------------------------------- the real code
CAP = 1      # RadioDriver: out_queue = queue.Queue(1)


def _wire(pk):
    # the drivers transmit pk.header followed by pk.data
    return {'h': int(pk.header), 'data': list(bytes(pk.data))}


class RecordingLink:
    """Stands where the radio/USB driver stands: receives what Crazyflie.send_packet lets through.
    mode 'now': serialises inside send_packet (UsbDriver, CPX/TCP/serial, UDP, PRRT drivers).
    mode 'later': keeps the packet OBJECT like RadioDriver.send_packet (out_queue.put(pk), the radio
    thread reads pk.header / pk.data when it gets to it): at most CAP objects are kept; the oldest is
    serialised at the latest when the next one is handed over (put() on the full queue returns only
    after the radio thread has taken the previous object), or when the harness lets the link thread
    run ('drain')."""
    needs_resending = False

    def __init__(self, ev):
        self.ev = ev
        self.mode = 'now'
        self.sent = []           # serialisations that belong to the call in progress
        self.pending = []        # [packet object, owner (index of the call in progress), bytes at hand-over]
        self.owner = 0           # number of the call in progress (0: none)
        self.step = 0

    def send_packet(self, pk):
        if self.mode == 'now' or not self.owner:
            # (packets of the version negotiation are not commands: they do not go through the queue of objects)
            self.sent.append(_wire(pk))
            return True
        while len(self.pending) >= CAP:
            self.serialise_oldest()
        self.pending.append([pk, self.owner, _wire(pk)])
        return True

    def serialise_oldest(self):
        pk, owner, snap = self.pending.pop(0)
        w = _wire(pk)
        if not owner:
            return                       # a packet of the version negotiation, not of a command
        if owner == self.owner:
            self.sent.append(w)          # an earlier object of the call in progress
        else:
            # harness-only annotations: of = number of the call that handed the object over, same = the
            # object still holds what it held then, st = step in progress
            self.ev.append({'e': 'ser', 'pk': w, 'of': owner, 'same': w == snap, 'st': self.step})

    def drain(self):
        budget = 1000
        while self.pending and budget:
            budget -= 1
            self.serialise_oldest()

    def receive_packet(self, wait=0):
        return None

    def close(self):
        pass


def deliver(cf, port, channel, data):
    """An incoming packet, dispatched as _IncomingPacketHandler.run does: every registered callback whose
    port/channel pattern matches gets it; an exception inside a callback is logged and swallowed there."""
    from cflib.crtp.crtpstack import CRTPPacket
    pk = CRTPPacket()
    pk.set_header(port, channel)
    pk.data = data
    cf.packet_received.call(pk)
    for cb in [cb for cb in cf.incoming.cb
               if cb.port == (pk.port & cb.port_mask) and cb.channel == (pk.channel & cb.channel_mask)]:
        try:
            cb.callback(pk)
        except Exception:       # noqa -- as the dispatcher does
            pass


def negotiated(trace, at):
    """The protocol version negotiated before event `at` (1-based), by the monitor's rule."""
    ver = trace['ver0']
    for x in trace['ev'][:at - 1]:
        if x['e'] == 'ver':          # only a fetch negotiates; unsolicited answers are ignored (repair 11c63c8)
            ver = x['v']
    return ver


def _execute(steps):
    """Run a scenario on a fresh real Crazyflie.  steps: ['ver', v] | ['xmode', b] | ['link', mode] |
    ['drain'] | ['plat', channel, [data bytes]] | ['call', cmd, [encoded args]] | ['hdr', how, port, chan].
    Returns the trace dict.
    Every event carries st = the index of the step that produced it (harness-only)."""
    import cflib.crazyflie as cfm
    from cflib.crtp.crtpstack import CRTPPacket
    cf = cfm.Crazyflie()
    ev = []
    link = RecordingLink(ev)
    cf.link = link
    tr = {'ver0': int(cf.platform.get_protocol_version()), 'xmode0': bool(cf.commander._x_mode), 'ev': ev}
    ncall = 0
    for si, st in enumerate(steps):
        link.step = si
        if st[0] == 'ver':
            # the negotiation as Crazyflie.open_link starts it, answered the way the firmware answers:
            # link-service source request -> "Bitcraze Crazyflie" -> VERSION_GET_PROTOCOL request on the PLATFORM
            # port -> answer port 13, channel 1, data (0, version).  version -1 = a firmware without protocol
            # versioning: another source string, no version request follows
            cf.platform.fetch_platform_informations(lambda: None)
            if st[1] >= 0:
                deliver(cf, 15, 1, b'Bitcraze Crazyflie')
                deliver(cf, 13, 1, (0, st[1]))
            else:
                deliver(cf, 15, 1, b'not a crazyflie...')
            ev.append({'e': 'ver', 'v': st[1], 'st': si})
        elif st[0] == 'plat':
            # other traffic on the PLATFORM port, through the registered port callbacks
            deliver(cf, 13, st[1], bytes(st[2]))
            ev.append({'e': 'plat', 'ch': st[1], 'd': list(st[2]), 'st': si})
        elif st[0] == 'xmode':
            cf.commander.set_client_xmode(st[1])
            ev.append({'e': 'xmode', 'v': bool(st[1]), 'st': si})
        elif st[0] == 'link':
            if st[1] != link.mode:
                link.drain()             # between connections nothing is queued
                link.mode = st[1]
                ev.append({'e': 'link', 'v': st[1], 'st': si})
        elif st[0] == 'drain':
            link.drain()
        elif st[0] == 'call':
            cmd = st[1]
            a = [dec(x) for x in st[2]]
            recs = arg_records(cmd, a)
            ncall += 1
            link.owner = ncall
            link.sent = []
            exc = ''
            try:
                _call(cf, cmd, a)
                out = None
            except Exception as e:       # noqa -- the outcome alphabet includes "raised"
                out = 'raised'
                exc = type(e).__name__
            nq = sum(1 for p in link.pending if p[1] == ncall)
            if out is None:
                out = 'sent' if (link.sent or nq) else 'none'
            # pv (harness-only, for the report): the version PlatformService holds after the call
            ev.append({'e': 'call', 'cmd': cmd, 'args': recs, 'out': out, 'pks': link.sent, 'nq': nq, 'exc': exc,
                       'no': ncall, 'st': si, 'pv': int(cf.platform.get_protocol_version())})
            link.owner = 0
            link.sent = []
        elif st[0] == 'hdr':
            how, p, c = st[1], st[2], st[3]
            if how == 'set_header':
                pk = CRTPPacket()
                pk.set_header(p, c)
                h = pk.header
            elif how == 'attrs':
                pk = CRTPPacket()
                pk.port = p
                pk.channel = c
                h = pk.header
            elif how == 'attrs_rev':
                pk = CRTPPacket()
                pk.channel = c
                pk.port = p
                h = pk.get_header()
            else:   # through the whole send path (a link that serialises at once)
                pk = CRTPPacket()
                pk.port = p
                pk.channel = c
                pk.data = b'\x01'
                link.drain()
                mode, link.mode, link.sent = link.mode, 'now', []
                cf.send_packet(pk)
                h = link.sent[0]['h'] if link.sent else -1
                link.mode, link.sent = mode, []
            ev.append({'e': 'hdr', 'port': p, 'chan': c, 'h': int(h), 'how': how, 'st': si})
    link.step = len(steps)
    link.drain()                          # the link thread gets to everything in the end
    return tr


def execute(steps):
    # Crazyflie() starts service threads (parameter updater): they need a scheduler to exist in; they
    # are never run -- the command encoders use no threads, and primitives taken by the unmanaged
    # caller (Crazyflie._send_lock) act immediately
    with vsched.scheduler(), contextlib.redirect_stdout(io.StringIO()):
        return _execute(steps)


# --------------------------------------------------------------------------- in-memory mutants
@contextmanager
def mutant(name):
    """Realistic breakages of this property, patched into the loaded cflib (never /repo)."""
    import cflib.crazyflie.commander as cm
    import cflib.crazyflie.high_level_commander as hl
    import cflib.crazyflie.localization as lo
    import cflib.crtp.crtpstack as cs
    from cflib.crtp.crtpstack import CRTPPacket, CRTPPort
    saved = []

    def patch(obj, attr, new):
        saved.append((obj, attr, getattr(obj, attr)))
        setattr(obj, attr, new)

    if name == 'lost_pitch_flip':
        def send_setpoint(self, roll, pitch, yawrate, thrust):
            if thrust > 0xFFFF or thrust < 0:
                raise ValueError('Thrust must be between 0 and 0xFFFF')
            if self._x_mode:
                roll, pitch = 0.707 * (roll - pitch), 0.707 * (roll + pitch)
            pk = CRTPPacket()
            pk.port = CRTPPort.COMMANDER
            pk.data = struct.pack('<fffH', roll, pitch, yawrate, thrust)
            self._cf.send_packet(pk)
        patch(cm.Commander, 'send_setpoint', send_setpoint)
    elif name == 'thrust_clipped':
        def send_setpoint(self, roll, pitch, yawrate, thrust):
            thrust = min(max(thrust, 0), 0xFFFF)
            if self._x_mode:
                roll, pitch = 0.707 * (roll - pitch), 0.707 * (roll + pitch)
            pk = CRTPPacket()
            pk.port = CRTPPort.COMMANDER
            pk.data = struct.pack('<fffH', roll, -pitch, yawrate, thrust)
            self._cf.send_packet(pk)
        patch(cm.Commander, 'send_setpoint', send_setpoint)
    elif name == 'xmode_wrong_rotation':
        def send_setpoint(self, roll, pitch, yawrate, thrust):
            if thrust > 0xFFFF or thrust < 0:
                raise ValueError('Thrust must be between 0 and 0xFFFF')
            if self._x_mode:
                roll, pitch = 0.707 * (roll + pitch), 0.707 * (roll - pitch)
            pk = CRTPPacket()
            pk.port = CRTPPort.COMMANDER
            pk.data = struct.pack('<fffH', roll, -pitch, yawrate, thrust)
            self._cf.send_packet(pk)
        patch(cm.Commander, 'send_setpoint', send_setpoint)
    elif name == 'legacy_threshold_lt8':
        def send_hover_setpoint(self, vx, vy, yawrate, zdistance):
            pk = CRTPPacket()
            pk.port = CRTPPort.COMMANDER_GENERIC
            pk.channel = cm.SET_SETPOINT_CHANNEL
            if self._cf.platform.get_protocol_version() < 8:
                pk.data = struct.pack('<Bffff', cm.TYPE_HOVER_LEGACY, vx, vy, -yawrate, zdistance)
            else:
                pk.data = struct.pack('<Bffff', cm.TYPE_HOVER, vx, vy, yawrate, zdistance)
            self._cf.send_packet(pk)
        patch(cm.Commander, 'send_hover_setpoint', send_hover_setpoint)
    elif name == 'legacy_yaw_not_negated':
        def send_zdistance_setpoint(self, roll, pitch, yawrate, zdistance):
            pk = CRTPPacket()
            pk.port = CRTPPort.COMMANDER_GENERIC
            pk.channel = cm.SET_SETPOINT_CHANNEL
            t = cm.TYPE_ZDISTANCE_LEGACY if self._cf.platform.get_protocol_version() <= 8 else cm.TYPE_ZDISTANCE
            pk.data = struct.pack('<Bffff', t, roll, pitch, yawrate, zdistance)
            self._cf.send_packet(pk)
        patch(cm.Commander, 'send_zdistance_setpoint', send_zdistance_setpoint)
    elif name == 'wrong_type_code':
        patch(cm, 'TYPE_POSITION', 6)
    elif name == 'goto_flags_swapped':
        def go_to(self, x, y, z, yaw, duration_s, relative=False, linear=False, group_mask=0):
            if self._cf.platform.get_protocol_version() < 8:
                self._send_packet(struct.pack('<BBBfffff', self.COMMAND_GO_TO, group_mask, relative,
                                              x, y, z, yaw, duration_s))
            else:
                self._send_packet(struct.pack('<BBBBfffff', self.COMMAND_GO_TO_2, group_mask, linear, relative,
                                              x, y, z, yaw, duration_s))
        patch(hl.HighLevelCommander, 'go_to', go_to)
    elif name == 'takeoff_fields_swapped':
        def takeoff(self, absolute_height_m, duration_s, group_mask=0, yaw=0.0):
            target_yaw, use = (0.0, True) if yaw is None else (yaw, False)
            self._send_packet(struct.pack('<BBff?f', self.COMMAND_TAKEOFF_2, group_mask, target_yaw,
                                          absolute_height_m, use, duration_s))
        patch(hl.HighLevelCommander, 'takeoff', takeoff)
    elif name == 'wrong_width':
        def send_notify_setpoint_stop(self, remain_valid_milliseconds=0):
            pk = CRTPPacket()
            pk.port = CRTPPort.COMMANDER_GENERIC
            pk.channel = cm.META_COMMAND_CHANNEL
            pk.data = struct.pack('<BH', cm.TYPE_META_COMMAND_NOTIFY_SETPOINT_STOP, remain_valid_milliseconds)
            self._cf.send_packet(pk)
        patch(cm.Commander, 'send_notify_setpoint_stop', send_notify_setpoint_stop)
    elif name == 'wrong_port':
        def _send_packet(self, data):
            pk = CRTPPacket()
            pk.port = CRTPPort.COMMANDER_GENERIC
            pk.data = data
            self._cf.send_packet(pk)
        patch(hl.HighLevelCommander, '_send_packet', _send_packet)
    elif name == 'wrong_channel':
        patch(lo.Localization, 'GENERIC_CH', 0)
    elif name == 'header_port_masked':
        def _update_header(self):
            self.header = ((self._port & 0x07) << 4 | 3 << 2 | (self.channel & 0x03))
        patch(cs.CRTPPacket, '_update_header', _update_header)
    elif name == 'quat_component_order':
        import numpy as np

        def compress_quaternion(quat):
            quat_n = np.array(quat) / np.linalg.norm(quat)
            i_largest = 0
            for i in range(1, 4):
                if abs(quat_n[i]) > abs(quat_n[i_largest]):
                    i_largest = i
            negate = quat_n[i_largest] < 0
            comp = i_largest
            for i in range(3, -1, -1):
                if i != i_largest:
                    negbit = int((quat_n[i] < 0) ^ negate)
                    mag = int(((1 << 9) - 1) * (abs(quat_n[i]) * np.sqrt(2)) + 0.5)
                    comp = (comp << 10) | (negbit << 9) | mag
            return comp
        patch(cm, 'compress_quaternion', compress_quaternion)
    elif name == 'fixed_point_scale':
        def send_full_state_setpoint(self, pos, vel, acc, orientation, rollrate, pitchrate, yawrate):
            def v(vec):
                return int(vec[0] * 1000), int(vec[1] * 1000), int(vec[2] * 1000)
            x, y, z = v(pos)
            vx, vy, vz = v(vel)
            ax, ay, az = v(acc)
            rr, pr, yr = int(rollrate * 100), int(pitchrate * 100), int(yawrate * 100)
            pk = CRTPPacket()
            pk.port = CRTPPort.COMMANDER_GENERIC
            pk.data = struct.pack('<BhhhhhhhhhIhhh', cm.TYPE_FULL_STATE, x, y, z, vx, vy, vz, ax, ay, az,
                                  cm.compress_quaternion(orientation), rr, pr, yr)
            self._cf.send_packet(pk)
        patch(cm.Commander, 'send_full_state_setpoint', send_full_state_setpoint)
    elif name == 'int16_wrapped':
        def send_full_state_setpoint(self, pos, vel, acc, orientation, rollrate, pitchrate, yawrate):
            def w(x):
                return ((int(x * 1000) + 32768) % 65536) - 32768
            vals = [w(t) for t in list(pos) + list(vel) + list(acc)]
            pk = CRTPPacket()
            pk.port = CRTPPort.COMMANDER_GENERIC
            pk.data = struct.pack('<BhhhhhhhhhIhhh', cm.TYPE_FULL_STATE, *vals,
                                  cm.compress_quaternion(orientation), w(rollrate), w(pitchrate), w(yawrate))
            self._cf.send_packet(pk)
        patch(cm.Commander, 'send_full_state_setpoint', send_full_state_setpoint)
    elif name == 'spiral_below_v8_sent':
        orig = hl.HighLevelCommander.spiral

        def spiral(self, angle, r0, rF, ascent, duration_s, sideways=False, clockwise=False, group_mask=0):
            self._send_packet(struct.pack('<BBBBfffff', self.COMMAND_SPIRAL, group_mask, sideways, clockwise,
                                          max(min(angle, 2 * math.pi), -2 * math.pi), max(r0, 0), max(rF, 0),
                                          ascent, duration_s))
        patch(hl.HighLevelCommander, 'spiral', spiral)
        del orig
    elif name == 'size_check_removed':
        import cflib.crazyflie as cfm

        def send_packet(self, pk, expected_reply=(), resend=False, timeout=0.2):
            self._send_lock.acquire()
            if self.link is not None:
                self.link.send_packet(pk)
                self.packet_sent.call(pk)
            self._send_lock.release()
        patch(cfm.Crazyflie, 'send_packet', send_packet)
    elif name == 'version_off_by_one':
        import cflib.crazyflie.platformservice as ps
        orig_cb = ps.PlatformService._platform_callback

        def _platform_callback(self, pk):
            orig_cb(self, pk)
            if pk.channel == ps.VERSION_COMMAND and pk.data[0] == ps.VERSION_GET_PROTOCOL:
                self._protocolVersion = pk.data[1] - 1
        patch(ps.PlatformService, '_platform_callback', _platform_callback)
    elif name == 'version_from_any_version_channel_packet':
        import cflib.crazyflie.platformservice as ps

        def _platform_callback(self, pk):
            if pk.channel == ps.VERSION_COMMAND:
                self._protocolVersion = pk.data[1]
                self._callback()
        patch(ps.PlatformService, '_platform_callback', _platform_callback)
    elif name == 'version_from_any_packet_starting_with_0':
        import cflib.crazyflie.platformservice as ps

        def _platform_callback(self, pk):
            if pk.data[0] == ps.VERSION_GET_PROTOCOL and pk.channel != ps.PLATFORM_COMMAND:
                self._protocolVersion = pk.data[1]
                self._callback()
        patch(ps.PlatformService, '_platform_callback', _platform_callback)
    elif name == 'hl_packet_object_kept':
        def _send_packet(self, data):
            pk = self.__dict__.get('_kept_pk')
            if pk is None:
                pk = self.__dict__['_kept_pk'] = CRTPPacket()
                pk.port = CRTPPort.SETPOINT_HL
            pk.data = data
            self._cf.send_packet(pk)
        patch(hl.HighLevelCommander, '_send_packet', _send_packet)
    elif name == 'commander_packet_object_kept':
        kept = CRTPPacket()

        def send_position_setpoint(self, x, y, z, yaw):
            kept.port = CRTPPort.COMMANDER_GENERIC
            kept.channel = cm.SET_SETPOINT_CHANNEL
            kept.data = struct.pack('<Bffff', cm.TYPE_POSITION, x, y, z, yaw)
            self._cf.send_packet(kept)

        def send_stop_setpoint(self):
            kept.port = CRTPPort.COMMANDER_GENERIC
            kept.channel = cm.SET_SETPOINT_CHANNEL
            kept.data = struct.pack('<B', cm.TYPE_STOP)
            self._cf.send_packet(kept)
        patch(cm.Commander, 'send_position_setpoint', send_position_setpoint)
        patch(cm.Commander, 'send_stop_setpoint', send_stop_setpoint)
    elif name == 'quat_unit_length_trusted':
        import numpy as np

        def compress_quaternion(quat):
            quat_n = np.array(quat, dtype=float)
            norm = np.linalg.norm(quat_n)
            if not np.isclose(norm, 1.0, rtol=0, atol=4e-3):
                quat_n = quat_n / norm
            i_largest = 0
            for i in range(1, 4):
                if abs(quat_n[i]) > abs(quat_n[i_largest]):
                    i_largest = i
            negate = quat_n[i_largest] < 0
            comp = i_largest
            for i in range(4):
                if i != i_largest:
                    negbit = int((quat_n[i] < 0) ^ negate)
                    mag = int(((1 << 9) - 1) * (abs(quat_n[i]) * np.sqrt(2)) + 0.5)
                    comp = (comp << 10) | (negbit << 9) | mag
            return comp
        patch(cm, 'compress_quaternion', compress_quaternion)
    else:
        raise common.MachineryError('unknown mutant %s' % name)
    try:
        yield
    finally:
        for obj, attr, old in reversed(saved):
            setattr(obj, attr, old)


MUTANTS = ['lost_pitch_flip', 'thrust_clipped', 'xmode_wrong_rotation', 'legacy_threshold_lt8',
           'legacy_yaw_not_negated', 'wrong_type_code', 'goto_flags_swapped', 'takeoff_fields_swapped',
           'wrong_width', 'wrong_port', 'wrong_channel', 'header_port_masked', 'quat_component_order',
           'fixed_point_scale', 'int16_wrapped', 'spiral_below_v8_sent', 'version_off_by_one', 'size_check_removed',
           'hl_packet_object_kept', 'commander_packet_object_kept', 'quat_unit_length_trusted',
           'version_from_any_version_channel_packet', 'version_from_any_packet_starting_with_0']
# what the newer mutants need: a link that keeps the packet object / nearly-unit quaternions
MUTANT_NEEDS = {'hl_packet_object_kept': 'later', 'commander_packet_object_kept': 'later',
                'quat_unit_length_trusted': 'quat', 'version_from_any_version_channel_packet': 'plat',
                'version_from_any_packet_starting_with_0': 'plat'}


# --------------------------------------------------------------------------- scenario sources
def f32(x):
    return struct.unpack('<f', struct.pack('<f', x))[0]


SPECIAL_FLOATS = [0.0, -0.0, 1.0, -1.0, 0.5, -2.5, 0.1, -0.3, 3.14159, 6.2831853, 6.2831855, 6.2831860, -6.2831860,
                  7.0, -7.0, 100.5, -128.0, 1e-3, 1e9, -1e9, 3.4028234663852886e38, -3.4028234663852886e38,
                  3.4028235677973366e38, 1.401298464324817e-45, -1.401298464324817e-45, 1.1754942106924411e-38,
                  1.1754943508222875e-38, 1e-46, 16777217.0, float('inf'), float('-inf'), float('nan'),
                  -float('nan'), 1e39, -1e39, 1.7976931348623157e308, 65535.0, 0.70710678, 1.0000001, 123456.789]
INT_U8 = [0, 1, 2, 127, 128, 254, 255, 256, 257, -1, -128, 65535, 65536, 2 ** 31, 2 ** 32]
INT_U16 = [0, 1, 10001, 30000, 60000, 65534, 65535, 65536, 65537, -1, -65536, 2 ** 31 - 1, 2 ** 31, 2 ** 32, 2 ** 64]
INT_U32 = [0, 1, 255, 256, 65535, 65536, 2 ** 24, 2 ** 31 - 1, 2 ** 31, 2 ** 32 - 1, 2 ** 32, 2 ** 32 + 1, -1, -2 ** 31, 2 ** 64]
MILLI = [0.0, -0.0, 1.5, -0.25, 1.2345, -1.2345, 0.001, -0.001, 0.0005, -0.0005, 0.0009999, 32.767, 32.7675, 32.7679,
         32.768, 32.75, 32.875, -32.768, -32.7685, -32.769, -32.7689, -32.875, 0.029, 0.057, 1e6, -1e6, 1e300, 4.35,
         8.7, 0.1, 0.7, float('nan'), float('inf'), float('-inf'), 2.5e-320]
QUATS = [(0, 0, 0, 1), (0, 0, 0, -1), (1, 0, 0, 0), (0, -1, 0, 0), (1, 2, 3, 4), (-3, 3, -3, 3), (0, 0, 0, 0),
         (-16, 5, 0, -7), (1, 1, 0, 0), (16, 16, 16, -16), (2, -9, 9, 1), (7, 0, -7, 0), (1, 0, 0, 16),
         (-5, -6, -7, -8), (1, 1, 1, 1), (-1, -1, -1, -1), (0, 16, 15, 0), (0, 0, 1, -1), (3, 4, 0, 0)]
# nearly-unit quaternions: direction (integers) x length factor; n_i * j / 2^20 is exact, so the argument
# stays on the monitor's integer grid.  Hand-typed ones: a two/three-decimal constant times a 0/+-1 pattern
QUAT_FACTORS = [0.9, 0.98, 0.99, 0.9901, 0.995, 0.997, 0.998, 0.999, 0.9999, 1 - 1e-6, 1 + 1e-6, 1.0001, 1.001, 1.002,
                1.003, 1.005, 1.0075, 1.0099, 1.0101, 1.02, 1.1]
QUAT_TIES = [(0, 0, 1, 1), (1, -1, 0, 0), (0, 1, 0, -1), (-1, 0, 0, 1), (1, 1, 1, 0), (0, -1, 1, 1), (1, -1, 1, -1),
             (1, 1, 1, 1), (0, 0, 0, 1), (0, 0, -1, 0)]
QUAT_TYPED = [0.71, 0.7, 0.707, 0.7071, 0.70711, 0.708, 0.58, 0.577, 0.5774, 0.5, 0.501, 0.4999, 0.505, 1.0, 0.999,
              1.004, 1.01, 0.99]


def scaled_quat(n, f):
    """direction n (integers), length f up to 2^-20."""
    j = int(round(1048576.0 * f / math.sqrt(sum(x * x for x in n))))
    return [x * j / 1048576.0 for x in n]


def near_unit_quats():
    out = []
    for n in [q for q in QUATS if any(q)] + QUAT_TIES:
        for f in QUAT_FACTORS:
            out.append(scaled_quat(n, f))
    for n in QUAT_TIES:
        for c in QUAT_TYPED:
            out.append([x * c for x in n])
    return out


LISTS = [[], [0], [15], [15, 1], [16], [-1], [3, 7, 11], [2, 16, 1], list(range(16)), [5, 2, 9], [0, 15],
         [1, 1], [15, 15], [0, 3, 3], [4, 4, 4, 4]]


def rnd_float(rng):
    r = rng.random()
    if r < 0.35:
        return f32(rng.uniform(-10, 10))
    if r < 0.5:
        return rng.uniform(-1000, 1000)                         # a double that needs rounding
    if r < 0.6:
        return struct.unpack('<f', struct.pack('<I', rng.getrandbits(32)))[0]   # any bit pattern
    if r < 0.7:
        return rng.randint(-1024, 1024) / 8.0
    if r < 0.75:
        return float(rng.randint(-5, 5))
    return rng.choice(SPECIAL_FLOATS)


def rnd_arg(rng, cmd, i, k):
    if k == 'f':
        if cmd == 'hl_spiral' and i < 3 and rng.random() < 0.5:
            return rng.choice([f32(rng.uniform(-8, 8)), 2 * math.pi, -2 * math.pi, f32(2 * math.pi), 6.2831855,
                               -0.5, -1e-3, 0.0, -0.0, 7.0, -7.0])
        return rnd_float(rng)
    if k == 'i':
        if cmd == 'setpoint':
            return rng.choice(INT_U16 + [rng.randint(0, 65535)] * 6)
        if (cmd, i) in (('notify_stop', 0), ('hl_define_traj', 1)):
            return rng.choice(INT_U32 + [rng.getrandbits(32)] * 6)
        if cmd == 'hl_define_traj' and i == 3:
            return rng.choice([0, 1])
        return rng.choice(INT_U8 + [rng.randint(0, 255)] * 8)
    if k == 'b':
        return rng.random() < 0.5
    if k == 'o':
        return None if rng.random() < 0.3 else rnd_float(rng)
    if k == 'm':
        r = rng.random()
        if r < 0.4:
            return rng.uniform(-33, 33)
        if r < 0.6:
            return rng.randint(-33000, 33000) / 1000.0
        if r < 0.7:
            return rng.randint(-40, 40) * 0.125 * 8
        return rng.choice(MILLI)
    if k == 'r':
        n = rng.choice([0, 1, 2, 13, 27, 28, 28, 29, 30, 31, 64, rng.randint(0, 40)])
        return [rng.randrange(256) for _ in range(n)]
    if k == 'l':
        r = rng.random()
        if r < 0.6:
            return rng.sample(range(16), rng.randint(0, 16))
        if r < 0.75:
            return [rng.randint(0, 15) for _ in range(rng.randint(1, 5))]      # may repeat
        return rng.choice(LISTS)
    raise common.MachineryError(k)


def rnd_quat(rng):
    r = rng.random()
    if r < 0.3:
        q = rng.choice(QUATS)
    elif r < 0.4:
        q = rng.choice(QUAT_TIES)
    else:
        q = tuple(rng.randint(-16, 16) for _ in range(4))
    r = rng.random()
    if r < 0.4 and any(q):
        # nearly unit length (what a float32 pipeline or a hand-typed attitude gives), and other lengths
        f = rng.choice(QUAT_FACTORS) if rng.random() < 0.5 else rng.uniform(0.985, 1.015)
        return scaled_quat(q, f)
    if r < 0.5 and max(abs(n) for n in q) <= 1:
        c = rng.choice(QUAT_TYPED)
        return [n * c for n in q]
    s = 2.0 ** rng.choice([0, 0, -4, -4, -10, 3, 10])
    return [float(n) * s for n in q]


def rnd_args(rng, cmd):
    ks = KINDS[cmd]
    a = []
    i = 0
    while i < len(ks):
        if ks[i] == 'q':
            a.extend(rnd_quat(rng))
            i += 4
            continue
        a.append(rnd_arg(rng, cmd, i, ks[i]))
        i += 1
    if cmd == 'setpoint' and rng.random() < 0.7:
        # x-mode is decided on the 1/8 degree grid
        a[0] = rng.randint(-1024, 1024) / 8.0
        a[1] = rng.randint(-1024, 1024) / 8.0
    return a


def on_grid(x):
    return isinstance(x, float) and math.isfinite(x) and abs(x) <= 128 and x * 8 == int(x * 8) \
        and not (x == 0 and math.copysign(1, x) < 0)


def call_step(cmd, a):
    return ['call', cmd, [enc(v) for v in a]]


def chunked(calls, rng, per=40):
    """calls: list of (ver, xmode, step) -> scenarios of about `per` calls, with explicit version and
    x-mode events whenever they change."""
    scs, cur, n = [], [], 0
    ver, xm = None, None
    for (v, x, st) in calls:
        if n >= per:
            scs.append(cur)
            cur, n, ver, xm = [], 0, None, None
        if ver is None:
            ver, xm = -1, False        # a fresh Crazyflie
        if v != ver:
            cur.append(['ver', v])
            ver = v
        if x != xm:
            cur.append(['xmode', x])
            xm = x
        cur.append(st)
        n += 1
    if cur:
        scs.append(cur)
    return scs


def enumerated_calls(tier):
    """Own enumeration (no randomness): every command x every version x x-mode on/off x every
    boolean/enum combination x boundary integers x float argument rotations over SPECIAL_FLOATS."""
    calls = []
    nrot = len(SPECIAL_FLOATS) if tier == 'thorough' else 14
    for cmd in CMDS:
        ks = KINDS[cmd]
        vers = VERSIONS
        xms = [False, True] if cmd == 'setpoint' else [False]
        bool_pos = [i for i, k in enumerate(ks) if k == 'b']
        int_pos = [i for i, k in enumerate(ks) if k == 'i']
        rots = range(nrot) if any(k in 'fomq' for k in ks) else [0]
        for v in vers:
            for xm in xms:
                for r in rots:
                    base = []
                    i = 0
                    while i < len(ks):
                        k = ks[i]
                        if k == 'f':
                            base.append(SPECIAL_FLOATS[(r * 3 + i * 7) % len(SPECIAL_FLOATS)])
                        elif k == 'o':
                            base.append(None if (r + i) % 4 == 0 else SPECIAL_FLOATS[(r + i * 5) % len(SPECIAL_FLOATS)])
                        elif k == 'm':
                            base.append(MILLI[(r * 5 + i * 3) % len(MILLI)] if r % 3 else
                                        [0.0, 1.5, -0.25, 1.2345, -1.2345, 32.767, -32.768, 0.001][(r + i) % 8])
                        elif k == 'q':
                            q = QUATS[(r + 1) % len(QUATS)] if r % 4 == 0 else QUATS[(r * 7) % len(QUATS)]
                            base.extend(float(n) for n in q)
                            i += 4
                            continue
                        elif k == 'i':
                            base.append(0 if cmd != 'setpoint' else 30000)
                        elif k == 'b':
                            base.append(False)
                        elif k == 'l':
                            base.append(LISTS[(r + i) % len(LISTS)])
                        elif k == 'r':
                            base.append([(7 * j + r) % 256 for j in range(1, 13)])
                        i += 1
                    if cmd == 'setpoint' and xm:
                        base[0] = [0.0, 1.0, -2.5, 100.5, 0.125, -128.0, 45.0, 30.0][r % 8]
                        base[1] = [0.0, 1.0, -2.5, 100.5, 0.125, -128.0, 45.0, 30.0][(r // 8 + r) % 8]
                    for bs in itertools.product([False, True], repeat=len(bool_pos)):
                        a = list(base)
                        for p, b in zip(bool_pos, bs):
                            a[p] = b
                        calls.append((v, xm, call_step(cmd, a)))
                # boundary integers, one position at a time (the others at a valid value)
                for p in int_pos:
                    if cmd == 'setpoint':
                        vals = INT_U16
                    elif (cmd, p) in (('notify_stop', 0), ('hl_define_traj', 1)):
                        vals = INT_U32
                    else:
                        vals = INT_U8
                    if v not in (7, 9) and len(vals) > 6 and tier == 'quick':
                        vals = vals[:10]
                    for n in vals:
                        a = list(base)
                        a[p] = n
                        calls.append((v, False, call_step(cmd, a)))
        if cmd == 'lh_persist':
            for g in LISTS:
                for c in LISTS:
                    calls.append((9, False, call_step(cmd, [g, c])))
            for b in range(16):
                calls.append((9, False, call_step(cmd, [[b], [15 - b]])))
        if cmd == 'lpp_raw':
            for n in range(0, 41):
                calls.append((9, False, call_step(cmd, [n % 256, [(3 * j + n) % 256 for j in range(n)]])))
        if cmd in ('hl_stop', 'hl_group_mask'):
            for n in range(256):
                calls.append((9, False, call_step(cmd, [n])))
    # full state: every direction x lengths around 1, the other fields rotating
    for r, q in enumerate(near_unit_quats()):
        ms = [[0.0, 1.5, -0.25, 1.2345, -1.2345, 32.767, -32.768, 0.001][(r + i) % 8] for i in range(12)]
        calls.append((9 if r % 5 else 8, False, call_step('full_state', ms[:9] + q + ms[9:])))
    # x-mode grid: all pairs of a coarse grid
    grid = [-128.0, -45.0, -30.0, -2.5, -0.125, 0.0, 0.125, 1.0, 7.5, 30.0, 45.0, 100.5, 128.0]
    if tier == 'thorough':
        grid = sorted(set(grid + [x / 8.0 for x in range(-1024, 1025, 37)]))
    for r in grid:
        for p in grid:
            calls.append((9, True, call_step('setpoint', [r, p, 0.0, 30000])))
            if tier == 'thorough':
                calls.append((9, False, call_step('setpoint', [r, p, 0.0, 30000])))
    # thrust: every boundary value, x-mode on and off
    for t in INT_U16:
        for xm in (False, True):
            calls.append((9, xm, call_step('setpoint', [1.0, -2.5, 0.5, t])))
    return calls


def valid_args(cmd, v):
    """Arguments every command accepts (two variants that differ in every field they can)."""
    ks = KINDS[cmd]
    a, i = [], 0
    while i < len(ks):
        k = ks[i]
        if k == 'f':
            a.append([0.5, -1.25, 2.0, 0.25, 1.5, -0.75, 3.0][i % 7] + v)
        elif k == 'o':
            a.append(None if v else 0.5)
        elif k == 'm':
            a.append(0.25 * (i + 1) + v)
        elif k == 'q':
            a.extend([1.0, 2.0, 3.0, 4.0] if v else [0.0, 0.0, 1.0, -1.0])
            i += 4
            continue
        elif k == 'i':
            if cmd == 'setpoint':
                a.append(30000 + v)
            elif cmd == 'hl_define_traj' and i == 3:
                a.append(v % 2)
            elif (cmd, i) in (('notify_stop', 0), ('hl_define_traj', 1)):
                a.append(70000 * v + 5)
            else:
                a.append(1 + 2 * v + i)
        elif k == 'b':
            a.append((i + v) % 2 == 0)
        elif k == 'l':
            a.append([1, 3] if v else [0, 15, 7])
        elif k == 'r':
            a.append([(5 * j + v) % 256 for j in range(3 + 9 * v)])
        i += 1
    return a


def laterise(sc, rng, p_drain=0.2):
    """The same scenario on a link that keeps the packet objects; the link thread runs (drain) now and then."""
    out = [['link', 'later']]
    for st in sc:
        out.append(st)
        if st[0] == 'call' and rng.random() < p_drain:
            out.append(['drain'])
    return out


VERSION_DEPENDENT = ['hover', 'velocity_world', 'zdistance', 'hl_goto', 'hl_spiral']


def rnd_plat(rng, ver):
    """Any packet the firmware may send on the PLATFORM port that is not a new negotiation: every channel, any
    length and content; a protocol-version answer only as a duplicate of the negotiated one."""
    ch = rng.randrange(4)
    n = rng.choice([0, 1, 2, 2, 2, 3, 5, 30])
    d = [rng.choice([0, 0, 0, 1, 2, 3, 255, rng.randrange(256)])] if n else []
    d += [rng.choice([0, 1, 3, 7, 8, 9, 10, 200, rng.randrange(256)]) for _ in range(max(0, n - 1))]
    if ch == 1 and len(d) >= 2 and d[0] == 0:
        if ver < 0:
            d[0] = 1                     # (firmware-version answer instead)
        else:
            d[1] = ver
    return ['plat', ch, d]


def with_traffic(sc, rng, p=0.3):
    """The same scenario with other PLATFORM-port traffic arriving between the commands."""
    out, ver = [], -1
    for st in sc:
        if st[0] == 'ver':
            ver = st[1]
        if st[0] == 'call' and rng.random() < p:
            for _ in range(rng.choice([1, 1, 2])):
                out.append(rnd_plat(rng, ver))
        out.append(st)
    return out


def plat_scenarios(first_bytes=range(256)):
    """Systematic: after a negotiation, one PLATFORM-port packet for every channel x first byte (second byte = a
    version on the other side of both switches), and the short ones; a version-dependent command after each.
    Deterministic."""
    pkts = []
    for ch in range(4):
        for d0 in first_bytes:
            pkts.append((ch, [d0]))      # second byte appended below
        for d in ([], [0], [1], [7]):
            pkts.append((ch, list(d) + ['short']))
    scs, cur, n, k = [], None, 0, 0
    for v in (10, 7):
        other = 7 if v == 10 else 10
        for (ch, d) in pkts:
            if v == 7 and d and d[-1] != 'short' and 16 <= d[0] < 255:
                continue                  # the other direction: the low first bytes and 255 only
            if cur is None or n >= 40:
                cur, n = [['ver', v]], 0
                scs.append(cur)
            if d and d[-1] == 'short':
                data = d[:-1]
            else:
                data = d + [other]
                if ch == 1 and d[0] == 0:
                    data = [0, v]          # the answer once more: no new negotiation
                elif k % 7 == 3:
                    data.append(k % 256)   # longer packets too
            cur.append(['plat', ch, data])
            cmd = VERSION_DEPENDENT[k % len(VERSION_DEPENDENT)]
            cur.append(call_step(cmd, valid_args(cmd, k % 2)))
            n += 1
            k += 1
        cur = None
    return scs


def pair_bursts(cmds, versions=(9,)):
    """Every ordered pair of commands back to back on the "later" link: the second call is made while the
    link still keeps the packet object of the first.  Deterministic."""
    scs, cur, n = [], None, 0
    for v in versions:
        for c1 in cmds:
            for c2 in cmds:
                if cur is None or n >= 40:
                    cur, n = [['link', 'later'], ['ver', v]], 0
                    scs.append(cur)
                cur.append(call_step(c1, valid_args(c1, 0)))
                cur.append(call_step(c2, valid_args(c2, 1)))
                n += 2
                if (len(c1) + len(c2)) % 3 == 0:
                    cur.append(['drain'])
        cur = None
    return scs


def sensitivity_scenarios(ecalls, rng):
    """A fixed slice of the enumeration for the mutant runs: every command on both sides of the
    version switches, x-mode pairs, thrust and payload-size boundaries, all headers."""
    cnt, keep = {}, []
    for (v, x, st) in ecalls:
        cmd = st[1]
        if v not in (7, 8, 9):
            continue
        if cmd == 'lh_persist' and any(len(set(dec(a))) != len(dec(a)) for a in st[2]):
            continue            # the unchanged code already fails these
        key = (cmd, v, x)
        cnt[key] = cnt.get(key, 0) + 1
        if cnt[key] <= (80 if cmd == 'lpp_raw' else 45 if cmd == 'setpoint' else 10):
            keep.append((v, x, st))
    return chunked(keep, rng) + [header_steps()]


def header_steps():
    return [['hdr', how, p, c] for how in ('set_header', 'attrs', 'attrs_rev', 'send')
            for p in range(16) for c in range(4)]


def random_calls(rng, n):
    calls = []
    for _ in range(n):
        cmd = rng.choice(CMDS)
        v = rng.choice(VERSIONS + [8, 9, 0, 255, rng.randint(0, 255)])
        xm = (rng.random() < 0.5) if cmd == 'setpoint' else (rng.random() < 0.1)
        a = rnd_args(rng, cmd)
        if cmd == 'setpoint' and xm and not (on_grid(a[0]) and on_grid(a[1])):
            xm = False
        calls.append((v, xm, call_step(cmd, a)))
    return calls


# --------------------------------------------------------------------------- spec -> code
def calls_from_graph(g):
    """Every reachable state of the design spec that is the result of a call or a header
    construction -> (ver, xmode, step, expected)."""
    out = []
    for sid in sorted(g.states, key=lambda s: int(s)):
        st = g.states[sid]
        last = st['last']
        if last['kind'] == 'cmd':
            a = py_args_from_records(last['args'])
            exp = {'out': last['out'], 'pks': [{'h': p['h'], 'data': list(p['data'])} for p in last['pks']]}
            out.append((last['ver'], last['xmode'], call_step(last['cmd'], a), exp,
                        [_plain(r) for r in last['args']]))
        elif last['kind'] == 'hdr':
            out.append((st['ver'], st['xmode'], ['hdr', 'attrs', last['port'], last['chan']], {'h': last['h']}, None))
    return out


def _by_cmd(events):
    d = {}
    for e in events:
        key = e.get('cmd', e['e'])
        if key == 'lh_persist':
            key += ':repeated' if any(len(set(r['v'])) != len(r['v']) for r in e['args']) else ':distinct'
        d[key] = d.get(key, 0) + 1
    return d


def _plain(r):
    d = dict(r)
    for k in ('b', 'v'):
        if k in d and isinstance(d[k], (list, tuple)):
            d[k] = list(d[k])
    return d


def _same(e, exp):
    if e['e'] == 'ser' or 'pk' in exp:
        return e['e'] == 'ser' and 'pk' in exp and e['pk'] == exp['pk']
    if e['e'] == 'call':
        return 'out' in exp and e['out'] == exp['out'] and e['pks'] == exp['pks']
    return e['e'] == 'hdr' and 'h' in exp and e['h'] == exp['h']


def compare_expected(events, expected):
    """events: the events of a trace; expected: [(step index, what the spec says, argument records)], in the
    order of the steps.  Compared step by step (a changed tree may produce fewer or more events for a step:
    that is a mismatch of this step, the following steps stay aligned)."""
    by = {}
    for e in events:
        by.setdefault(e['st'], []).append(e)
    ok, bad, used = 0, [], {}
    for (st, exp, recs) in expected:
        i = used.get(st, 0)
        used[st] = i + 1
        lst = by.get(st, [])
        if i >= len(lst):
            bad.append(({'e': 'missing', 'st': st}, exp))
            continue
        e = lst[i]
        if e['e'] == 'call' and 'out' in exp and recs is not None and e['args'] != recs:
            raise common.MachineryError('argument conversion is not the inverse of the spec form: %r vs %r'
                                        % (e['args'], recs))
        if _same(e, exp):
            ok += 1
        else:
            bad.append((e, exp))
    return ok, bad


# --------------------------------------------------------------------------- judging
def strip(tr):
    """What TLC gets: the events without the harness-only annotations."""
    ev = []
    for e in tr['ev']:
        e = {k: v for k, v in e.items() if k not in ('exc', 'how', 'st', 'of', 'same', 'no', 'pv')}
        ev.append(e)
    return {'id': tr['id'], 'ver0': tr['ver0'], 'xmode0': tr['xmode0'], 'ev': ev}


def judge(out, traces, label, count=True):
    for i, t in enumerate(traces):
        t['id'] = i + 1
    # few, large batches: a JVM start costs more than judging a thousand events
    chunk = max(100, (len(traces) + common.NCPU - 1) // common.NCPU)
    verdicts, st = common.validate_traces(TRACE_SPEC, TRACE_CFG, [strip(t) for t in traces], chunk=chunk)
    if count:
        out.traces += len(traces)
        out.states += st['states']
        out.transitions += st['transitions']
    out.tlc_runs.append({'config': 'TRACE_Commands (%s)' % label, 'states': st['states'],
                         'transitions': st['transitions'], 'wall_s': round(st['wall_s'], 2),
                         'traces': len(traces), 'batches': st['batches']})
    bad, drift = [], []
    for t in traces:
        clause, at, conf, conf_at, field = verdicts[t['id']]
        if clause != 'ok':
            bad.append((t, clause, at, field))
        elif not conf:
            drift.append((t, conf_at))
    return bad, drift


def signature(trace, clause, at, field):
    """Violated clause + command + canonical witness class."""
    e = trace['ev'][at - 1]
    if e['e'] == 'hdr':
        return '%s/header' % clause
    ver, xm = negotiated(trace, at), trace['xmode0']
    for x in trace['ev'][:at - 1]:
        if x['e'] == 'xmode':
            xm = x['v']
    cls = []
    cmd = e['cmd']
    if cmd in ('velocity_world', 'zdistance', 'hover'):
        cls.append('ver<=8' if ver <= 8 else 'ver>=9')
    if cmd in ('hl_goto', 'hl_spiral'):
        cls.append('ver<8' if ver < 8 else 'ver>=8')
    if cmd == 'setpoint' and xm:
        cls.append('xmode')
    if cmd == 'lh_persist':
        dup = any(len(set(r['v'])) != len(r['v']) for r in e['args'])
        cls.append('repeated-base-station' if dup else 'distinct')
    if field and cmd != 'lh_persist':
        cls.append('field%d' % field)
    if e.get('pv', ver) != ver:
        # the clause that fails depends on which version the stray packet happened to carry: one signature per command
        return 'Emission/%s/stored-version-differs-from-negotiated' % cmd
    if any(not x['same'] for x in late_packets(trace, e)):
        # which clause fails first depends on the command that came next: one signature per command
        return 'Emission/%s/object-changed-after-hand-over' % cmd
    return '/'.join([clause, cmd] + cls)


def late_packets(trace, call_ev):
    """The 'ser' events of the packet objects this call handed to a link that keeps them."""
    return [x for x in trace['ev'] if x['e'] == 'ser' and x.get('of') == call_ev.get('no', -1)]


def context_steps(trace, at):
    ver, xm, lk = trace['ver0'], trace['xmode0'], 'now'
    plat = []
    for x in trace['ev'][:at - 1]:
        if x['e'] == 'ver':
            ver = x['v']
            plat = []
        elif x['e'] == 'plat':
            plat.append(['plat', x['ch'], list(x['d'])])
        elif x['e'] == 'xmode':
            xm = x['v']
        elif x['e'] == 'link':
            lk = x['v']
    steps = []
    if lk != 'now':
        steps.append(['link', lk])
    if ver != -1:
        steps.append(['ver', ver])
    e = trace['ev'][at - 1]
    if e.get('pv', None) is not None and e['pv'] != negotiated(trace, at):
        # the stored version is not the negotiated one: the PLATFORM-port traffic since the negotiation matters
        # (the last packet that carries the stored value in its second byte is enough when there is one)
        last = [p for p in plat if len(p[2]) >= 2 and p[2][1] == e['pv']][-1:]
        steps.extend(last or plat)
    if xm:
        steps.append(['xmode', True])
    return steps


def minimal_replay(trace, at):
    """The steps that reproduce the failing event: link kind, version, x-mode, the call -- and, when the
    packet object was serialised by the link after the call, everything up to that moment (checked by
    re-execution; the whole history when the short form does not reproduce the bytes)."""
    e = trace['ev'][at - 1]
    steps = context_steps(trace, at) + [trace['steps'][e['st']]]
    late = late_packets(trace, e) if e['e'] == 'call' else []
    if all(x['same'] for x in late):
        # nothing happened to the packet object between hand-over and serialisation: the kind of link is
        # irrelevant, the call alone reproduces the bytes
        return [s for s in steps if s[0] != 'link']
    upto = max(x['st'] for x in late)
    steps = context_steps(trace, at) + trace['steps'][e['st']:upto + 1] + [['drain']]
    try:
        t2 = execute(steps)
        c2 = next(x for x in t2['ev'] if x['e'] == 'call')
        if [x['pk'] for x in late_packets(t2, c2)] == [x['pk'] for x in late]:
            return steps
    except Exception:       # noqa -- the short form is an optimisation only
        pass
    return trace['steps'][:upto + 1] + [['drain']]


def run(scs):
    trs = []
    for sc in scs:
        t = execute(sc)
        t['steps'] = sc
        trs.append(t)
    return trs


def report_violations(out, bad):
    # smallest witness of every signature first (finish() keeps the first one per signature)
    def the_step(b):
        return b[0]['steps'][b[0]['ev'][b[2] - 1]['st']]
    bad = sorted(bad, key=lambda b: (len(json.dumps(the_step(b))), json.dumps(the_step(b))))
    seen = set()
    for (t, clause, at, field) in bad:
        e = dict(t['ev'][at - 1])
        sig = signature(t, clause, at, field)
        if sig in seen:             # finish() keeps the first witness of a signature; the others are counted
            out.violation(sig, clause, {'another_witness_of': sig}, {})
            continue
        seen.add(sig)
        steps = minimal_replay(t, at)
        st = the_step((t, clause, at, field))
        pyargs = [dec(x) for x in st[2]] if st[0] == 'call' else st[1:]
        detail = {'event': e, 'python_args': repr(pyargs), 'field': field,
                  'version': [s[1] for s in steps if s[0] == 'ver'] or [-1], 'xmode': any(s[0] == 'xmode' for s in steps)}
        if e['e'] == 'call' and e.get('pv') != negotiated(t, at):
            detail['negotiated_version'] = negotiated(t, at)
            detail['version_held_by_PlatformService'] = e.get('pv')
        late = late_packets(t, e) if e['e'] == 'call' else []
        if late:
            detail['link'] = 'keeps the packet object, serialises later (RadioDriver)'
            detail['on_the_wire'] = [x['pk'] for x in late]
            detail['object_unchanged_since_hand_over'] = [x['same'] for x in late]
        out.violation(sig, clause, detail, {'steps': steps})


# --------------------------------------------------------------------------- the check
BUGS = ('pitch_sign', 'legacy_threshold', 'thrust_clip', 'goto_order', 'mask_add', 'hl_shared_packet', 'quat_unit_shortcut',
        'version_demorgan', 'version_unsolicited')


def _mc_job(job):
    kind, cfg = job
    if kind == 'check':
        return tlc.check('MC_Commands.tla', cfg, workers=4, timeout=3000)
    return tlc.expect_violation('MC_Commands.tla', cfg, workers=4, timeout=600)


def main(tier, seed, replay=None):
    out = common.Outcome('C08', tier, seed)
    rng = random.Random(seed)
    vsched.load_cflib()
    warnings.filterwarnings('ignore')          # the code under test announces legacy packet types (cflib turns them on)
    out.assumptions = [
        'wire layouts: tools/crtp-dissector.lua (HL commander structs, port/channel map), Localization._incoming, '
        'docs/user-guides/python_api.md, and the firmware as remembered for the generic setpoint types, '
        'localization types, platform commands, quatcompress.h and LPP (each field of CommandsProps.Layout names its source)',
        'the negotiated protocol version is the one in the firmware\'s last well-formed answer to the protocol-version request '
        '(PLATFORM port, channel 1, data (0, v)), or -1 after the link-service answer of a firmware without versioning; it is '
        'established by running PlatformService.fetch_platform_informations against these answers; any other packet on the '
        'PLATFORM port negotiates nothing (the harness repeats a version answer only with the negotiated version)',
        'protocol-version thresholds (generic setpoint types 8/9/10 from version 9; go_to_2 and spiral from version 8) '
        'are firmware facts taken from memory',
        "struct.pack('<f', argument) in the harness is the trusted float32 rounding of the argument; NaN matches any NaN, "
        'zero matches zero of either sign',
        'a call that raises or sends nothing is never by itself a violation; an argument without a wire value must raise',
        'x-mode is decided on the 1/8-degree grid |v| <= 128 with 0.7070 <= k <= 0.7072; quaternions on the integer grid |n| <= 16 '
        '(any power-of-two scale); fixed-point fields within 1 LSB; documented spiral saturation accepted',
        'header equality is port + channel (reserved bits 2..3 not inspected, DESIGN 3.1(3)); ports 0..15, channels 0..3',
        'what a command emits is what the link puts on the wire for the packet object handed to it; the link may keep '
        'the object and read header and data later, but no later than when it accepts the next object (RadioDriver: '
        'out_queue of one, put() returns after the radio thread took the previous object)',
    ]
    if replay:
        rp = json.load(open(replay))['replay']
        trs = run([rp['steps']])
        bad, _ = judge(out, trs, 'replay')
        report_violations(out, bad)
        out.evaluations = 1
        return out.finish()

    # 1. design spec against the property: exhaustive; every bug variant must be refuted.
    #    (quick tier: the run that dumps the graph for step 2 is the exhaustive check of MC_Commands_quick)
    cfg = 'MC_Commands_quick.cfg' if tier == 'quick' else 'MC_Commands_thorough.cfg'
    rg, g = tlc.dump_graph('MC_Commands.tla', 'MC_Commands_quick.cfg', timeout=1200)
    if tier == 'quick':
        out.add_tlc(cfg, rg)
    else:
        out.add_tlc(cfg, tlc.check('MC_Commands.tla', cfg, timeout=3000))
    # the link that keeps the packet object: Build / Hand / Ser interleavings, two calls in flight
    dcfg = 'MC_Commands_defer.cfg' if tier == 'quick' else 'MC_Commands_defer_thorough.cfg'
    jobs = [('check', 'MC_Commands_dup.cfg'), ('check', dcfg), ('check', 'MC_Commands_plat.cfg')] + [('refute', 'MC_Commands_bug_%s.cfg' % b) for b in BUGS]
    for (kind, c), r in zip(jobs, common.pmap(_mc_job, jobs, nproc=4, chunksize=1)):
        if kind == 'check':
            out.add_tlc(c, r)
        else:
            out.sensitivity['spec:Bug=' + c[len('MC_Commands_bug_'):-4]] = 'refuted (%s) after %d states' % (r.violated, r.distinct)

    # 2. spec -> code: every call state of the model-checked graph driven through the real API
    gcalls = calls_from_graph(g)
    rs, behs = tlc.simulate('MC_Commands.tla', 'SIM_Commands.cfg', num=(60 if tier == 'quick' else 3000), depth=24,
                            seed=seed % 100000, timeout=1800)
    out.add_tlc('SIM_Commands.cfg (-simulate)', rs)
    sim_scs, sim_exp = [], []
    n_later = n_plat = 0
    for beh in behs:
        sc, exp = [], []
        open_call, open_sers = None, []      # Build seen, Hand not yet: the call runs when Hand is reached
        for label, st in beh[1:]:
            name = label.split('(')[0].strip()
            args = tlc.parse_label(label)[1] if name in ('SetVersion', 'SetXMode', 'MakeHeader', 'SetLink',
                                                          'PlatformPacket') else []
            if name == 'SetVersion':
                sc.append(['ver', args[0]])
            elif name == 'SetXMode':
                sc.append(['xmode', args[0]])
            elif name == 'PlatformPacket':
                sc.append(['plat', args[0], list(args[1])])
                n_plat += 1
            elif name == 'SetLink':
                sc.append(['link', args[0]])
                n_later += args[0] == 'later'
            elif name == 'Call':
                last = st['last']
                a = py_args_from_records(last['args'])
                sc.append(call_step(last['cmd'], a))
                exp.append((len(sc) - 1, {'out': last['out'], 'pks': [{'h': p['h'], 'data': list(p['data'])} for p in last['pks']]},
                            [_plain(x) for x in last['args']]))
            elif name == 'Build':
                if st['building']['obj'] == -1:       # over at once: raised / nothing to send
                    last = st['last']
                    sc.append(call_step(last['cmd'], py_args_from_records(last['args'])))
                    exp.append((len(sc) - 1, {'out': last['out'], 'pks': []}, [_plain(x) for x in last['args']]))
                else:
                    open_call, open_sers = st['building']['call'], []
            elif name == 'Ser':
                pk = st['last']['pks'][0]
                e = {'pk': {'h': pk['h'], 'data': list(pk['data'])}}
                if open_call is not None:
                    open_sers.append(e)       # the link thread runs while the caller is between Build and Hand:
                else:                         # the harness's link does that inside send_packet (queue full)
                    sc.append(['drain'])
                    exp.append((len(sc) - 1, e, None))
            elif name == 'Hand':
                sc.append(call_step(open_call['cmd'], py_args_from_records(open_call['args'])))
                exp.extend((len(sc) - 1, e, None) for e in open_sers)
                exp.append((len(sc) - 1, {'out': open_call['out'], 'pks': []}, [_plain(x) for x in open_call['args']]))
                open_call, open_sers = None, []
            elif name == 'MakeHeader':
                sc.append(['hdr', 'attrs', args[0], args[1]])
                exp.append((len(sc) - 1, {'h': st['last']['h']}, None))
        if exp:
            sim_scs.append(sc)
            sim_exp.append(exp)
    g_scs = chunked([(v, x, s) for (v, x, s, _e, _r) in gcalls], rng)
    g_traces = run(g_scs)
    # (a link that serialises at once: every call / header step yields exactly one event, on any tree)
    flat = [dict(e, st=i) for i, e in enumerate(e for t in g_traces for e in t['ev'] if e['e'] in ('call', 'hdr'))]
    ok1, badg = compare_expected(flat, [(i, e, rr) for i, (_v, _x, _s, e, rr) in enumerate(gcalls)])
    sim_traces = run(sim_scs)
    ok2, n2 = 0, 0
    bads = []
    for t, exp in zip(sim_traces, sim_exp):
        evs = [e for e in t['ev'] if e['e'] in ('call', 'hdr', 'ser')]
        k, b = compare_expected(evs, exp)
        ok2 += k
        n2 += len(exp)
        bads += b
    out.conformance['spec_to_code'] = {
        'graph_states_driven': len(gcalls), 'graph_matched': ok1,
        'simulated_behaviours': len(sim_scs), 'simulated_steps': n2, 'simulated_matched': ok2,
        'simulated_switches_to_a_link_that_keeps_the_object': n_later,
        'simulated_other_platform_port_packets': n_plat,
        'mismatches_by_command': _by_cmd([e for (e, _x) in badg + bads]),
        'first_mismatches': [{'cmd': e.get('cmd'), 'got': {'out': e.get('out'), 'pks': e.get('pks'), 'h': e.get('h')},
                              'spec': x} for (e, x) in (badg + bads)[:3]]}

    # 3. code -> spec: own enumeration + seeded random, all judged by TLC
    ecalls = enumerated_calls(tier)
    e_scs = chunked(ecalls, rng)
    h_scs = [header_steps()]
    nrand = 12000 if tier == 'quick' else 250000
    r_scs = chunked(random_calls(rng, nrand), rng)
    # every third scenario runs on a link that keeps the packet objects and serialises them later
    # (RadioDriver); plus every ordered pair of commands back to back on such a link
    # another third gets other PLATFORM-port traffic between the commands (the version was negotiated through the
    # real PlatformService; nothing but a protocol-version answer may change it), plus one packet per channel x
    # first byte, each followed by a version-dependent command
    e_scs = [laterise(sc, rng) if i % 3 == 1 else with_traffic(sc, rng) if i % 3 == 2 else sc for i, sc in enumerate(e_scs)]
    r_scs = [laterise(sc, rng) if i % 3 == 1 else with_traffic(sc, rng) if i % 3 == 2 else sc for i, sc in enumerate(r_scs)]
    p_scs = plat_scenarios() + pair_bursts(CMDS) + pair_bursts([c for c in CMDS if c.startswith('hl_')], (7,))
    e_traces, h_traces, r_traces, p_traces = run(e_scs), run(h_scs), run(r_scs), run(p_scs)
    all_traces = g_traces + sim_traces + e_traces + h_traces + r_traces + p_traces
    bad, drift = judge(out, all_traces, 'real code')
    ncalls = sum(1 for t in all_traces for e in t['ev'] if e['e'] in ('call', 'hdr'))
    dclass = {}
    for (t, at) in drift:
        e = t['ev'][at - 1]
        key = e.get('cmd', e['e'])
        if key == 'lh_persist':
            key += ':repeated' if any(len(set(r['v'])) != len(r['v']) for r in e['args']) else ':distinct'
        dclass[key] = dclass.get(key, 0) + 1
    out.conformance['code_to_spec'] = {'traces': len(all_traces), 'events': ncalls,
                                       'first_unexplained_event_by_command': dclass,
                                       'traces_explained_by_design_spec': len(all_traces) - len(drift) - len(bad),
                                       'first_drift': [{'event': {k: v for k, v in t['ev'][at - 1].items() if k != 'args'},
                                                        'python_args': repr([dec(x) for x in t['steps'][t['ev'][at - 1]['st']][2]])
                                                        if t['ev'][at - 1]['e'] == 'call' else None}
                                                       for (t, at) in drift[:3]]}
    report_violations(out, bad)
    out.evaluations = ncalls
    distinct = set()
    for t in all_traces:
        ctx = [t['ver0'], t['xmode0'], 'now']
        for e in t['ev']:
            if e['e'] == 'ver':
                ctx[0] = e['v']
            elif e['e'] == 'xmode':
                ctx[1] = e['v']
            elif e['e'] == 'link':
                ctx[2] = e['v']
            elif e['e'] in ('call', 'hdr'):
                distinct.add(json.dumps([ctx, e.get('cmd'), e.get('args'), e.get('port'), e.get('chan'), e.get('how')],
                                        sort_keys=True))
    out.distinct = len(distinct)
    out.exhaustive = False
    out.rule = ('case = (protocol version, x-mode, command, exact argument forms) or (port, channel, way of setting the header); '
                'sources: every call state of the TLC graph of MC_Commands_quick, TLC -simulate behaviours of SIM_Commands, '
                'own enumeration (28 commands x 6 versions x x-mode x all boolean combinations x boundary integers x rotations '
                'of %d special floats, x-mode grid pairs, all 256 group masks, base-station lists incl. repeats, 4 x 16 x 4 headers), '
                'full-state quaternions: %d directions x %d lengths around 1 and hand-typed constants, '
                'seeded random arguments (any float32 bit pattern, doubles that need rounding, boundary ints, nearly-unit quaternions); '
                'links: one that serialises inside send_packet and one that keeps the packet object (queue of %d, as RadioDriver) -- '
                'every third scenario and all %d ordered pairs of commands back to back run on the latter; '
                'other PLATFORM-port traffic between the commands in another third of the scenarios and systematically '
                '(4 channels x 256 first bytes + short packets, each followed by a version-dependent command, negotiated 10 and 7); '
                'distinct = distinct (context incl. link kind, case) tuples'
                % (len(SPECIAL_FLOATS), len(QUATS) - 1 + len(QUAT_TIES), len(QUAT_FACTORS), CAP, len(CMDS) ** 2))
    pick = [t for t in (e_traces[:1] + r_traces[:1] + h_traces[:1])]
    out.samples = [{'ver0': t['ver0'], 'events': [{k: v for k, v in e.items()} for e in t['ev'][:3]]} for t in pick]

    # 4. sensitivity: in-memory mutants must be rejected by the monitor (one TLC batch run for all
    #    of them); scenarios the unchanged code already fails are left out
    bad_ids = {id(t) for (t, _c, _a, _f) in bad}
    sub = sensitivity_scenarios(enumerated_calls('quick'), rng)       # the same slice in both tiers
    sub_need = {
        'plat': plat_scenarios((0, 1, 2, 5, 255)),
        'later': pair_bursts([c for c in CMDS if c.startswith('hl_')] + ['position', 'stop_setpoint', 'extpos']),
        'quat': chunked([(9, False, call_step('full_state', [0.0] * 9 + q + [0.0] * 3))
                         for q in near_unit_quats()[::3]], rng)}
    sens = []
    for name in MUTANTS:
        with mutant(name):
            for t in run(sub_need.get(MUTANT_NEEDS.get(name), sub)):
                t['tag'] = 'mutant:' + name
                sens.append(t)
    # corrupted recordings of the unchanged code: a 31-byte payload, one byte changed, a packet doubled
    t0 = next(t for t in e_traces if id(t) not in bad_ids and any(e['e'] == 'call' and e['pks'] for e in t['ev']))
    idx = next(i for i, e in enumerate(t0['ev']) if e['e'] == 'call' and e['pks'])
    t1 = copy.deepcopy(t0)
    d = t1['ev'][idx]['pks'][0]['data']
    t1['ev'][idx]['pks'][0]['data'] = d + [0] * (31 - len(d))
    t1['tag'] = 'binding:payload-made-31-bytes'
    t2 = copy.deepcopy(t0)
    d = t2['ev'][idx]['pks'][0]['data']
    d[-1] = (d[-1] + 1) % 256
    t2['tag'] = 'binding:one-byte-changed'
    t3 = copy.deepcopy(t0)
    t3['ev'][idx]['pks'] = t3['ev'][idx]['pks'] * 2
    t3['tag'] = 'binding:packet-duplicated'
    t4 = copy.deepcopy(t0)
    t4['ev'][idx]['pks'][0]['h'] ^= 0x10
    t4['tag'] = 'binding:header-port-bit-flipped'
    # a recording from the link that keeps the objects: the bytes serialised later replaced by the next call's
    t5 = copy.deepcopy(next(t for t in p_traces if id(t) not in bad_ids
                            and sum(1 for e in t['ev'] if e['e'] == 'ser') > 3))
    sers = [e for e in t5['ev'] if e['e'] == 'ser']
    k = next(i for i in range(len(sers) - 1) if sers[i]['pk'] != sers[i + 1]['pk'])
    sers[k]['pk'] = copy.deepcopy(sers[k + 1]['pk'])
    t5['tag'] = 'binding:late-packet-carries-the-next-command'
    # a recording with PLATFORM-port traffic in which the negotiation is recorded with the version on the other
    # side of the switches -- the commands after it were encoded for the version really negotiated
    t6 = copy.deepcopy(next(t for t in p_traces if id(t) not in bad_ids and any(e['e'] == 'plat' for e in t['ev'])
                            and any(e['e'] == 'ver' and e['v'] in (7, 10) for e in t['ev'])))
    pe = next(e for e in t6['ev'] if e['e'] == 'ver' and e['v'] in (7, 10))
    pe['v'] = 7 if pe['v'] == 10 else 10
    t6['tag'] = 'binding:negotiation-recorded-with-the-other-version'
    sens += [t1, t2, t3, t4, t5, t6]
    sbad, sdrift = judge(out, sens, 'mutants and corrupted recordings', count=False)
    rej, drf, tot = {}, {}, {}
    for t in sens:
        tot[t['tag']] = tot.get(t['tag'], 0) + 1
    for (t, c, _a, _f) in sbad:
        rej.setdefault(t['tag'], []).append(c)
    for (t, _a) in sdrift:
        drf[t['tag']] = drf.get(t['tag'], 0) + 1
    for tag in tot:
        cl = rej.get(tag, [])
        if tag.startswith('mutant:'):
            out.sensitivity[tag] = '%d of %d traces rejected by the monitor (%s)' % (len(cl), tot[tag], ','.join(sorted(set(cl))))
            if not cl:
                raise common.MachineryError('monitor did not reject in-memory mutant %s' % tag)
        else:
            ok = bool(cl) or bool(drf.get(tag))
            out.sensitivity[tag] = ('rejected (%s)' % (','.join(sorted(set(cl))) or 'conformance')) if ok else 'ACCEPTED'
            if not ok:
                raise common.MachineryError('trace spec accepted the corrupted recording %s' % tag)
    return out.finish()
