"""C13 -- numeric wire codecs are exact or within their stated resolution.

spec/CodecsProps.tla (the property, exact integer/dyadic arithmetic from spec/CodecsNum.tla),
spec/Codecs.tla (design spec: implementation-shaped codec operators + case-enumerating state
machine), spec/CodecsTrace.tla (monitor + conformance for (input, output) pairs recorded from the
real functions).

Python's duties here: call the real functions, convert every number losslessly into the
(sign, limbs, exponent) form of CodecsNum (float.as_integer_ratio / int), bytes into integer
sequences, and group the calls into traces.  No float is compared in Python for the verdict."""
import itertools
import json
import math
import random
import struct
import types
from fractions import Fraction

from .. import common, tlc, vsched

LB = 15                      # limb bits of spec/CodecsNum.tla
JAVA_ENV = {'JAVA_TOOL_OPTIONS': '-Xss64m'}      # deep (finite) recursion of the bignum operators
JVM = ('-Xss64m',)


# --------------------------------------------------------------------------- exact conversions
def limbs(n):
    out = []
    while n:
        out.append(n & ((1 << LB) - 1))
        n >>= LB
    return out


def unlimbs(ls):
    n = 0
    for i, v in enumerate(ls):
        n |= v << (LB * i)
    return n


def _fin(sign, mag, exp, t):
    """(-1)^sign * mag * 2^exp with mag made odd (canonical); zero -> empty limbs."""
    if mag == 0:
        return {'c': 'fin', 's': sign, 'm': [], 'e': 0, 't': t}
    while mag % 2 == 0:
        mag //= 2
        exp += 1
    return {'c': 'fin', 's': sign, 'm': limbs(mag), 'e': exp, 't': t}


def num(x):
    """A Python/numpy number -> Num record of CodecsProps (lossless)."""
    import numpy as np
    if isinstance(x, (bool, np.bool_)):
        x = int(x)
    if isinstance(x, (int, np.integer)):
        x = int(x)
        return _fin(1 if x < 0 else 0, abs(x), 0, 'int')
    if isinstance(x, (float, np.floating)):
        x = float(x)            # float32/float64 -> double is exact
        if x != x:
            return {'c': 'nan', 's': 0, 'm': [], 'e': 0, 't': 'float'}
        sign = 1 if math.copysign(1.0, x) < 0 else 0
        if x in (math.inf, -math.inf):
            return {'c': 'inf', 's': sign, 'm': [], 'e': 0, 't': 'float'}
        n, d = abs(x).as_integer_ratio()          # d is a power of two
        return _fin(sign, n, -(d.bit_length() - 1), 'float')
    return {'c': 'exc', 's': 0, 'm': [], 'e': 0, 't': type(x).__name__}


EXC = {'c': 'exc', 's': 0, 'm': [], 'e': 0, 't': 'exception'}


def num_value(o):
    """Num -> Fraction / 'inf' / 'nan' (used for conformance evidence and samples only)."""
    if o['c'] != 'fin':
        return o['c'] if o['c'] != 'inf' else ('-inf' if o['s'] else 'inf')
    v = Fraction(unlimbs(o['m'])) * (Fraction(2) ** o['e'])
    return -v if o['s'] else v


def show(o):
    v = num_value(o)
    if isinstance(v, Fraction):
        f = float(v)
        return ('-0.0' if (v == 0 and o['s']) else repr(f if o['t'] == 'float' else int(v))) + ':' + o['t']
    return str(v)


def coord(kind, x):
    d = num(float(x))
    return {'k': kind, 'c': d['c'] if d['c'] != 'nan' else 'inf', 's': d['s'], 'm': d['m'], 'e': d['e']}


# --------------------------------------------------------------------------- the real code
def _enc():
    import cflib.utils.encoding as enc
    return enc


def run_fp16(h, signed):
    arg = h - 65536 if (signed and h >= 32768) else h
    try:
        o = num(_enc().fp16_to_float(arg))
    except Exception:
        o = dict(EXC)
    return {'h': h, 'o': o}


def run_quat(qf):
    """qf: four Python floats (not all zero)."""
    enc = _enc()
    ev = {'q': [num(float(v)) for v in qf]}
    try:
        w = enc.compress_quaternion(list(qf))
        w = int(w)
    except Exception:
        ev['w'] = {'s': 1, 'b': [0, 0, 0, 0], 'hi': []}      # no word: reported as not fitting
        ev['d'] = [dict(EXC)] * 4
        return ev
    a = abs(w)
    ev['w'] = {'s': 1 if w < 0 else 0, 'b': [(a >> (8 * i)) & 255 for i in range(4)], 'hi': limbs(a >> 32)}
    try:
        d = enc.decompress_quaternion(w)
        ev['d'] = [num(d[i]) for i in range(4)]
    except Exception:
        ev['d'] = [dict(EXC)] * 4
    return ev


def _pack_as_uploaded(obj, key):
    """A trajectory element object is packed every time the trajectory is uploaded (write_data to
    another slot, a retry after a failed upload): for two thirds of the cases the judged bytes
    are those of the second / third pack() of the same object."""
    import zlib
    b = obj.pack()
    for _ in range(zlib.crc32(repr(key).encode()) % 3):
        b = obj.pack()
    return b


def run_start(x, y, z, yaw):
    from cflib.crazyflie.mem.trajectory_memory import CompressedStart
    ev = {'hdr': 0, 'lens': [1, 1, 1, 1], 'ms': 0,
          'xs': [coord('mm', x), coord('mm', y), coord('mm', z), coord('dd', yaw)]}
    try:
        b = _pack_as_uploaded(CompressedStart(x, y, z, yaw), (x, y, z, yaw))
        ev['r'], ev['b'] = 'val', list(b)
    except Exception as e:
        ev['r'], ev['b'], ev['exc'] = 'raise', [], type(e).__name__
    return ev


def run_segment(ms, ex, ey, ez, eyaw):
    """ms: duration in milliseconds, passed as the float ms/1000 chosen so that *1000.0 is exact."""
    from cflib.crazyflie.mem.trajectory_memory import CompressedSegment
    ev = {'hdr': 3, 'lens': [len(ex), len(ey), len(ez), len(eyaw)], 'ms': ms,
          'xs': [coord('mm', v) for v in list(ex) + list(ey) + list(ez)] + [coord('dd', v) for v in eyaw]}
    try:
        b = _pack_as_uploaded(CompressedSegment(ms / 1000.0, list(ex), list(ey), list(ez), list(eyaw)),
                              (ms, tuple(ex), tuple(ey), tuple(ez), tuple(eyaw)))
        ev['r'], ev['b'] = 'val', list(b)
    except Exception as e:
        ev['r'], ev['b'], ev['exc'] = 'raise', [], type(e).__name__
    return ev


class _FakeMemHandler:
    def __init__(self):
        self.writes = []

    def write(self, memory, addr, data, flush_queue=False):
        self.writes.append((addr, bytes(data)))
        return True


def rgb_args(ch, lvl, o1, o2):
    return [(lvl, o1, o2), (o1, lvl, o2), (o1, o2, lvl)][ch - 1]


def run_rgb_sweep(drv, ch, inten, o1, o2):
    """All 256 levels of channel ch (1..3) at intensity `inten`, the other channels at o1, o2.
    Returns (effective intensity, events)."""
    from cflib.crazyflie.mem.led_driver_memory import LEDDriverMemory
    from cflib.crazyflie.mem.led_timings_driver_memory import LEDTimingsDriverMemory
    h = _FakeMemHandler()
    evs = []
    if drv == 'ring':
        mem = LEDDriverMemory(id=0, type=0x10, size=24, mem_handler=h)
        eff = inten
        for base in range(0, 256, 12):
            lv = list(range(base, min(256, base + 12)))
            for j, lvl in enumerate(lv):
                r, g, b = rgb_args(ch, lvl, o1, o2)
                mem.leds[j].set(r, g, b, inten)
                if not inten:
                    mem.leds[j].intensity = inten      # LED.set ignores a zero intensity
                eff = mem.leds[j].intensity
            n0 = len(h.writes)
            try:
                mem.write_data(None)
                data = h.writes[n0][1]
                for j, lvl in enumerate(lv):
                    evs.append({'lvl': lvl, 'r': 'val', 'b': [data[2 * j], data[2 * j + 1]]})
            except Exception as e:
                for lvl in lv:
                    evs.append({'lvl': lvl, 'r': 'raise', 'b': [], 'exc': type(e).__name__})
        return eff, evs
    mem = LEDTimingsDriverMemory(id=0, type=0x17, size=0, mem_handler=h)
    for lvl in range(256):
        r, g, b = rgb_args(ch, lvl, o1, o2)
        mem.add(1, {'r': r, 'g': g, 'b': b})
    try:
        mem.write_data(None)
        data = h.writes[0][1]
        if len(data) != 4 * 257:
            raise ValueError('unexpected length %d' % len(data))
        for lvl in range(256):
            evs.append({'lvl': lvl, 'r': 'val', 'b': [data[4 * lvl + 1], data[4 * lvl + 2]]})
    except Exception as e:
        evs = [{'lvl': lvl, 'r': 'raise', 'b': [], 'exc': type(e).__name__} for lvl in range(256)]
    return 100, evs


class _FakeCf:
    def __init__(self):
        self.cbs = []

    def add_port_callback(self, port, cb):
        self.cbs.append((port, cb))


def _localization():
    from cflib.crazyflie.localization import Localization
    cf = _FakeCf()
    loc = Localization(cf)
    got = []
    loc.receivedLocationPacket.add_callback(got.append)
    return loc, cf.cbs[0][1], got


def run_range(data):
    """data: bytes after the type byte (n * (id, float32))."""
    from cflib.crtp.crtpstack import CRTPPacket
    loc, incoming, got = _localization()
    pk = CRTPPacket()
    pk.port = 6
    pk.channel = loc.GENERIC_CH
    pk.data = bytes([loc.RANGE_STREAM_REPORT]) + bytes(data)
    o = {'called': False, 'ids': [], 'vals': []}
    try:
        incoming(pk)
        if len(got) == 1 and got[0].type == loc.RANGE_STREAM_REPORT and isinstance(got[0].data, dict):
            o = {'called': True, 'ids': [int(k) for k in got[0].data], 'vals': [num(v) for v in got[0].data.values()]}
    except Exception as e:
        o['exc'] = type(e).__name__
    return {'data': list(data), 'o': o}


def run_lh(data):
    from cflib.crtp.crtpstack import CRTPPacket
    loc, incoming, got = _localization()
    pk = CRTPPacket()
    pk.port = 6
    pk.channel = loc.GENERIC_CH
    pk.data = bytes([loc.LH_ANGLE_STREAM]) + bytes(data)
    o = {'called': False, 'bs': 0, 'x': [], 'y': []}
    try:
        incoming(pk)
        if len(got) == 1 and got[0].type == loc.LH_ANGLE_STREAM and isinstance(got[0].data, dict):
            d = got[0].data
            o = {'called': True, 'bs': int(d['basestation']), 'x': [num(v) for v in d['x']], 'y': [num(v) for v in d['y']]}
    except Exception as e:
        o['exc'] = type(e).__name__
    return {'data': list(data), 'o': o}


KEEP_STYLES = ('packet', 'data', 'parts')
NOT_LH = {'called': False, 'bs': 0, 'x': [], 'y': []}
NOT_RANGE = {'called': False, 'ids': [], 'vals': []}


def _snap(loc, t, held):
    """What a kept delivery shows NOW, as the `o` record of the lh / range events."""
    try:
        ptype, d = held()
        if t == 'lh' and ptype == loc.LH_ANGLE_STREAM and isinstance(d, dict):
            return {'called': True, 'bs': int(d['basestation']), 'x': [num(v) for v in d['x']], 'y': [num(v) for v in d['y']]}
        if t == 'range' and ptype == loc.RANGE_STREAM_REPORT and isinstance(d, dict):
            return {'called': True, 'ids': [int(k) for k in d], 'vals': [num(v) for v in d.values()]}
    except Exception:
        pass
    return dict(NOT_LH if t == 'lh' else NOT_RANGE)


def run_stream(keep, pkts):
    """A stream of packets received by ONE Localization object whose receiver keeps what it is
    given, the way applications do (the callback runs on the library's incoming thread, so the
    packet is put aside -- a queue to another thread, the last packet per base station -- and read
    later).  keep: 'packet' = the LocalizationPacket object, 'data' = its .data, 'parts' = the
    values of the decoded dict (the angle lists themselves).
    pkts: [t, bytes] with t 'lh' | 'range' (bytes after the type byte; judged) or 'other' (the
    whole payload of some other localization packet in between; part of the history only).
    Every judged packet is looked at twice: when it is delivered (o) and after the whole stream
    has been received (late).  The receiver never writes to what it keeps."""
    from cflib.crtp.crtpstack import CRTPPacket
    from cflib.crazyflie.localization import Localization
    cf = _FakeCf()
    loc = Localization(cf)
    incoming = cf.cbs[0][1]
    held = []

    def receiver(pk):
        if keep == 'packet':
            held.append(lambda: (pk.type, pk.data))
            return
        ptype, d = pk.type, pk.data
        if keep == 'data' or not isinstance(d, dict) or 'x' not in d:
            held.append(lambda: (ptype, d))
            return
        bs, x, y = d['basestation'], d['x'], d['y']
        held.append(lambda: (ptype, {'basestation': bs, 'x': x, 'y': y}))
    loc.receivedLocationPacket.add_callback(receiver)
    type_byte = {'lh': loc.LH_ANGLE_STREAM, 'range': loc.RANGE_STREAM_REPORT}
    evs, idx = [], []
    for (t, data) in pkts:
        pk = CRTPPacket()
        pk.port = 6
        pk.channel = loc.GENERIC_CH
        pk.data = bytes(data) if t == 'other' else bytes([type_byte[t]]) + bytes(data)
        n0 = len(held)
        exc = None
        try:
            incoming(pk)
        except Exception as e:
            exc = type(e).__name__
        if t == 'other':
            continue
        ev = {'t': t, 'data': list(data), 'o': dict(NOT_LH if t == 'lh' else NOT_RANGE)}
        if exc:
            ev['exc'] = exc
        if len(held) == n0 + 1:
            ev['o'] = _snap(loc, t, held[n0])
            idx.append(n0)
        else:
            idx.append(None)
        evs.append(ev)
    for ev, i in zip(evs, idx):
        ev['late'] = _snap(loc, ev['t'], held[i]) if i is not None else dict(ev['o'])
    return evs


# --------------------------------------------------------------------------- cases
# A case is a JSON-able list; floats travel as float.hex() strings so that a replay file
# reproduces the exact input.
def fh(x):
    return float(x).hex()


def unfh(s):
    return float.fromhex(s)


CHUNK = {'fp16': 256, 'quat': 64, 'traj': 64, 'range': 64, 'lh': 64, 'rgb': 1, 'stream': 1}
ONE_CASE_PER_TRACE = ('rgb', 'stream')          # the trace is the case (a sweep, a stream)


def case_kind(case):
    return {'fp16': 'fp16', 'quat': 'quat', 'start': 'traj', 'seg': 'traj', 'rgb': 'rgb',
            'range': 'range', 'lh': 'lh', 'stream': 'stream'}[case[0]]


def exec_case(case):
    k = case[0]
    if k == 'fp16':
        return run_fp16(case[1], case[2])
    if k == 'quat':
        return run_quat([unfh(v) for v in case[1]])
    if k == 'start':
        return run_start(*[unfh(v) for v in case[1]])
    if k == 'seg':
        return run_segment(case[1], *[[unfh(v) for v in el] for el in case[2]])
    if k == 'range':
        return run_range(bytes(case[1]))
    if k == 'lh':
        return run_lh(bytes(case[1]))
    raise common.MachineryError('unknown case %r' % (case,))


def exec_chunk(job):
    """(kind, [cases], mutant or None) -> trace dict (without id)."""
    kind, cases, mutant = job
    with Mutant(mutant):
        if kind == 'rgb':
            _, drv, ch, inten, o1, o2 = cases[0]
            eff, evs = run_rgb_sweep(drv, ch, inten, o1, o2)
            return {'kind': 'rgb', 'ch': ch, 'I': eff, 'o1': o1, 'o2': o2, 'drv': drv, 'ev': evs}
        if kind == 'stream':
            _, keep, pkts = cases[0]
            return {'kind': 'stream', 'keep': keep, 'ev': run_stream(keep, [(t, bytes(d)) for (t, d) in pkts])}
        return {'kind': kind, 'ev': [exec_case(c) for c in cases]}


def chunked(cases):
    """cases -> jobs [(kind, [cases])], same-kind runs cut into trace-sized chunks."""
    jobs = []
    by = {}
    for c in cases:
        by.setdefault(case_kind(c), []).append(c)
    for kind in sorted(by):
        cs = by[kind]
        n = CHUNK[kind]
        for i in range(0, len(cs), n):
            jobs.append((kind, cs[i:i + n]))
    return jobs


def _init():
    vsched.load_cflib()


def run_jobs(jobs, mutant=None):
    return common.pmap(exec_chunk, [(k, cs, mutant) for (k, cs) in jobs], init=_init)


# ---- enumerations ---------------------------------------------------------------------------
def cases_fp16():
    """All 65,536 patterns as the unsigned argument, and the 32,768 negative ones again as the
    signed argument struct '<h' hands to fp16_to_float inside Localization."""
    return [['fp16', h, False] for h in range(65536)] + [['fp16', h, True] for h in range(32768, 65536)]


def cases_quat(tier, rng):
    k = 3 if tier == 'quick' else 8
    out = []
    # integer grid: every direction class incl. ties for the largest component and negations
    for q in itertools.product(range(-k, k + 1), repeat=4):
        if any(q):
            out.append(['quat', [fh(v) for v in q]])
    # unnormalised: the same directions at other scales (powers of two and not)
    scales = [2.0 ** -7, 0.001, 3.0, 1024.0]
    small = [q for q in itertools.product(range(-2, 3), repeat=4) if any(q)]
    for q in small:
        sc = scales[rng.randrange(len(scales))]
        out.append(['quat', [fh(v * sc) for v in q]])
    # exact float ties: +-0.5 everywhere, +-1/sqrt2 pairs, unit axes, negative zeros
    r = 1.0 / math.sqrt(2.0)
    for signs in itertools.product((1.0, -1.0), repeat=4):
        out.append(['quat', [fh(0.5 * s) for s in signs]])
    for i, j in itertools.combinations(range(4), 2):
        for si, sj in itertools.product((1.0, -1.0), repeat=2):
            q = [0.0, 0.0, 0.0, 0.0]
            q[i], q[j] = si * r, sj * r
            out.append(['quat', [fh(v) for v in q]])
            q2 = [-0.0, -0.0, -0.0, -0.0]
            q2[i], q2[j] = si * r, sj * r
            out.append(['quat', [fh(v) for v in q2]])
    # nearly, but not exactly, unit length ("negated and unnormalised inputs"): tie directions and
    # random directions scaled by factors around 1 (a shortcut that trusts almost-unit inputs, or a
    # tolerance in the normalisation, shows here: magnitudes overflow into the sign bit)
    factors = [1.0 + d for d in (1e-9, -1e-9, 1e-6, -1e-6, 1e-3, -1e-3, 4e-3, -4e-3, 9e-3, -9e-3,
                                 9.9e-3, -9.9e-3, 1.1e-2, -1.1e-2, 5e-2, -5e-2, 0.3, -0.3)]
    dirs = [[r, r, 0.0, 0.0], [0.0, -r, 0.0, r], [0.5, 0.5, 0.5, 0.5], [0.5, -0.5, 0.5, -0.5],
            [1.0, 0.0, 0.0, 0.0], [0.0, 0.0, -1.0, 0.0]]
    for _ in range(12 if tier == 'quick' else 120):
        q = [rng.gauss(0.0, 1.0) for _ in range(4)]
        nrm = math.sqrt(sum(v * v for v in q)) or 1.0
        dirs.append([v / nrm for v in q])
    for d in dirs:
        for f in factors:
            out.append(['quat', [fh(v * f) for v in d]])
    # random: integer vectors at a random binary scale, and normalised float quaternions
    n_int, n_flt = (1000, 300) if tier == 'quick' else (8000, 2000)
    for _ in range(n_int):
        q = [rng.randint(-1000, 1000) for _ in range(4)]
        if not any(q):
            continue
        sc = 2.0 ** rng.randint(-12, 12)
        out.append(['quat', [fh(v * sc) for v in q]])
    for _ in range(n_flt):
        q = [rng.gauss(0.0, 1.0) for _ in range(4)]
        nrm = math.sqrt(sum(v * v for v in q))
        if nrm == 0.0:
            continue
        if rng.random() < 0.5:
            q = [v / nrm for v in q]
        out.append(['quat', [fh(v) for v in q]])
    return out


def _around(x):
    return [x, math.nextafter(x, math.inf), math.nextafter(x, -math.inf)]


def spatial_values():
    vs = []
    for t in (0, 1, 290, 999, 1000, 32766, 32767, 32768, 32769, 40000, 65535, 65536, 65537, 98304, 10 ** 6, 2 ** 31, 2 ** 32):
        for s in (1, -1):
            for d in (0.0, 0.25, 0.5, 0.75):
                vs += _around(s * (t + d) / 1000.0)
                vs.append(s * (t + d) * 0.001)
    vs += [math.inf, -math.inf, 1e300, -1e300, 5e-324, -0.0]
    return vs


def yaw_values():
    vs = []
    for t in (0, 1, 900, 1800, 3600, 32766, 32767, 32768, 32769, 40000, 65535, 65536, 65537, 10 ** 6, 2 ** 31):
        for s in (1, -1):
            for d in (0.0, 0.25, 0.5, 0.75):
                vs += _around(math.radians(s * (t + d) / 10.0))
                vs += _around(s * (t + d) * math.pi / 1800.0)
    vs += [math.inf, -math.inf, 1e300, -1e300, 5e-324, -0.0]
    return vs


LENS = (0, 1, 3, 7)


def cases_traj(tier, rng):
    out = []

    def benign_mm():
        return rng.randint(-32000, 32000) / 1024.0

    def benign_dd():
        return rng.randint(-14000, 14000) / 256.0
    # boundary values, one per pack, in every slot of a start element and of segments
    for v in spatial_values():
        slot = rng.randrange(3)
        xs = [benign_mm(), benign_mm(), benign_mm(), benign_dd()]
        xs[slot] = v
        out.append(['start', [fh(x) for x in xs]])
        out.append(['start', [fh(v), fh(0.0), fh(0.0), fh(0.0)]])
    for v in yaw_values():
        out.append(['start', [fh(benign_mm()), fh(benign_mm()), fh(benign_mm()), fh(v)]])
    for lens in itertools.product(LENS, repeat=4):
        els = [[benign_mm() for _ in range(lens[i])] for i in range(3)] + [[benign_dd() for _ in range(lens[3])]]
        out.append(['seg', rng.choice([0, 1, 500, 1500, 2250, 65535]), [[fh(x) for x in el] for el in els]])
        hot = [i for i in range(4) if lens[i]]
        if hot:                      # the same segment with one boundary value in it
            i = rng.choice(hot)
            v = rng.choice(spatial_values() if i < 3 else yaw_values())
            els2 = [list(el) for el in els]
            els2[i][rng.randrange(lens[i])] = v
            out.append(['seg', 1000, [[fh(x) for x in el] for el in els2]])
    # random across and beyond the 16-bit range (about one value in eight is out of range)
    n = 1500 if tier == 'quick' else 20000

    def rnd_mm():
        return rng.uniform(-34.0, 34.0) if rng.random() < 0.7 else rng.uniform(-33.0, 33.0) * rng.choice([0.001, 0.1, 1.0, 1.0, 2.0])

    def rnd_dd():
        return rng.uniform(-59.0, 59.0) if rng.random() < 0.7 else rng.uniform(-58.0, 58.0) * rng.choice([0.001, 0.1, 1.0, 1.0, 2.0])
    for _ in range(n):
        if rng.random() < 0.6:
            out.append(['start', [fh(rnd_mm()), fh(rnd_mm()), fh(rnd_mm()), fh(rnd_dd())]])
        else:
            lens = [rng.choice(LENS) for _ in range(4)]
            els = [[rng.uniform(-32.7, 32.7) if rng.random() < 0.97 else rnd_mm() for _ in range(lens[i])] for i in range(3)]
            els.append([rng.uniform(-57.0, 57.0) if rng.random() < 0.97 else rnd_dd() for _ in range(lens[3])])
            out.append(['seg', rng.choice([0, 250, 1000, 4000, 65535]), [[fh(x) for x in el] for el in els]])
    return out


def cases_rgb(tier, rng):
    out = []
    for ch in (1, 2, 3):
        for inten in range(101):                      # all intensities x all 256 levels (a sweep)
            out.append(['rgb', 'ring', ch, inten, 0, 0])
        out.append(['rgb', 'timings', ch, 100, 0, 0])
        for inten in ([1, 50, 100] if tier == 'quick' else range(0, 101, 4)):
            for _ in range(2 if tier == 'quick' else 4):
                out.append(['rgb', 'ring', ch, inten, rng.randrange(256), rng.randrange(256)])
        for _ in range(3 if tier == 'quick' else 24):
            out.append(['rgb', 'timings', ch, 100, rng.randrange(256), rng.randrange(256)])
        out.append(['rgb', 'ring', ch, 100, 255, 255])
        out.append(['rgb', 'timings', ch, 100, 255, 255])
    return out


F32_SPECIAL = [0x00000000, 0x80000000, 0x3f800000, 0xbf800000, 0x00000001, 0x80000001, 0x007fffff, 0x00800000,
               0x7f7fffff, 0xff7fffff, 0x7f800000, 0xff800000, 0x7fc00000, 0xffc00001, 0x40490fdb, 0x3dcccccd]


def rnd_f32_bits(rng, finite=False):
    while True:
        r = rng.random()
        if r < 0.15:
            b = rng.choice(F32_SPECIAL)
        elif r < 0.6:       # plausible magnitudes (1e-3 .. 1e3)
            b = struct.unpack('<I', struct.pack('<f', rng.uniform(-1.0, 1.0) * 10.0 ** rng.uniform(-3, 3)))[0]
        else:
            b = rng.getrandbits(32)
        if not finite or (b >> 23) & 0xFF != 0xFF:
            return b


def cases_range(tier, rng):
    out = [['range', []]]
    n = 1500 if tier == 'quick' else 10000
    for i in range(n):
        cnt = i % 13 if i < 130 else rng.randint(0, 12)        # any anchor count (5 fit a radio packet)
        ids = rng.sample(range(256), cnt)
        data = b''.join(bytes([a]) + struct.pack('<I', rnd_f32_bits(rng)) for a in ids)
        out.append(['range', list(data)])
    return out


LH_BASES = [0x00000000, 0x80000000, 0x3f800000, 0xbfc90fdb, 0x40490fdb, 0x3a83126f, 0x00000001, 0x501502f9, 0x7f7fffff,
            0xc0490fdb, 0x3fc90fdb, 0x33800000]


def cases_lh(tier, rng):
    """Every half-float pattern occurs as a sensor offset (65,536 / 6 per packet); base angles:
    zero, negative zero, typical sweep angles, extremes, random finite float32."""
    pats = list(range(65536))
    rng.shuffle(pats)
    if tier == 'quick':         # a sixth of the patterns, all classes: zeros, subnormal edge, infinities, NaNs
        keep = {0x0000, 0x8000, 0x0001, 0x8001, 0x03ff, 0x0400, 0x7bff, 0xfbff, 0x7c00, 0xfc00, 0x7c01, 0xfe00, 0x3c00, 0xbc00}
        pats = [p for i, p in enumerate(pats) if i % 6 == 0 or p in keep]
    while len(pats) % 6:
        pats.append(rng.randrange(65536))
    out = []
    for i in range(0, len(pats), 6):
        bx = LH_BASES[(i // 6) % len(LH_BASES)] if (i // 6) % 3 == 0 else rnd_f32_bits(rng, finite=True)
        by = rnd_f32_bits(rng, finite=True) if (i // 6) % 2 else LH_BASES[(i // 12) % len(LH_BASES)]
        data = struct.pack('<BIHHHIHHH', rng.randrange(256), bx, pats[i], pats[i + 1], pats[i + 2], by, pats[i + 3], pats[i + 4], pats[i + 5])
        out.append(['lh', list(data)])
    # the all-zero and all-negative-zero offset packets explicitly
    for bx in LH_BASES[:6]:
        out.append(['lh', list(struct.pack('<BIHHHIHHH', 1, bx, 0, 0, 0, bx, 0x8000, 0x8000, 0x8000))])
    return out


HALF_CLASSES = [0x0000, 0x8000, 0x0001, 0x8001, 0x03ff, 0x0400, 0x3c00, 0xbc00, 0x7bff, 0xfbff, 0x7c00, 0xfc00, 0x7e00]
MAX_STREAM = 64             # events per stream trace (VERDICT line width, see CodecsTrace)


def cases_stream(tier, rng):
    """Streams of range / angle packets received by one Localization object, the receiver keeping
    every delivery (three ways of keeping, in turn).  First a systematic part: every ordered pair
    of packet kinds, with and without another localization packet in between, neighbours that
    differ in exactly one field (base station only, one offset only, one base angle only, one
    anchor distance only), identical neighbours; then seeded random streams of 2..8 packets and a
    few long ones."""
    def lh_pkt(bs=None, bx=None, by=None, offs=None):
        bs = rng.choice([0, 1, 0, 1, rng.randrange(256)]) if bs is None else bs
        bx = (rng.choice(LH_BASES) if rng.random() < 0.3 else rnd_f32_bits(rng, finite=True)) if bx is None else bx
        by = (rng.choice(LH_BASES) if rng.random() < 0.3 else rnd_f32_bits(rng, finite=True)) if by is None else by
        offs = [rng.choice(HALF_CLASSES) if rng.random() < 0.35 else rng.randrange(65536) for _ in range(6)] if offs is None else offs
        return ['lh', list(struct.pack('<BIHHHIHHH', bs, bx, offs[0], offs[1], offs[2], by, offs[3], offs[4], offs[5]))]

    def range_pkt(cnt=None):
        cnt = rng.randint(0, 6) if cnt is None else cnt
        ids = rng.sample(range(8) if rng.random() < 0.6 else range(256), cnt)      # the same few anchors recur
        return ['range', list(b''.join(bytes([a]) + struct.pack('<I', rnd_f32_bits(rng)) for a in ids))]

    def other_pkt():
        return ['other', rng.choice([[11, 1], [11, 0], [], [2, 1, 2, 3], [6] + [rng.randrange(256) for _ in range(5)],
                                     [0, 1, 2, 3], [10, 1, 2]])]      # persist ack, empty, LPP, GNSS, malformed ones

    def vary(p):
        """the neighbour of packet p that differs from it in exactly one field"""
        if p[0] == 'lh':
            d = list(struct.unpack('<BIHHHIHHH', bytes(p[1])))
            f = rng.choice([0, 0, 1, 5] + [2, 3, 4, 6, 7, 8])
            if f == 0:
                d[0] = (d[0] + 1) % 256 if rng.random() < 0.5 else d[0] ^ 1
            elif f in (1, 5):
                nb = rnd_f32_bits(rng, finite=True)
                d[f] = nb if nb != d[f] else nb ^ 1
            else:
                d[f] = rng.choice([h for h in HALF_CLASSES if h != d[f]]) if rng.random() < 0.5 else d[f] ^ (1 << rng.randrange(16))
            return ['lh', list(struct.pack('<BIHHHIHHH', *d))]
        b = list(p[1])
        if not b:
            return range_pkt(1)
        j = rng.randrange(len(b) // 5)
        k = 5 * j + (0 if rng.random() < 0.3 else rng.randint(1, 4))
        b[k] ^= 1 << rng.randrange(8)
        if len({b[5 * i] for i in range(len(b) // 5)}) != len(b) // 5:      # anchor ids stay distinct
            return range_pkt(len(b) // 5)
        return ['range', b]

    streams = []
    mk = {'lh': lh_pkt, 'range': lambda: range_pkt(rng.randint(1, 5))}
    for rep in range(2 if tier == 'quick' else 6):
        for a in ('lh', 'range'):
            for b in ('lh', 'range'):
                for gap in (False, True):
                    p1 = mk[a]()
                    streams.append([p1] + ([other_pkt()] if gap else []) + [mk[b]()])
                    if a == b:
                        streams.append([p1] + ([other_pkt()] if gap else []) + [vary(p1)])
                        streams.append([p1] + ([other_pkt()] if gap else []) + [vary(p1), vary(p1), p1])
        p1 = lh_pkt()
        streams.append([p1, list(p1)])                               # the same packet twice
        streams.append([lh_pkt(bs=0), lh_pkt(bs=1), lh_pkt(bs=0), lh_pkt(bs=1)])      # two base stations in turn
        streams.append([lh_pkt(bs=1, offs=[0] * 6), lh_pkt(bs=1, offs=[0x8000] * 6), lh_pkt(bs=1, offs=[0, 0x8000] * 3)])
    n_rand, n_long = (150, 6) if tier == 'quick' else (1500, 60)
    for i in range(n_rand + n_long):
        length = rng.randint(2, 8) if i < n_rand else rng.randint(24, MAX_STREAM)
        mix = rng.random()
        st = []
        while len([p for p in st if p[0] != 'other']) < length:
            r = rng.random()
            if st and st[-1][0] != 'other' and r < 0.2:
                st.append(vary(st[-1]))
            elif mix < 0.5:
                st.append(lh_pkt())
            elif mix < 0.65:
                st.append(range_pkt())
            else:
                st.append(lh_pkt() if r < 0.55 else range_pkt() if r < 0.9 else other_pkt())
        streams.append(st)
    return [['stream', KEEP_STYLES[i % len(KEEP_STYLES)], st] for i, st in enumerate(streams)]


# --------------------------------------------------------------------------- in-memory mutants
# Realistic breakages of the codecs, monkeypatched in the harness process only (/repo untouched).
def _m_fp16(variant):
    def fp16_to_float(float16):
        s = int((float16 >> 15) & 0x00000001)
        e = int((float16 >> 10) & 0x0000001f)
        f = int(float16 & 0x000003ff)
        if e == 0:
            if f == 0:
                if variant == 'int_specials':
                    return int(s << 31)
                return struct.unpack('f', struct.pack('I', s << 31))[0]
            elif variant == 'flush_subnormal':
                return struct.unpack('f', struct.pack('I', s << 31))[0]
            else:
                while not (f & 0x00000400):
                    f <<= 1
                    e -= 1
                e += 1
                f &= ~0x00000400
        elif e == 31:
            if variant == 'int_specials':
                return int((s << 31) | 0x7f800000 | (f << 13))
            if variant == 'nan_is_inf':
                f = 0
            return struct.unpack('f', struct.pack('I', (s << 31) | 0x7f800000 | (f << 13)))[0]
        e += (127 - 14) if variant == 'bias' else (127 - 15)
        f <<= 13
        return struct.unpack('f', struct.pack('I', int((s << 31) | (e << 23) | f)))[0]
    return fp16_to_float


def _m_compress(variant):
    import numpy as np

    def compress_quaternion(quat):
        quat_n = np.array(quat) / np.linalg.norm(quat)
        if variant == 'no_normalise':
            quat_n = np.array(quat, dtype=float)
        i_largest = 0
        for i in range(1, 4):
            if abs(quat_n[i]) > abs(quat_n[i_largest]):
                i_largest = i
        negate = quat_n[i_largest] < 0
        M_SQRT1_2 = 1.0 / np.sqrt(2)
        comp = i_largest
        for i in range(4):
            if i != i_largest:
                negbit = int((quat_n[i] < 0) ^ negate)
                if variant == 'no_negate':
                    negbit = int(quat_n[i] < 0)
                mag = int(((1 << 9) - 1) * (abs(quat_n[i]) / M_SQRT1_2) + 0.5)
                if variant == 'scale_512':
                    mag = int((1 << 9) * (abs(quat_n[i]) / M_SQRT1_2) + 0.5)
                comp = (comp << 10) | (negbit << 9) | mag
        return comp
    return compress_quaternion


def _m_decompress(variant):
    import numpy as np

    def decompress_quaternion(comp):
        q = np.zeros(4)
        mask = (1 << 9) - 1
        i_largest = comp >> 30
        sum_squares = 0
        order = range(4) if variant == 'order' else range(3, -1, -1)
        for i in order:
            if i != i_largest:
                mag = comp & mask
                negbit = (comp >> 9) & 0x1
                comp = comp >> 10
                q[i] = mag / mask / (1.0 if variant == 'no_sqrt2' else np.sqrt(2))
                if negbit == 1:
                    q[i] = -q[i]
                sum_squares += q[i] * q[i]
        q[i_largest] = np.sqrt(abs(1.0 - sum_squares))
        return q
    return decompress_quaternion


def _m_led_write(variant):
    def write_data(self, write_finished_cb):
        self._write_finished_cb = write_finished_cb
        data = bytearray()
        for led in self.leds:
            R5 = ((int)((((int(led.r) & 0xFF) * 249 + 1014) >> 11) & 0x1F) * led.intensity / 100)
            if variant == 'green5':
                G6 = ((int)((((int(led.g) & 0xFF) * 253 + 505) >> 10) & 0x1F) * led.intensity / 100)
            else:
                G6 = ((int)((((int(led.g) & 0xFF) * 253 + 505) >> 10) & 0x3F) * led.intensity / 100)
            B5 = ((int)((((int(led.b) & 0xFF) * 249 + 1014) >> 11) & 0x1F) * led.intensity / 100)
            if variant == 'no_rounding_offset':      # 255 no longer reaches full scale
                R5 = ((int)((((int(led.r) & 0xFF) * 249) >> 11) & 0x1F) * led.intensity / 100)
                B5 = ((int)((((int(led.b) & 0xFF) * 249) >> 11) & 0x1F) * led.intensity / 100)
                R5, B5 = R5 * 30 // 31, B5 * 30 // 31
            tmp = (int(R5) << 11) | (int(G6) << 5) | (int(B5) << 0)
            if variant == 'swap_bytes':
                data += bytearray((tmp & 0xFF, tmp >> 8))
            else:
                data += bytearray((tmp >> 8, tmp & 0xFF))
        self.mem_handler.write(self, 0x00, data, flush_queue=True)
    return write_data


def _m_lh_decode(variant):
    def _decode_lh_angle(self, data):
        import cflib.crazyflie.localization as L
        raw = struct.unpack('<Bfhhhfhhh', data)
        sgn = -1.0 if variant == 'plus' else 1.0
        d = {'basestation': raw[0]}
        d['x'] = [raw[1]] + [raw[1] - sgn * L.fp16_to_float(raw[k]) for k in (2, 3, 4)]
        if variant == 'y_uses_x_base':
            d['y'] = [raw[5]] + [raw[1] - L.fp16_to_float(raw[k]) for k in (6, 7, 8)]
        else:
            d['y'] = [raw[5]] + [raw[5] - sgn * L.fp16_to_float(raw[k]) for k in (6, 7, 8)]
        # decoders that save allocations on the high-rate stream (state on the Localization object)
        if variant == 'shared_buffer':          # one dict, one pair of lists, refilled in place
            buf = self.__dict__.setdefault('_verif_buf', {'basestation': 0, 'x': [0, 0, 0, 0], 'y': [0, 0, 0, 0]})
            buf['basestation'] = d['basestation']
            buf['x'][:] = d['x']
            buf['y'][:] = d['y']
            return buf
        if variant == 'shared_lists':           # a new dict per packet around the same two lists
            xs, ys = self.__dict__.setdefault('_verif_lists', ([0, 0, 0, 0], [0, 0, 0, 0]))
            xs[:] = d['x']
            ys[:] = d['y']
            return {'basestation': d['basestation'], 'x': xs, 'y': ys}
        if variant == 'double_buffer':          # two buffers used in turn
            st = self.__dict__.setdefault('_verif_db', {'n': 0, 'bufs': [{}, {}]})
            st['n'] += 1
            buf = st['bufs'][st['n'] % 2]
            buf.clear()
            buf.update(d)
            return buf
        return d
    return _decode_lh_angle


def _m_incoming_range(variant):
    def _incoming(self, packet):
        import cflib.crazyflie.localization as L
        pk_type = packet.data[0]
        data = packet.data[1:]
        decoded = None
        if pk_type == self.RANGE_STREAM_REPORT:
            decoded = {}
            if variant == 'shared_dict':         # one dictionary, emptied and refilled per report
                decoded = self.__dict__.setdefault('_verif_ranges', {})
                decoded.clear()
            raw = data
            for i in range(int(len(data) / 5)):
                anchor_id, distance = struct.unpack('>Bf' if variant == 'big_endian' else '<Bf', raw[:5])
                decoded[anchor_id] = distance
                raw = raw[5:] if variant != 'stride4' else raw[4:]
        elif pk_type == self.LH_ANGLE_STREAM:
            decoded = self._decode_lh_angle(data)
        self.receivedLocationPacket.call(L.LocalizationPacket(pk_type, data, decoded))
    return _incoming


def _patches(name):
    """mutant name -> [(object, attribute, replacement)]"""
    import cflib.utils.encoding as enc
    import cflib.crazyflie.localization as loc
    import cflib.crazyflie.mem.trajectory_memory as tm
    import cflib.crazyflie.mem.led_driver_memory as ledm
    fam, _, var = name.partition(':')
    if fam == 'fp16':
        f = _m_fp16(var)
        return [(enc, 'fp16_to_float', f), (loc, 'fp16_to_float', f)]
    if fam == 'compress':
        return [(enc, 'compress_quaternion', _m_compress(var))]
    if fam == 'decompress':
        return [(enc, 'decompress_quaternion', _m_decompress(var))]
    if fam == 'traj':
        if var == 'wrap':
            return [(tm._CompressedBase, '_encode_spatial', lambda self, c: ((int(c * 1000) + 32768) % 65536) - 32768),
                    (tm._CompressedBase, '_encode_yaw', lambda self, a: ((int(math.degrees(a) * 10) + 32768) % 65536) - 32768)]
        if var == 'clamp':
            return [(tm._CompressedBase, '_encode_spatial', lambda self, c: max(-32768, min(32767, int(c * 1000))))]
        if var == 'centimetres':
            return [(tm._CompressedBase, '_encode_spatial', lambda self, c: int(c * 100))]
        if var == 'whole_degrees':
            return [(tm._CompressedBase, '_encode_yaw', lambda self, a: int(math.degrees(a)) * 10)]
        if var == 'yaw_radians':
            return [(tm._CompressedBase, '_encode_yaw', lambda self, a: int(a * 10))]
        if var == 'encoded_once_lazily':      # elements encoded once into lazy iterators: a second pack() finds them used up
            orig_sp, orig_yaw = tm._CompressedBase._encode_spatial_element, tm._CompressedBase._encode_yaw_element

            def once(orig, tag):
                def f(self, element):
                    cache = self.__dict__.setdefault('_verif_enc', {})
                    k = (tag, id(element))
                    if k not in cache:
                        cache[k] = iter(list(orig(self, element)))
                    return cache[k]
                return f
            return [(tm._CompressedBase, '_encode_spatial_element', once(orig_sp, 'sp')),
                    (tm._CompressedBase, '_encode_yaw_element', once(orig_yaw, 'yaw'))]
    if fam == 'rgb':
        return [(ledm.LEDDriverMemory, 'write_data', _m_led_write(var))]
    if fam == 'lh':
        return [(loc.Localization, '_decode_lh_angle', _m_lh_decode(var))]
    if fam == 'range':
        return [(loc.Localization, '_incoming', _m_incoming_range(var))]
    raise common.MachineryError('unknown mutant %s' % name)


# mutant -> the kinds of cases that can expose it
MUTANTS = {
    'fp16:int_specials': ('fp16', 'lh'), 'fp16:flush_subnormal': ('fp16', 'lh'), 'fp16:bias': ('fp16', 'lh'),
    'fp16:nan_is_inf': ('fp16',),
    'compress:no_negate': ('quat',), 'compress:no_normalise': ('quat',), 'compress:scale_512': ('quat',),
    'decompress:order': ('quat',), 'decompress:no_sqrt2': ('quat',),
    'traj:wrap': ('traj',), 'traj:clamp': ('traj',), 'traj:centimetres': ('traj',), 'traj:whole_degrees': ('traj',),
    'traj:yaw_radians': ('traj',), 'traj:encoded_once_lazily': ('traj',),
    'rgb:green5': ('rgb',), 'rgb:swap_bytes': ('rgb',), 'rgb:no_rounding_offset': ('rgb',),
    'lh:plus': ('lh',), 'lh:y_uses_x_base': ('lh',),
    'range:big_endian': ('range',), 'range:stride4': ('range',),
    # decoded objects re-used from packet to packet: visible only to a receiver that keeps them
    'lh:shared_buffer': ('stream',), 'lh:shared_lists': ('stream',), 'lh:double_buffer': ('stream',),
    'range:shared_dict': ('stream',),
}


class Mutant:
    def __init__(self, name):
        self.name = name
        self.saved = []

    def __enter__(self):
        if self.name:
            for (obj, attr, new) in _patches(self.name):
                self.saved.append((obj, attr, getattr(obj, attr)))
                setattr(obj, attr, new)
        return self

    def __exit__(self, *a):
        for (obj, attr, old) in reversed(self.saved):
            setattr(obj, attr, old)
        self.saved = []
        return False


# --------------------------------------------------------------------------- judging (TLC)
class Judged:
    def __init__(self):
        self.bad = []        # (kind, case, clause, event, trace tag)   one per failing call
        self.drift = 0       # events not explained by the design spec (monitor accepted them)
        self.events = 0
        self.traces = 0


def judge(out, jobs, traces, label, explode=True):
    """Send traces through CodecsTrace; every failing call ends up in Judged.bad.  jobs[i] is the
    (kind, cases) list trace i was recorded from."""
    res = Judged()
    order = list(range(len(traces)))
    random.Random(len(traces)).shuffle(order)           # balance heavy and light kinds over the batches
    pending = [(jobs[i], traces[i]) for i in order]
    rnd = 0
    while pending:
        rnd += 1
        if len(pending) >= 100000:
            raise common.MachineryError('too many traces in one round (%d)' % len(pending))
        for i, (_, t) in enumerate(pending):
            t['id'] = i + 1
        verdicts, st = common.validate_traces('CodecsTrace.tla', 'TRACE_Codecs.cfg', [t for _, t in pending],
                                              env=JAVA_ENV, timeout=3000)
        out.traces += len(pending)
        out.states += st['states']
        out.transitions += st['transitions']
        out.tlc_runs.append({'config': 'TRACE_Codecs (%s, round %d)' % (label, rnd), 'states': st['states'],
                             'transitions': st['transitions'], 'wall_s': round(st['wall_s'], 2),
                             'traces': len(pending), 'batches': st['batches']})
        nxt = []
        for (job, t) in pending:
            kind, cases = job
            clause, at, conf, conf_at, nbad, ndrift = verdicts[t['id']]
            res.traces += 1
            if rnd == 1 or kind in ONE_CASE_PER_TRACE:
                res.events += len(t['ev'])
                res.drift += ndrift
            if clause == 'ok':
                continue
            if kind in ONE_CASE_PER_TRACE:
                res.bad.append((kind, cases[0], clause, dict(t['ev'][at - 1], first_of=nbad, at=at), t.get('tag')))
                continue
            res.bad.append((kind, cases[at - 1], clause, t['ev'][at - 1], t.get('tag')))
            if nbad > 1 and explode:                      # the calls after the first failure, one by one
                for j in range(at, len(t['ev'])):
                    t1 = {'kind': kind, 'ev': [t['ev'][j]]}
                    if t.get('tag'):
                        t1['tag'] = t['tag']
                    nxt.append(((kind, [cases[j]]), t1))
        pending = nxt
    return res


def zone_label(ev):
    """Which kinds of coordinates are beyond the int16 range (label for signatures only)."""
    ks = set()
    for x in ev['xs']:
        if x['c'] != 'fin':
            ks.add(x['k'] + '-nonfinite')
            continue
        v = num_value(dict(x, t='float'))
        u = v * 1000 if x['k'] == 'mm' else v * 1800 / Fraction(math.pi)
        if u >= 32768 or u <= -32769:
            ks.add(x['k'])
    return '+'.join(sorted(ks)) or 'in-range'


def signature(kind, case, clause, ev):
    if kind in ('fp16', 'lh'):
        return clause                      # the clause name carries the class and sign of the pattern
    if kind == 'quat':
        mags = sorted((abs(unfh(v)) for v in case[1]), reverse=True)
        return '%s/ties=%d' % (clause, sum(1 for m in mags if m == mags[0]))
    if kind == 'traj':
        return '%s/%s/%s' % (clause, case[0], zone_label(ev))
    if kind == 'rgb':
        return '%s/%s/ch%d' % (clause, case[1], case[2])
    if kind == 'range':
        return '%s/anchors=%s' % (clause, 'none' if not case[1] else 'some')
    if kind == 'stream' and clause.startswith('Kept'):
        # what a kept packet no longer shows (base station, base angle, a sensor angle, anchor count,
        # a distance); the half-float class of the offset is not what such a failure depends on
        return 'KeptLhAngle' if clause.startswith('KeptLhAngle') else clause
    if kind == 'stream' and ev.get('t') == 'range':     # wrong already at delivery: the single-packet class
        return '%s/anchors=%s' % (clause, 'none' if not ev['data'] else 'some')
    return clause


def witness_key(kind, case):
    if kind == 'fp16':
        return (case[2], case[1])
    return (len(json.dumps(case)), json.dumps(case))


def describe(kind, case, ev):
    if kind == 'fp16':
        return {'call': 'fp16_to_float(%s)' % (case[1] - 65536 if case[2] and case[1] >= 32768 else hex(case[1])),
                'pattern': hex(case[1]), 'returned': show(ev['o'])}
    if kind == 'quat':
        w = ev['w']
        return {'call': 'decompress_quaternion(compress_quaternion(%s))' % [unfh(v) for v in case[1]],
                'word': ('-' if w['s'] else '') + hex(sum(b << (8 * i) for i, b in enumerate(w['b'])) + (unlimbs(w['hi']) << 32)),
                'returned': [show(d) for d in ev['d']]}
    if kind == 'traj':
        args = [unfh(v) for v in case[1]] if case[0] == 'start' else [case[1]] + [[unfh(v) for v in el] for el in case[2]]
        return {'call': ('CompressedStart(*%s).pack()' if case[0] == 'start' else 'CompressedSegment(ms/1000, *%s).pack()') % (args,),
                'result': ev['r'], 'bytes': ev['b'], 'exception': ev.get('exc')}
    if kind == 'rgb':
        return {'call': '%s sweep of channel %d at intensity %s, others %s' % (case[1], case[2], case[3], case[4:6]),
                'level': ev.get('lvl'), 'bytes': ev.get('b'), 'exception': ev.get('exc')}
    if kind == 'range':
        return {'call': 'Localization._incoming(RANGE_STREAM_REPORT + %s)' % bytes(case[1]).hex(),
                'decoded': {str(i): show(v) for i, v in zip(ev['o']['ids'], ev['o']['vals'])} if ev['o']['called'] else None}
    if kind == 'lh':
        o = ev['o']
        return {'call': 'Localization._incoming(LH_ANGLE_STREAM + %s)' % bytes(case[1]).hex(),
                'decoded': {'x': [show(v) for v in o['x']], 'y': [show(v) for v in o['y']]} if o['called'] else None}
    if kind == 'stream':
        def dec(o):
            if not o['called']:
                return None
            if 'bs' in o:
                return {'basestation': o['bs'], 'x': [show(v) for v in o['x']], 'y': [show(v) for v in o['y']]}
            return {str(i): show(v) for i, v in zip(o['ids'], o['vals'])}
        return {'call': 'one Localization object receives %s; the receiver keeps each %s and reads it again after the last packet'
                        % (', '.join('%s:%s' % (t, bytes(d).hex()) for (t, d) in case[2]),
                           {'packet': 'LocalizationPacket', 'data': 'packet.data', 'parts': "packet.data['x'], ['y'] list"}[case[1]]),
                'packet_no': ev.get('at'), 'packet': '%s:%s' % (ev.get('t'), bytes(ev.get('data', [])).hex()),
                'decoded_at_delivery': dec(ev['o']), 'same_object_after_the_stream': dec(ev['late']),
                'exception': ev.get('exc'), 'failing_packets_in_stream': ev.get('first_of')}
    return {}


def report(out, res):
    """Group the failing calls by signature; one violation per signature with its minimal witness."""
    groups = {}
    for (kind, case, clause, ev, _tag) in res.bad:
        groups.setdefault(signature(kind, case, clause, ev), []).append((kind, case, clause, ev))
    for sig in sorted(groups):
        g = groups[sig]
        kind, case, clause, ev = min(g, key=lambda b: witness_key(b[0], b[1]))
        out.violation(sig, clause, {'failing_calls': len(g), 'minimal_witness': describe(kind, case, ev)},
                      {'kind': kind, 'case': case})
    return groups


# --------------------------------------------------------------------------- spec -> code
def _cfg_int(cfg, name):
    import os
    import re
    txt = open(os.path.join(tlc.SPEC_DIR, cfg)).read()
    return int(re.search(r'^\s*%s\s*=\s*(-?\d+)' % name, txt, re.M).group(1))


def sim_case(st, mm_shift, dd_shift):
    """Final state of a TLC behaviour of Codecs -> the case that drives the real code."""
    k, a = st['kind'], st['args']
    if k == 'fp16':
        return ['fp16', a[0] * 256 + a[1], False]
    if k == 'quat':
        return ['quat', [fh(float(v)) for v in a]]
    if k == 'mm':
        return ['start', [fh((a[0] * 64 + a[1]) / float(1 << mm_shift)), fh(0.0), fh(0.0), fh(0.0)]]
    if k == 'dd':
        return ['start', [fh(0.0), fh(0.0), fh(0.0), fh((a[0] * 64 + a[1]) / float(1 << dd_shift))]]
    if k == 'rgb':
        return ['rgb', 'ring', a[0], a[1], a[2], a[3]]
    if k in ('range', 'lh'):
        return [k, list(st['out']['data'])]
    if k == 'stream':
        pk = [['lh', list(kp['data'])] for kp in st['kept']]
        return ['stream', KEEP_STYLES[sum(sum(p[1]) for p in pk) % len(KEEP_STYLES)], pk]
    raise common.MachineryError('unknown kind in behaviour: %r' % (k,))


def _same_num(spec, real, with_type=False):
    if spec['c'] != real['c']:
        return False
    if spec['c'] == 'inf':
        return spec['s'] == real['s']
    if spec['c'] != 'fin':
        return True
    if num_value(dict(spec, t='float')) != num_value(real):
        return False
    if not spec['m'] and spec.get('t', 'float') == 'float' and real['t'] == 'float' and spec['s'] != real['s']:
        return False
    return (not with_type) or spec.get('t', 'float') == real['t']


def sim_matches(beh, ev):
    """Does the real code's recorded event equal the design spec's `out` (post-state compare)?"""
    st = beh[-1][1]
    k, o = st['kind'], st['out']
    if k == 'fp16':
        return _same_num(o, ev['o'], with_type=True)
    if k == 'quat':
        if ev['w']['s'] != o['w']['s'] or ev['w']['b'] != list(o['w']['b']) or ev['w']['hi'] != list(o['w']['hi']):
            return False
        for sd, rd in zip(o['d'], ev['d']):
            if rd['c'] != 'fin' or abs(num_value(rd) - num_value(dict(sd, t='float'))) > Fraction(1, 1 << 18):
                return False
        return True
    if k in ('mm', 'dd'):
        if ev['r'] != o['r']:
            return False
        return ev['r'] == 'raise' or (ev['b'][0:2] if k == 'mm' else ev['b'][6:8]) == list(o['b'])
    if k == 'rgb':
        lv = {e['lvl']: e for e in ev}
        for (_lab, s) in beh:
            if s['phase'] == 'sweep':
                e = lv[s['out']['lvl']]
                if e['r'] != 'val' or e['b'] != list(s['out']['b']):
                    return False
        return True
    if k == 'range':
        r = o['o']
        return (ev['o']['called'] and ev['o']['ids'] == list(r['ids']) and len(r['vals']) == len(ev['o']['vals']) and
                all(_same_num(a, b) for a, b in zip(r['vals'], ev['o']['vals'])))
    if k == 'lh':
        r = o['o']
        return (ev['o']['called'] and ev['o']['bs'] == r['bs'] and
                all(_same_num(a, b) for a, b in zip(list(r['x']) + list(r['y']), ev['o']['x'] + ev['o']['y'])))
    if k == 'stream':
        # the receiver's kept objects against the spec's heap: at delivery (kept.now) and at the end
        def same(r, e):
            return (e['called'] and e['bs'] == r['bs'] and len(e['x']) == 4 and len(e['y']) == 4 and
                    all(_same_num(a, b) for a, b in zip(list(r['x']) + list(r['y']), e['x'] + e['y'])))
        return (len(ev) == len(st['kept']) and
                all(same(kp['now'], e['o']) and same(st['heap'][kp['ref'] - 1], e['late']) for kp, e in zip(st['kept'], ev)))
    return False


# --------------------------------------------------------------------------- the check
BUG_CFGS = ['MC_Codecs_bug_fp16.cfg', 'MC_Codecs_bug_lh.cfg', 'MC_Codecs_bug_quat.cfg',
            'MC_Codecs_bug_quatdec.cfg', 'MC_Codecs_bug_traj.cfg', 'MC_Codecs_bug_rgb.cfg',
            'MC_Codecs_bug_stream.cfg']


def _expect_bug(cfg):
    r = tlc.expect_violation('MC_Codecs.tla', cfg, workers=4, timeout=900, jvm=JVM)
    return cfg, r


def main(tier, seed, replay=None):
    out = common.Outcome('C13', tier, seed)
    rng = random.Random(seed)
    import sys
    import time
    stages = out.extra.setdefault('stage_wall_s', {})

    def stage(name, _t=[time.time()]):
        now = time.time()
        stages[name] = round(now - _t[0], 1)
        _t[0] = now
        if common.os.environ.get('VERIF_DEBUG'):
            print('[C13] %-28s %.1fs' % (name, stages[name]), file=sys.stderr, flush=True)
    out.assumptions = [
        'fp16: a Python int result is judged by its numeric value (int 0 counts as +0); NaN: any NaN',
        'quaternion inputs are finite with components between 2^-20 and 2^20 in magnitude (norm neither overflows nor underflows)',
        'trajectory: inputs with -32768 <= 1000x <= 32767 must encode, inputs with 1000x >= 32768 or <= -32769 must raise, '
        'the margin in between may do either; pi is enclosed within 1e-9 and the bound favouring the code is used',
        'RGB565: monotone per channel at fixed intensity, other channels unaffected; LED.set() ignores intensity 0, so 0 is set through the attribute',
        'range reports: anchor ids in one packet are distinct; lighthouse: base angles finite; a sensor angle base-offset that '
        'is not a double must be the correctly rounded double; sign of a zero difference is not judged',
        'streams: what a packet "decodes to" is the object handed to the receiver (LocalizationPacket / its .data / the lists in it); '
        'a receiver that keeps it and never writes to it must still read this packet\'s values after later packets of the stream '
        'have been received by the same Localization object',
    ]
    if replay:
        rp = json.load(open(replay))['replay']
        _init()
        jobs = [(rp['kind'], [rp['case']])]
        res = judge(out, jobs, run_jobs(jobs), 'replay')
        report(out, res)
        out.evaluations = res.events
        return out.finish()

    # 1. design spec, exhaustively, and the named defects must be refuted (vacuity guard)
    cfg = 'MC_Codecs_quick.cfg' if tier == 'quick' else 'MC_Codecs_thorough.cfg'
    r = tlc.check('MC_Codecs.tla', cfg, timeout=3000, jvm=JVM, coverage=False)
    out.add_tlc(cfg, r)
    from concurrent.futures import ThreadPoolExecutor
    with ThreadPoolExecutor(max(1, min(len(BUG_CFGS), common.NCPU // 4))) as ex:
        for cfgb, rb in ex.map(_expect_bug, BUG_CFGS):
            last = rb.error_trace[-1][1] if rb.error_trace else {}
            out.sensitivity['spec:' + cfgb] = 'refuted (%s) at %s args=%s' % (rb.violated, last.get('kind'), last.get('args'))

    stage('design spec + bug cfgs')
    # 2. spec -> code: TLC behaviours of Codecs replayed into the real functions, post-states compared
    nsim = 300 if tier == 'quick' else 3000
    rs, behs = tlc.simulate('MC_Codecs.tla', 'SIM_Codecs.cfg', num=nsim, depth=270, seed=seed % 100000, timeout=1800, jvm=JVM)
    out.add_tlc('SIM_Codecs.cfg (-simulate num=%d)' % nsim, rs)
    stage('simulate')
    mm_shift, dd_shift = _cfg_int('SIM_Codecs.cfg', 'MmShift'), _cfg_int('SIM_Codecs.cfg', 'DdShift')
    behs = [b for b in behs if b[-1][1]['phase'] in ('done', 'sweep')]
    sim_cases = [sim_case(b[-1][1], mm_shift, dd_shift) for b in behs]
    uniq = {}
    for c in sim_cases:
        uniq.setdefault(json.dumps(c), c)
    sim_jobs = chunked(list(uniq.values()))
    sim_traces = run_jobs(sim_jobs)
    by_case = {}
    for (kind, cs), t in zip(sim_jobs, sim_traces):
        if kind in ONE_CASE_PER_TRACE:
            by_case[json.dumps(cs[0])] = t['ev']
        else:
            for c, e in zip(cs, t['ev']):
                by_case[json.dumps(c)] = e
    matched, mism = 0, []
    for b, c in zip(behs, sim_cases):
        if sim_matches(b, by_case[json.dumps(c)]):
            matched += 1
        elif len(mism) < 5:
            mism.append(c)
    out.conformance['spec_to_code'] = {'behaviours': len(behs), 'matched': matched, 'first_mismatches': mism}

    stage('replay behaviours')
    # 3. code -> spec: enumerations (exhaustive where the space is finite) + seeded random
    cases = cases_fp16() + cases_quat(tier, rng) + cases_traj(tier, rng) + cases_rgb(tier, rng) + \
        cases_range(tier, rng) + cases_lh(tier, rng)
    stream_cases = cases_stream(tier, rng)          # drawn last: the other kinds see the same random numbers as before
    cases += stream_cases
    jobs = chunked(cases)
    traces = run_jobs(jobs)
    stage('run real code')
    res = judge(out, sim_jobs + jobs, sim_traces + traces, 'real code')
    stage('judge traces')
    groups = report(out, res)
    out.conformance['code_to_spec'] = {'calls': res.events, 'explained_by_design_spec': res.events - res.drift - len(res.bad),
                                       'rejected_by_monitor': len(res.bad), 'drift': res.drift}
    per_kind = {}
    for (k, cs) in sim_jobs + jobs:
        per_kind[k] = per_kind.get(k, 0) + (256 if k == 'rgb' else len(cs))
    per_kind['stream'] = sum(len(t['ev']) for (k, _cs), t in zip(sim_jobs + jobs, sim_traces + traces) if k == 'stream')
    out.evaluations = res.events
    out.distinct = len({json.dumps(c) for c in cases}) + len(uniq)
    out.exhaustive = True
    out.extra['calls_per_kind'] = per_kind
    out.extra['exhaustive_spaces'] = ['fp16_to_float: all 65,536 patterns (unsigned argument) + all 32,768 negative signed arguments',
                                      'RGB565 ring driver: 3 channels x 256 levels x 101 intensities; timings driver: 3 x 256 levels',
                                      'quaternion integer grid (-%d..%d)^4 minus 0' % ((3, 3) if tier == 'quick' else (8, 8)),
                                      'segment element-length combinations (0,1,3,7)^4']
    out.extra['sampled_spaces'] = ['random quaternions (integer vectors at binary scales, float unit quaternions)',
                                   'trajectory coordinates/yaw: boundary list around every int16 limit + random across and beyond the range',
                                   'range reports: 0..12 anchors, random float32 bit patterns incl. specials',
                                   'lighthouse packets: every half-float pattern as an offset (quick: one sixth + all classes), listed and random finite bases',
                                   'streams on one Localization object with a receiver that keeps the deliveries (packet / .data / the angle lists): '
                                   'all ordered pairs of packet kinds with and without another packet in between, neighbours differing in one field, '
                                   'random streams of 2..8 and 24..64 packets; each packet judged at delivery and after the stream']
    out.rule = ('one evaluation = one call of a real codec function (fp16_to_float, compress+decompress_quaternion, '
                'CompressedStart/CompressedSegment.pack, one LED level through write_data, Localization._incoming; for a packet of a '
                'stream: the delivery plus the later look at the kept object) whose exactly '
                'converted input and output were judged by TLC with CodecsProps; distinct = distinct inputs; all are non-trivial')
    picks = [c for c in (['fp16', 0x8000, False], ['fp16', 0x3555, False]) ] + [cases[len(cases) // 3], cases[-1]]
    for c in picks:
        k = case_kind(c)
        if k not in ONE_CASE_PER_TRACE:
            _init()
            out.samples.append(describe(k, c, exec_case(c)))
    _init()
    sc = stream_cases[0]
    out.samples.append(describe('stream', sc, dict(exec_chunk(('stream', [sc], None))['ev'][0], at=1)))
    out.extra['violation_groups'] = {s: len(g) for s, g in groups.items()}

    stage('report')
    # 4. sensitivity: in-memory mutants must be rejected by the monitor; corrupted traces too
    sub = {}
    step = {'fp16': 101, 'quat': 61, 'traj': 17, 'rgb': 40, 'range': 29, 'lh': 37, 'stream': 1} if tier == 'quick' else \
        {'fp16': 11, 'quat': 97, 'traj': 23, 'rgb': 25, 'range': 41, 'lh': 7, 'stream': 1}
    for k in CHUNK:
        ks = [c for c in cases if case_kind(c) == k]
        sub[k] = ks[::step[k]]
    sub['rgb'] = [['rgb', 'ring', ch, inten, o, o] for ch in (1, 2, 3) for (inten, o) in ((100, 0), (50, 0), (100, 255))]
    sub['stream'] = stream_cases[:30]               # the systematic streams, all three ways of keeping
    mjobs, mtraces, owner = [], [], []
    for name in sorted(MUTANTS):
        js = chunked([c for k in MUTANTS[name] for c in sub[k]])
        ts = run_jobs(js, mutant=name)
        mjobs += js
        mtraces += ts
        owner += [name] * len(js)
    # corrupted traces (binding self-test): one recorded field changed in an accepted trace
    import copy
    good_fp = copy.deepcopy(next(t for (k, _), t in zip(jobs, traces) if k == 'fp16'))
    good_fp['ev'] = [e for e in good_fp['ev'] if e['o']['c'] == 'fin' and e['o']['m']][:8]
    good_fp['ev'][3]['o']['e'] += 1
    good_q = copy.deepcopy(next(t for (k, _), t in zip(jobs, traces) if k == 'quat'))
    good_q['ev'] = good_q['ev'][:4]
    good_q['ev'][2]['d'][1]['s'] ^= 1
    good_r = copy.deepcopy(next(t for (k, cs), t in zip(jobs, traces) if k == 'rgb' and t['I'] == 100))
    good_r['ev'][200]['b'] = good_r['ev'][100]['b']
    # a stream in which the first kept packet later shows what the second one decoded to
    good_s = copy.deepcopy(next(t for (k, cs), t in zip(jobs, traces)
                                if k == 'stream' and [e['t'] for e in t['ev'][:2]] == ['lh', 'lh'] and
                                t['ev'][0]['data'][1:5] != t['ev'][1]['data'][1:5]))
    good_s['ev'][0]['late'] = copy.deepcopy(good_s['ev'][1]['o'])
    corrupt = [('binding:fp16-output-exponent+1', good_fp), ('binding:quat-component-sign-flipped', good_q),
               ('binding:rgb-level-200-replaced-by-100', good_r), ('binding:stream-first-packet-later-shows-the-second', good_s)]
    for name, t in corrupt:
        mjobs.append((t['kind'], [['corrupted']] * max(1, len(t['ev']))))
        mtraces.append(t)
        owner.append(name)
    o2 = common.Outcome('C13', tier, seed)
    for t, n in zip(mtraces, owner):
        t.pop('id', None)
        t['tag'] = n
    rejected = {}
    for (_kind, _case, clause, _ev, tag) in judge(o2, mjobs, mtraces, 'mutants', explode=False).bad:
        rejected.setdefault(tag, []).append(clause)
    stage('mutants')
    out.tlc_runs += o2.tlc_runs
    for name in sorted(MUTANTS) + [n for n, _ in corrupt]:
        cl = rejected.get(name, [])
        ntr = sum(1 for o in owner if o == name)
        out.sensitivity[('mutant:' if name in MUTANTS else '') + name] = \
            ('%d calls rejected in %d traces (%s)' % (len(cl), ntr, ','.join(sorted(set(cl))[:4]))) if cl else 'ACCEPTED'
        if not cl:
            raise common.MachineryError('monitor did not reject %s' % name)
    return out.finish()
