"""C18 -- CPX framing and routing preserve packets under any stream fragmentation.

spec/Cpx.tla (design), spec/CpxProps.tla (the property), spec/CpxTrace.tla (monitor +
conformance for traces recorded from the real CPXPacket / SocketTransport / CPXRouter /
TcpDriver / SerialDriver code running on a scripted in-memory socket).

Uplink: several sender threads use one link at the same time (send_packet from library threads,
CPX.sendPacket from an application); every socket write is a scheduling point; the monitor parses
the bytes in the order they were written and compares per sender (CpxProps (5)).  A sender hands
some CRTPPacket objects over more than once.

Python here only drives the code, records what it did and converts representations
(bytes <-> integer lists, enums <-> their integer values).  Every verdict is TLC's."""
import bisect
import copy
import itertools
import json
import random

from .. import common, tlc, vsched
from ..vsched import core as vcore
from ..vsched import vqueue
from ..vsched import vthreading
from ..vsched import vtime

REJ = [0, 0, 0, 0, 0, []]
FUNCTIONS = [1, 2, 3, 4, 5, 14, 15]
FN_CRTP = 3


# --------------------------------------------------------------------------- the scripted socket
class FakeSocket:
    """In-memory socket.  recv(n) hands out the stream from the current position up to the next
    cut (at most n bytes): the cut set is the set of fragment boundaries.  Nothing is delivered
    before `gate` is opened; at the end of the stream recv blocks for ever (or runs into the
    timeout the code has set).  Every write (send / sendall) is ONE scheduling point and puts its
    bytes on the wire atomically, in the order the scheduler grants the writes: `tx` is the byte
    stream the peer receives.  The whole socket API a transport may reasonably use is there
    (send, sendall, recv, recv_into, settimeout, setblocking, setsockopt, shutdown, close, ...):
    a changed tree must get a verdict, not an AttributeError."""

    def __init__(self, stream, cuts, rec, limit=None, gaps=None, wmax=None):
        # gaps: {stream position: seconds} -- after the fragment that ends at that position the
        # peer pauses (virtual time), so polling receivers run into their timeouts in between
        self.gaps = {int(k): float(v) for k, v in (gaps or {}).items()}
        self.not_before = 0.0
        self.stream = bytes(stream)
        # (a pause of the peer is a fragment boundary: gap positions are cuts as well)
        self.cuts = sorted(set(c for c in list(cuts) + list(self.gaps) if 0 < c < len(self.stream)))
        self.log_wr = True
        self.limit = len(self.stream) if limit is None else limit
        self.pos = 0
        self.gate = False
        self.tx = bytearray()
        self.tx_by = []          # (thread name | None, bytes)
        self.rec = rec
        self.timeout = None      # as set by settimeout (None = blocking)
        self.wmax = wmax         # short writes: send() takes at most wmax bytes (None: everything;
        #                          the registered scenarios use None, see `assumptions`)
        self.closed = False

    # ---- connection management (no-ops of a connected in-memory socket)
    def connect(self, addr):
        pass

    def connect_ex(self, addr):
        return 0

    def bind(self, addr):
        pass

    def setsockopt(self, *a):
        pass

    def getsockopt(self, *a):
        return 0

    def settimeout(self, t):
        self.timeout = None if t is None else float(t)

    def gettimeout(self):
        return self.timeout

    def setblocking(self, flag):
        self.timeout = None if flag else 0.0

    def getblocking(self):
        return self.timeout != 0.0

    def fileno(self):
        return 3

    def getpeername(self):
        return ('h', 1)

    def getsockname(self):
        return ('127.0.0.1', 40000)

    def __enter__(self):
        return self

    def __exit__(self, *a):
        self.close()

    def shutdown(self, how):
        pass

    def close(self):
        self.closed = True

    def detach(self):
        return 3

    # ---- receiving
    def _ready(self):
        return self.gate and self.pos < self.limit

    def _arrived(self):
        s = vcore.CUR
        return self._ready() and (s.now if s is not None else 0.0) >= self.not_before

    def _take(self, n):
        i = bisect.bisect_right(self.cuts, self.pos)
        nxt = self.cuts[i] if i < len(self.cuts) else self.limit
        k = max(0, min(n, nxt - self.pos, self.limit - self.pos))
        data = self.stream[self.pos:self.pos + k]
        self.pos += k
        if self.pos in self.gaps and vcore.CUR is not None:
            self.not_before = vcore.CUR.now + self.gaps[self.pos]
        self.rec.ev.append({'e': 'recv', 'n': n, 'k': k})
        return data

    def recv(self, n, flags=0):
        s = vcore.CUR
        now = s.now if s is not None else 0.0
        n = int(n)

        def late():
            # a deadline was reached: the data has arrived by then, or the code's own timeout fired
            if self._arrived():
                return self._take(n)
            raise TimeoutError('timed out')
        if self.timeout is not None and self.timeout <= 0.0 and not self._arrived():
            raise BlockingIOError(11, 'Resource temporarily unavailable')
        deadlines = []
        if self._ready() and self.not_before > now:
            # the peer is pausing: the data arrives at not_before (a timed wait for the scheduler)
            deadlines.append(self.not_before)
        if self.timeout is not None:
            deadlines.append(now + self.timeout)
        if deadlines:
            return vthreading._do(vcore.Op('sock.recv', self, self._arrived, lambda: self._take(n),
                                           deadline=min(deadlines), timeout_result=late))
        return vthreading._do(vcore.Op('sock.recv', self, self._arrived, lambda: self._take(n)))

    def recv_into(self, buf, nbytes=0, flags=0):
        view = memoryview(buf).cast('B')
        n = int(nbytes) or len(view)
        data = self.recv(min(n, len(view)), flags)
        view[:len(data)] = data
        return len(data)

    def recvfrom(self, n, flags=0):
        return self.recv(n, flags), ('h', 1)

    def recvfrom_into(self, buf, nbytes=0, flags=0):
        return self.recv_into(buf, nbytes, flags), ('h', 1)

    def makefile(self, mode='r', *a, **k):
        import io
        sock = self

        class _Raw(io.RawIOBase):
            def readable(self):
                return True

            def writable(self):
                return True

            def readinto(self, b):
                return sock.recv_into(b)

            def write(self, b):
                return sock.send(b)
        return io.BufferedRWPair(_Raw(), _Raw()) if 'b' in mode else io.TextIOWrapper(io.BufferedRWPair(_Raw(), _Raw()))

    # ---- sending: one scheduling point per write
    def _write(self, data):
        s = vcore.CUR
        me = s.current() if s is not None else None
        data = bytes(data)

        def fire():
            self.tx += data
            self.tx_by.append((me.name if me is not None else None, data))
            if me is not None and self.log_wr:       # (set-up code -- connect() -- is reported by the `connect` event)
                self.rec.ev.append({'e': 'wr', 's': self.rec.sender_id(me.name), 'b': [int(x) for x in data]})
            return len(data)
        return vthreading._do(vcore.Op('sock.send', self, lambda: True, fire))

    def send(self, data, flags=0):
        data = bytes(data)
        if self.wmax is not None and len(data) > self.wmax:
            data = data[:max(1, self.wmax)]
        return self._write(data)

    def sendall(self, data, flags=0):
        data = bytes(data)
        if self.wmax is None:
            self._write(data)
        else:
            while data:
                k = self._write(data[:max(1, self.wmax)])
                data = data[k:]
        return None

    def sendto(self, data, *a):
        return self.send(data)

    def sendmsg(self, buffers, *a):
        return self.send(b''.join(bytes(x) for x in buffers))


class FakeSocketModule:
    """Stands in for the `socket` module inside cflib.cpx.transports (module boundary).  Sockets
    are the scripted ones; every other name (constants, exception classes) is the real module's."""

    def __init__(self):
        self.next = None

    def socket(self, *a, **k):
        return self.next

    def create_connection(self, *a, **k):
        return self.next

    def __getattr__(self, name):
        import socket as _real
        return getattr(_real, name)


FAKE = FakeSocketModule()


class Recorder:
    def __init__(self):
        self.ev = []
        self.registered = {}      # receiver id -> function
        self.names = {}           # virtual thread name -> receiver id
        self.senders = {}         # virtual thread name -> sender id

    def sender_id(self, name):
        return self.senders.get(name, -1)

    def receiver_id(self):
        s = vcore.CUR
        me = s.current() if s is not None else None
        if me is None:
            return -1
        if me.name.startswith('_CPXReceiveThread'):
            return 0
        return self.names.get(me.name, -1)


REC = None          # the recorder of the execution in progress
IMPL = {}           # the functions the observation wrappers forward to (mutants swap these)
_installed = False


def out_of(p):
    """CPXPacket -> outcome tuple of CpxProps (representation conversion only)."""
    return [1, int(p.source.value), int(p.destination.value), int(p.function.value),
            1 if p.lastPacket else 0, [int(b) for b in p.data]]


def _install():
    """Import cflib under the virtual primitives, put the scripted socket module in place of
    `socket` inside cflib.cpx.transports, silence the library's print() calls, and wrap the three
    observation points (class level, harness process only; every wrapper forwards unchanged)."""
    global _installed
    vsched.load_cflib()
    if _installed:
        return
    _installed = True
    import cflib.cpx as cpx
    import cflib.cpx.transports as tr
    import cflib.crtp.serialdriver as sd
    import cflib.crtp.tcpdriver as td
    tr.socket = FAKE
    for m in (cpx, tr, td, sd):
        m.print = lambda *a, **k: None
    IMPL['_readData'] = tr.SocketTransport._readData
    IMPL['readPacket'] = tr.SocketTransport.readPacket
    IMPL['receivePacket'] = cpx.CPXRouter.receivePacket

    def _readData(self, size):
        if REC is not None:
            REC.ev.append({'e': 'need', 'n': int(size)})
        return IMPL['_readData'](self, size)

    def readPacket(self):
        try:
            p = IMPL['readPacket'](self)
        except vcore.WouldBlock:
            raise
        except Exception:
            if REC is not None:
                REC.ev.append({'e': 'pkt', 'o': REJ})
            raise
        if REC is not None:
            REC.ev.append({'e': 'pkt', 'o': out_of(p)})
        return p

    def receivePacket(self, function, timeout=None):
        rec = REC
        r = rec.receiver_id() if rec is not None else -1
        if rec is not None and r not in rec.registered:
            rec.registered[r] = function.value
            rec.ev.append({'e': 'reg', 'r': r, 'f': int(function.value)})
        p = IMPL['receivePacket'](self, function, timeout)
        if rec is not None:
            rec.ev.append({'e': 'rx', 'r': r, 'f': int(function.value), 'o': out_of(p)})
        return p

    tr.SocketTransport._readData = _readData
    tr.SocketTransport.readPacket = readPacket
    cpx.CPXRouter.receivePacket = receivePacket


# --------------------------------------------------------------------------- harness-side encoder
def enc_stream(pkts):
    """The protocol's encoding of a packet sequence, written independently of cflib.  TLC checks
    every stream built here against CpxProps!Stream before it judges the trace (BadInputStream)."""
    out = []
    for (s, d, f, l, v, x) in pkts:
        n = len(x) + 2
        out += [n & 0xFF, n >> 8, (s << 3) | d | (l << 6), f | (v << 6)] + list(x)
    return out


def make_packet(p):
    from cflib.cpx import CPXFunction, CPXPacket, CPXTarget
    (s, d, f, l, v, x) = p
    q = CPXPacket(function=CPXFunction(f), destination=CPXTarget(d), source=CPXTarget(s),
                  data=bytearray(x))
    q.lastPacket = bool(l)
    q.version = v
    return q


# --------------------------------------------------------------------------- executions
def run_codec(pkts):
    """CPXPacket(p).wireData -> bytes -> CPXPacket().wireData = bytes, for each p."""
    from cflib.cpx import CPXPacket
    ev = []
    for p in pkts:
        w = make_packet(p).wireData
        q = CPXPacket()
        try:
            q.wireData = w
            o = out_of(q)
        except Exception:
            o = REJ
        ev.append({'e': 'codec', 'p': list(p), 'w': [int(b) for b in w], 'o': o})
    return ev


def loopback_stream(pkts):
    """The bytes the real SocketTransport.writePacket produces for pkts (src = "code")."""
    global REC
    from cflib.cpx.transports import SocketTransport
    rec = Recorder()
    sock = FakeSocket(b'', [], rec)
    FAKE.next = sock
    prev, REC = REC, None
    try:
        t = SocketTransport('h', 1)
        for p in pkts:
            q = make_packet(p)
            t.writePacket(q)
    finally:
        REC = prev
    return [int(b) for b in sock.tx]


def run_transport(stream, cuts, npk, compact=False):
    """Call the real readPacket until the stream is used up (no threads: the scripted socket
    raises WouldBlock when the reader would have to wait).  Returns (events, fin)."""
    global REC
    from cflib.cpx.transports import SocketTransport
    rec = Recorder()
    sock = FakeSocket(stream, cuts, rec)
    sock.gate = True
    FAKE.next = sock
    REC = rec
    blocked = False
    try:
        t = SocketTransport('h', 1)
        rec.ev.append({'e': 'start'})
        for _ in range(npk + 3):
            try:
                t.readPacket()
            except vcore.WouldBlock:
                blocked = True
                break
            except Exception:
                pass
    finally:
        REC = None
    fin = {'alive': True, 'compact': compact, 'consumed': sock.pos, 'blocked': blocked}
    if compact:
        return [e['o'] for e in rec.ev if e['e'] == 'pkt'], fin
    return rec.ev, fin


class PrefPolicy:
    """Prefer threads whose name starts with one of `first` (e.g. the router: every packet is queued
    before a receiver runs), else seeded random."""

    def __init__(self, rng, first):
        self.rng = rng
        self.first = tuple(first)

    def choose(self, sched, runnable, timed):
        if not runnable:
            return vsched.TICK
        pref = [r for r in runnable if r.name.startswith(self.first)]
        if pref and self.rng.random() < 0.95:
            return pref[self.rng.randrange(len(pref))]
        return runnable[self.rng.randrange(len(runnable))]


def _policy(sc, rng):
    k = sc.get('policy', 'random')
    if k == 'router_first':
        return PrefPolicy(rng, ('CPXRouter',))
    if k == 'router_last':
        return PrefPolicy(rng, ('rcv', 'urx', 'utx', '_CPXReceiveThread'))
    return vsched.RandomPolicy(rng)


def _pending(rec_thread):
    op = rec_thread.pending
    return (op.kind, op.obj) if op is not None and not rec_thread.finished else (None, None)


def run_router(sc):
    """CPXRouter thread + receiver threads under the virtual scheduler."""
    global REC
    from cflib.cpx import CPXFunction, CPXPacket, CPXRouter, CPXTarget
    from cflib.cpx.transports import SocketTransport
    rec = Recorder()
    rng = random.Random(sc['sched'])
    sock = FakeSocket(sc['stream'], sc['cuts'], rec, sc.get('limit'), sc.get('gaps'))
    sock.log_wr = False      # router mode: requests of transaction-style receivers are not part of the history
    FAKE.next = sock
    REC = rec
    try:
        with vsched.scheduler(_policy(sc, rng), max_steps=400000) as s:
            router = CPXRouter(SocketTransport('h', 1))
            router.start()
            rthreads = []

            def receiver(r, f, timeout, pause=0.0, tp=0.0):
                # tp > 0: a transaction-style user of function f -- some of its calls are
                # makeTransaction(request) (send, then wait for the next packet of f) instead of
                # receivePacket(f); the function may have packets pending at that moment
                fn = CPXFunction(f)
                rr = random.Random(sc['sched'] * 31 + r)
                first = True
                while True:
                    try:
                        if tp and not first and rr.random() < tp:
                            q = CPXPacket(function=fn, destination=CPXTarget.GAP8, data=bytearray([r]))
                            router.makeTransaction(q)
                        else:
                            router.receivePacket(fn, timeout)
                    except vqueue.Empty:
                        if pause:                  # a receiver that does something else between polls
                            vtime.sleep(pause)
                    first = False

            for ent in sc['rcv']:
                (r, f, timeout) = ent[:3]
                th = s.spawn(receiver, 'rcv%d' % r, (r, f, timeout) + tuple(ent[3:5]))
                rec.names[th.name] = r
                rthreads.append(th)
            ids = [ent[0] for ent in sc['rcv']]
            s.run(until=lambda: all(r in rec.registered for r in ids) and
                  all(_pending(t)[0] == 'queue.get' for t in rthreads), horizon=5.0)
            rec.ev.append({'e': 'start'})
            sock.gate = True
            rrec = router._vs_rec

            def quiet():
                if rrec.finished:
                    return True
                if _pending(rrec)[0] != 'sock.recv' or sock._ready():
                    return False
                if any(q.qsize() for q in router._rxQueues.values()):
                    return False
                return all(t.finished or _pending(t)[0] == 'queue.get' for t in rthreads)
            res = s.run(until=quiet, horizon=s.now + 60.0)
            if any(len(ent) > 3 for ent in sc['rcv']):      # let pausing receivers come back and drain
                res = s.run(until=quiet, horizon=s.now + 5.0)
            dead = [t['name'] for t in s.report() if t['status'] == 'dead']
            alive = not dead and not rrec.finished
    finally:
        REC = None
    fin = {'alive': alive, 'compact': False, 'consumed': sock.pos, 'blocked': True, 'run': res}
    return rec.ev, fin


def run_tcp(sc):
    """The real TcpDriver (or SerialDriver's tunnel code on the same transport) under the
    virtual scheduler: router thread, _CPXReceiveThread, a user receiving, a user sending."""
    global REC
    from cflib.cpx import CPX, CPXFunction, CPXPacket, CPXTarget
    from cflib.cpx.transports import SocketTransport
    from cflib.crtp.crtpstack import CRTPPacket
    import cflib.crtp.serialdriver as sd
    import cflib.crtp.tcpdriver as td
    from ..vsched import vqueue
    rec = Recorder()
    rng = random.Random(sc['sched'])
    sock = FakeSocket(sc['stream'], sc['cuts'], rec, sc.get('limit'), sc.get('gaps'), wmax=sc.get('wmax'))
    FAKE.next = sock
    REC = rec
    errors = []
    try:
        with vsched.scheduler(_policy(sc, rng), max_steps=400000) as s:
            connected = True
            if sc.get('drv', 'tcp') == 'tcp':
                drv = td.TcpDriver()
                try:
                    drv.connect('tcp://h:1', None, errors.append)
                except Exception:          # the code under test could not connect: judged, not a crash
                    connected = False
            else:
                # SerialDriver.connect needs pyserial and a device; its tunnel code (receive
                # thread, send_packet, receive_packet) is put on the scripted transport by hand
                drv = sd.SerialDriver()
                drv.in_queue = vqueue.Queue()
                drv.cpx = CPX(SocketTransport('h', 1))
                drv._thread = sd._CPXReceiveThread(drv.cpx, drv.in_queue, errors.append)
                drv._thread.start()
                drv.cpx.sendPacket(CPXPacket(destination=CPXTarget.STM32, function=CPXFunction.SYSTEM,
                                             data=[0x21, 0x01]))
            rec.ev.append({'e': 'connect', 'b': [int(b) for b in sock.tx]})
            senders = senders_of(sc)
            if not connected:
                # nothing can be sent or received: every scripted call fails
                for sd_ in senders:
                    for op in sd_['ops']:
                        if op[0] != 'again':
                            rec.ev.append({'e': 'sendb', 's': sd_['id'], 'it': item_of(op), 'fresh': 1})
                            rec.ev.append({'e': 'sende', 's': sd_['id'], 'ok': 0, 'same': 1})
                rec.ev.append({'e': 'start'})
                fin = {'alive': False, 'compact': False, 'consumed': sock.pos, 'blocked': True, 'run': 'noconnect',
                       'link_errors': len(errors)}
                return rec.ev, fin
            router = drv.cpx._router
            rthreads = []

            def receiver(f, timeout):
                fn = CPXFunction(f)
                while True:
                    try:
                        drv.cpx.receivePacket(fn, timeout)
                    except vqueue.Empty:
                        pass

            for (r, f, timeout) in sc['rcv']:
                th = s.spawn(receiver, 'rcv%d' % r, (f, timeout))
                rec.names[th.name] = r
                rthreads.append(th)

            def user_rx():
                w = sc.get('wait', -1)
                while True:
                    pk = drv.receive_packet(w)
                    if pk is not None:
                        rec.ev.append({'e': 'crtp', 'c': [int(pk.port), int(pk.channel),
                                                          [int(b) for b in pk.data]]})

            # sender threads: the library thread(s) using send_packet, applications using CPX.sendPacket
            # on the same link.  `order` (spec -> code replay) fixes whose call comes next.
            order = sc.get('order')
            turn = [0]

            def my_turn(sid):
                if order is None:
                    return
                vthreading._do(vcore.Op('turn.wait', turn, lambda: turn[0] >= len(order) or order[turn[0]] == sid,
                                        lambda: None))

            def sender(sd_):
                sid = sd_['id']
                obj, built = None, None
                for op in sd_['ops']:
                    if op[0] == 'again' and obj is None:
                        continue
                    my_turn(sid)
                    if op[0] == 'app':
                        (_k, dst, f, last, data) = op
                        q = CPXPacket(function=CPXFunction(f), destination=CPXTarget(dst), data=bytearray(data))
                        q.lastPacket = bool(last)
                        it = item_of(op)
                        rec.ev.append({'e': 'sendb', 's': sid, 'it': it, 'fresh': 1})
                        ok = 1
                        try:
                            drv.cpx.sendPacket(q)
                        except Exception:
                            ok = 0
                        try:
                            same = out_of(q) == it[1] and q.version == 0
                        except Exception:
                            same = False
                    else:
                        fresh = 1 if op[0] == 'crtp' else 0
                        if fresh:
                            # an object the caller builds once; 'again' hands the very same object over
                            # once more (cached set-point, retry of an unanswered request)
                            (_k, port, chan, data) = op
                            obj = CRTPPacket()
                            obj.set_header(port, chan)
                            obj.data = bytes(data)
                            built = [port, chan, [int(x) for x in data]]
                        rec.ev.append({'e': 'sendb', 's': sid, 'it': [0, built], 'fresh': fresh})
                        ok = 1
                        try:
                            drv.send_packet(obj)
                        except Exception:
                            ok = 0
                        try:
                            same = [int(obj.port), int(obj.channel), [int(x) for x in obj.data]] == built
                        except Exception:
                            same = False
                    rec.ev.append({'e': 'sende', 's': sid, 'ok': ok, 'same': 1 if same else 0})
                    turn[0] += 1

            urx = s.spawn(user_rx, 'urx')
            ids = [0] + [r for (r, _f, _t) in sc['rcv']]
            txs = []

            def start_senders():
                for sd_ in senders:
                    th = s.spawn(sender, 'utx%d' % sd_['id'], (sd_,))
                    rec.senders[th.name] = sd_['id']
                    txs.append(th)
            if sc.get('tx_early'):
                start_senders()
            s.run(until=lambda: all(r in rec.registered for r in ids), horizon=5.0)
            rec.ev.append({'e': 'start'})
            sock.gate = True
            if not txs:
                start_senders()
            rrec = router._vs_rec
            trec = drv._thread._vs_rec

            def quiet():
                if not all(t.finished for t in txs):
                    return False
                if not rrec.finished and (_pending(rrec)[0] != 'sock.recv' or sock._ready()):
                    return False
                if any(q.qsize() for q in router._rxQueues.values()) or drv.in_queue.qsize():
                    return False
                for t in rthreads + [trec, urx]:
                    if not t.finished and _pending(t)[0] != 'queue.get':
                        return False
                return True
            res = s.run(until=quiet, horizon=s.now + 90.0)
            dead = [t['name'] for t in s.report() if t['status'] == 'dead']
            alive = not dead and not rrec.finished and not trec.finished
    finally:
        REC = None
    fin = {'alive': alive, 'compact': False, 'consumed': sock.pos, 'blocked': True, 'run': res,
           'link_errors': len(errors)}
    return rec.ev, fin


def senders_of(sc):
    """The sender threads of a tcp job: [{'id', 'ops'}], op = ['crtp', port, chan, data] (a packet
    object built by the caller), ['again'] (the same object handed to send_packet once more),
    ['app', dst, function, last, data] (a CPX packet through CPX.sendPacket).  Old-style jobs
    (`sends` = CRTP packets of one thread) are one sender."""
    if sc.get('senders') is not None:
        return [{'id': int(d['id']), 'ops': [list(o) for o in d['ops']]} for d in sc['senders']]
    ops = [['crtp', p, c, list(d)] for (p, c, d) in sc.get('sends', [])]
    return [{'id': 1, 'ops': ops}] if ops else []


def item_of(op):
    """representation conversion: a sender's op -> the item of CpxProps (5)"""
    if op[0] == 'crtp':
        return [0, [int(op[1]), int(op[2]), [int(x) for x in op[3]]]]
    (_k, dst, f, last, data) = op
    return [1, [1, 3, int(dst), int(f), int(last), [int(x) for x in data]]]


# --------------------------------------------------------------------------- in-memory mutants
class mutant:
    """Context manager: one seeded defect in the code under test (harness process only)."""

    def __init__(self, name):
        self.name = name
        self.undo = []

    def _set(self, obj, attr, val):
        old = obj.__dict__[attr] if isinstance(obj, type) else getattr(obj, attr)
        self.undo.append((obj, attr, old))
        setattr(obj, attr, val)

    def _impl(self, key, fn):
        old = IMPL[key]
        self.undo.append((IMPL, key, old))
        IMPL[key] = fn

    def __enter__(self):
        import struct
        import cflib.cpx as cpx
        import cflib.crtp.serialdriver as sd
        import cflib.crtp.tcpdriver as td
        from cflib.crtp.crtpstack import CRTPPacket
        name = self.name
        P = cpx.CPXPacket
        if name is None:
            return self
        if name == 'one_recv':                 # one recv() call = one packet
            self._impl('_readData', lambda t, size: bytearray(t._socket.recv(size)))
        elif name == 'be_len':                 # big-endian length prefix
            def rp(t):
                size = struct.unpack('>H', t._readData(2))[0]
                pk = P()
                pk.wireData = t._readData(size)
                return pk
            self._impl('readPacket', rp)
        elif name == 'len_counts_prefix':      # length read as if it included the 2 prefix bytes
            def rp2(t):
                size = struct.unpack('H', t._readData(2))[0]
                pk = P()
                pk.wireData = t._readData(max(0, size - 2))
                return pk
            self._impl('readPacket', rp2)
        elif name in ('swap_targets', 'no_version_check', 'flag_bit7'):
            def setw(p, data):
                t, fv = struct.unpack('<BB', data[0:2])
                p.version = (fv >> 6) & 0x3
                if name != 'no_version_check' and p.version != p.CPX_VERSION:
                    raise RuntimeError('Unsupported CPX version')
                if name == 'swap_targets':
                    p.source = cpx.CPXTarget(t & 0x07)
                    p.destination = cpx.CPXTarget((t >> 3) & 0x07)
                else:
                    p.source = cpx.CPXTarget((t >> 3) & 0x07)
                    p.destination = cpx.CPXTarget(t & 0x07)
                p.lastPacket = (t & (0x80 if name == 'flag_bit7' else 0x40)) != 0
                p.function = cpx.CPXFunction(fv & 0x3F)
                p.data = data[2:]
                p.length = len(p.data)
            self._set(P, 'wireData', property(P._get_wire_data, setw))
        elif name == 'fn_mask4':               # encoder keeps only 4 bits of the function
            def getw(p):
                raw = bytearray(P._get_wire_data(p))
                raw[1] = (raw[1] & 0xC0) | (raw[1] & 0x07)
                return raw
            self._set(P, 'wireData', property(getw, P._set_wire_data))
        elif name == 'route_by_dst':           # router files packets under the destination value
            def run(r):
                while r._connected:
                    try:
                        pk = r._transport.readPacket()
                        if pk.destination.value in r._rxQueues:
                            r._rxQueues[pk.destination.value].put(pk)
                    except Exception:
                        pass
            self._set(cpx.CPXRouter, 'run', run)
        elif name == 'one_queue':              # router ignores the function: first queue gets all
            def run1(r):
                while r._connected:
                    try:
                        pk = r._transport.readPacket()
                        for q in r._rxQueues.values():
                            q.put(pk)
                            break
                    except Exception:
                        pass
            self._set(cpx.CPXRouter, 'run', run1)
        elif name == 'lifo':                   # per-function queue hands out newest first
            def rcv(r, function, timeout=None):
                if function.value not in r._rxQueues:
                    r._rxQueues[function.value] = vqueue.LifoQueue()
                return r._rxQueues[function.value].get(block=True, timeout=timeout)
            self._impl('receivePacket', rcv)
        elif name == 'queue_dropped_on_timeout':   # a timed-out poll forgets the (empty) queue
            def rcv2(r, function, timeout=None):
                if function.value not in r._rxQueues:
                    r._rxQueues[function.value] = vqueue.Queue()
                try:
                    return r._rxQueues[function.value].get(block=True, timeout=timeout)
                except vqueue.Empty:
                    if r._rxQueues[function.value].empty():
                        del r._rxQueues[function.value]
                    raise
            self._impl('receivePacket', rcv2)
        elif name in ('down_payload_shift', 'down_drop_short'):
            def mk(timeout):
                def run2(t):
                    while True:
                        if t.sp:
                            break
                        try:
                            cp = t._cpx.receivePacket(cpx.CPXFunction.CRTP, timeout=timeout)
                            data = struct.unpack('B' * len(cp.data), cp.data)
                            if name == 'down_payload_shift' and len(data) > 0:
                                t.in_queue.put(CRTPPacket(data[0], list(data[2:])))
                            elif name == 'down_drop_short' and len(data) > 1:
                                t.in_queue.put(CRTPPacket(data[0], list(data[1:])))
                        except vqueue.Empty:
                            pass
                return run2
            self._set(td._CPXReceiveThread, 'run', mk(0.1))
            self._set(sd._CPXReceiveThread, 'run', mk(1))
        elif name == 'up_no_header':           # send_packet forgets the CRTP header byte
            def sp(d, pk):
                raw = struct.unpack('B' * len(pk.data), pk.data)
                d.cpx.sendPacket(P(destination=cpx.CPXTarget.STM32, function=cpx.CPXFunction.CRTP, data=raw))
            self._set(td.TcpDriver, 'send_packet', sp)
            self._set(sd.SerialDriver, 'send_packet', sp)
        elif name == 'up_len_plus4':           # writePacket counts the prefix into the length
            import cflib.cpx.transports as tr

            def wp(t, packet):
                data = bytearray(struct.pack('H', packet.length + 4))
                data += packet.wireData
                t._socket.send(data)
            self._set(tr.SocketTransport, 'writePacket', wp)
        elif name == 'recv_timeout_2s':        # the transport leaves a 2 s timeout on its socket
            orig_rd = IMPL['_readData']

            def rd2(t, size):
                t._socket.settimeout(2)
                return orig_rd(t, size)
            self._impl('_readData', rd2)
        elif name == 'transaction_fresh_queue':    # makeTransaction starts with a fresh queue for the function
            def mt(r, packet):
                r._rxQueues[packet.function.value] = vqueue.Queue()
                r.sendPacket(packet)
                return r.receivePacket(packet.function)
            self._set(cpx.CPXRouter, 'makeTransaction', mt)
        elif name == 'write_split':            # length prefix and wire data written with two calls
            import cflib.cpx.transports as tr

            def wp2(t, packet):
                t._socket.send(struct.pack('H', packet.length + 2))
                t._socket.send(bytes(packet.wireData))
            self._set(tr.SocketTransport, 'writePacket', wp2)
        elif name == 'header_in_place':        # send_packet builds the CPX payload inside the caller's packet
            def sp2(d, pk):
                pk.data.insert(0, pk.header)
                d.cpx.sendPacket(P(destination=cpx.CPXTarget.STM32, function=cpx.CPXFunction.CRTP, data=pk.data))
            self._set(td.TcpDriver, 'send_packet', sp2)
            self._set(sd.SerialDriver, 'send_packet', sp2)
        else:
            raise common.MachineryError('unknown mutant %s' % name)
        return self

    def __exit__(self, *a):
        for (obj, attr, old) in reversed(self.undo):
            if isinstance(obj, dict):
                obj[attr] = old
            else:
                setattr(obj, attr, old)
        return False


# which scenario kinds each mutant is run against
MUTANTS = {
    'one_recv': ('tfull', 'router', 'tcp'), 'be_len': ('tfull', 'router'),
    'len_counts_prefix': ('tfull', 'tcp'),
    'swap_targets': ('codec', 'router'), 'no_version_check': ('codec', 'tfull'),
    'flag_bit7': ('codec',), 'fn_mask4': ('codec',),
    'route_by_dst': ('router',), 'one_queue': ('router',), 'lifo': ('router',),
    'queue_dropped_on_timeout': ('router', 'tcp'),
    'down_payload_shift': ('tcp',), 'down_drop_short': ('tcp',),
    'up_no_header': ('tcp',), 'up_len_plus4': ('tcp', 'loop'),
    'recv_timeout_2s': ('router', 'tcp'), 'transaction_fresh_queue': ('router',),
    'write_split': ('tcp',), 'header_in_place': ('tcp',),
}


# --------------------------------------------------------------------------- jobs -> traces
def all_cut_sets(L):
    for m in range(1 << max(0, L - 1)):
        yield [i + 1 for i in range(L - 1) if (m >> i) & 1]


def run_job(job):
    """job: dict(kind, pkts, ...) -> trace dict (without id).  Deterministic in the job."""
    kind = job['kind']
    pkts = [list(p) for p in job.get('pkts', [])]
    with mutant(job.get('mutant')):
        if kind == 'codec':
            return {'mode': 'codec', 'src': 'spec', 'pkts': [], 'stream': [], 'rcv': [], 'snd': [],
                    'ev': run_codec(pkts), 'fin': {'alive': True, 'compact': False, 'consumed': 0}}
        if job.get('src', 'spec') == 'code':
            stream = loopback_stream(pkts)
        else:
            stream = enc_stream(pkts)
        base = {'src': job.get('src', 'spec'), 'pkts': pkts, 'stream': stream, 'snd': []}
        if kind == 'tcompact':      # every cut set of the stream, one "run" event each
            runs = []
            fin = None
            for cuts in (all_cut_sets(len(stream)) if job['cuts'] == 'all' else job['cuts']):
                reads, fin = run_transport(stream, cuts, len(pkts), compact=True)
                runs.append({'e': 'run', 'reads': reads})
            return dict(base, mode='transport', rcv=[], ev=runs,
                        fin={'alive': True, 'compact': True, 'consumed': fin['consumed'] if fin else 0})
        if kind in ('tfull', 'loop'):
            ev, fin = run_transport(stream, job['cuts'], len(pkts))
            return dict(base, mode='transport', rcv=[], ev=ev, fin=fin)
        sc = dict(job, stream=stream)
        if kind == 'router':
            ev, fin = run_router(sc)
            return dict(base, mode='router', rcv=[ent[0] for ent in job['rcv']], ev=ev, fin=fin)
        if kind == 'tcp':
            ev, fin = run_tcp(sc)
            return dict(base, mode='tcp', rcv=[0] + [r for (r, _f, _t) in job['rcv']],
                        snd=[d['id'] for d in senders_of(job)], ev=ev, fin=fin)
    raise common.MachineryError('unknown job kind %s' % kind)


def run_jobs(jobs):
    return common.pmap(run_job, jobs, init=_install, maxtasks=200)


# --------------------------------------------------------------------------- scenario sources
def rand_packet(rng, n, fns=FUNCTIONS, ver=0, data=None):
    return [rng.randint(1, 4), rng.randint(1, 4), rng.choice(fns), rng.randint(0, 1), ver,
            data if data is not None else [rng.choice((0, 255, rng.randrange(256))) for _ in range(n)]]


def compositions(lmax, maxpk=3):
    """Payload-length tuples of 1..maxpk packets whose stream (4 + len bytes per packet) is <= lmax."""
    out = []
    for n in range(1, maxpk + 1):
        room = lmax - 4 * n
        if room < 0:
            break
        for lens in itertools.product(range(room + 1), repeat=n):
            if sum(lens) <= room:
                out.append(lens)
    return out


def header_combos():
    return [(s, d, f, l, v) for s in range(1, 5) for d in range(1, 5) for f in FUNCTIONS
            for l in (0, 1) for v in range(4)]


APP_FNS = [2, 4, 5, 14, 15]      # functions an application sender may own (SYSTEM is connect()'s, CRTP the driver's)


def gen_senders(rng, nthreads, maxops, lens=None, again_p=0.3):
    """Sender threads of one link.  Each owns some CRTP ports (the library thread, a commander
    loop, a parameter thread ... use different ports) or a CPX function of its own (an application
    talking to the GAP8/ESP32 through CPX.sendPacket); a CRTP sender hands some packet objects over
    more than once (cached set-point, retry of an unanswered request)."""
    ports = list(range(16))
    rng.shuffle(ports)
    fns = list(APP_FNS)
    rng.shuffle(fns)
    lens = lens or list(range(31))
    out = []
    for i in range(nthreads):
        own_ports = [ports.pop() for _ in range(rng.randint(1, 3))]
        own_fn = fns.pop() if (i > 0 and rng.random() < 0.6) else None
        ops = []
        for _ in range(rng.randint(1, maxops)):
            if own_fn is not None and rng.random() < 0.5:
                ops.append(['app', rng.choice((1, 2, 4)), own_fn, rng.randint(0, 1),
                            [rng.randrange(256) for _ in range(rng.choice(lens))]])
            else:
                ops.append(['crtp', rng.choice(own_ports), rng.randrange(4),
                            [rng.choice((0, 255, rng.randrange(256))) for _ in range(rng.choice(lens))]])
                while rng.random() < again_p and len(ops) < maxops + 2:
                    ops.append(['again'])
        out.append({'id': i + 1, 'ops': ops})
    return out


def jobs_codec(tier, rng):
    """every source x destination x function x flag x version, per payload length"""
    jobs = []
    short = [0, 1, 2, 3, 30, 31] if tier == 'quick' else [0, 1, 2, 3, 4, 7, 29, 30, 31, 32, 63, 64, 98, 99, 100]
    mid = [254, 1022] if tier == 'quick' else [253, 254, 255, 256, 510, 1021, 1022, 4094]
    huge = [65533] if tier == 'quick' else [65532, 65533]
    combos = header_combos()
    for n in short:
        pk = [[s, d, f, l, v, [rng.randrange(256) for _ in range(n)]] for (s, d, f, l, v) in combos]
        for i in range(0, len(pk), 896):
            jobs.append({'kind': 'codec', 'pkts': pk[i:i + 896]})
    for n in mid:
        sub = rng.sample(combos, 48)
        jobs.append({'kind': 'codec', 'pkts': [[s, d, f, l, v, [rng.randrange(256) for _ in range(n)]]
                                               for (s, d, f, l, v) in sub]})
    for n in huge:
        sub = [(3, 1, 3, 1, 0), (4, 4, 15, 0, 0), (1, 2, 14, 1, 3)]
        jobs.append({'kind': 'codec', 'pkts': [[s, d, f, l, v, [rng.randrange(256) for _ in range(n)]]
                                               for (s, d, f, l, v) in sub]})
    return jobs


def _pkts_for(rng, lens, fns=FUNCTIONS, bad=False):
    pk = [rand_packet(rng, n, fns) for n in lens]
    if bad:
        pk[rng.randrange(len(pk))][4] = rng.randint(1, 3)
    return pk


def jobs_exhaustive(tier, rng):
    """all cut sets of short streams"""
    lc, lf, lr, lt = EXH[tier]
    jobs = []
    # transport level, compact (one event per cut set): all length compositions up to lc bytes
    for lens in compositions(lc):
        for bad in (False, True):
            jobs.append({'kind': 'tcompact', 'pkts': _pkts_for(rng, lens, bad=bad), 'cuts': 'all'})
    # transport level, every recv recorded (conformance of each step)
    for lens in compositions(lf):
        pk = _pkts_for(rng, lens, bad=(rng.random() < 0.3))
        for cuts in all_cut_sets(4 * len(lens) + sum(lens)):
            jobs.append({'kind': 'tfull', 'pkts': pk, 'cuts': cuts})
    # router + receivers under the scheduler
    for lens in compositions(lr):
        f1, f2 = rng.sample(FUNCTIONS, 2)
        for rcv in ([(1, f1, None), (2, f2, None)], [(1, f1, None), (2, f1, None), (3, f2, 0.3)],
                    [(1, f2, None)]):
            pk = _pkts_for(rng, lens, fns=[f1, f2], bad=(rng.random() < 0.25))
            for cuts in all_cut_sets(4 * len(lens) + sum(lens)):
                jobs.append({'kind': 'router', 'pkts': pk, 'cuts': cuts, 'rcv': rcv,
                             'sched': rng.randrange(1 << 30)})
    # TcpDriver / SerialDriver tunnel: CRTP-in-CPX packets (payload >= 1 = CRTP header) + others
    for lens in compositions(lt):
        for drv in ('tcp', 'serial'):
            pk = []
            for n in lens:
                f = FN_CRTP if (n > 0 and rng.random() < 0.8) else rng.choice([2, FN_CRTP])
                pk.append(rand_packet(rng, n, [f]))
            if rng.random() < 0.2:
                pk[rng.randrange(len(pk))][4] = 2
            senders = gen_senders(rng, rng.choice((0, 1, 1, 2, 2, 3)), 2, lens=(0, 1, 3, 30))
            rcv = [(1, 2, None)] if rng.random() < 0.5 else []
            L = 4 * len(lens) + sum(lens)
            for cuts in all_cut_sets(L):
                jobs.append({'kind': 'tcp', 'pkts': pk, 'cuts': cuts, 'rcv': rcv, 'drv': drv, 'senders': senders,
                             'sched': rng.randrange(1 << 30), 'wait': rng.choice((-1, 0.05)),
                             'tx_early': rng.random() < 0.5})
    return jobs


EXH = {'quick': (10, 8, 8, 8), 'thorough': (14, 10, 11, 11)}
LENGTHS = list(range(0, 41)) + [62, 63, 64, 98, 99, 100, 126, 127, 128, 250, 251, 252, 253, 254, 255, 256, 257, 258,
                                509, 510, 511, 512, 1020, 1021, 1022]


def rand_cuts(rng, L):
    p = rng.choice((0.0, 0.02, 0.1, 0.3, 0.6, 1.0)) if L < 400 else rng.choice((0.0, 0.005, 0.02, 0.1))
    return [i for i in range(1, L) if rng.random() < p]


def rand_gaps(rng, pk):
    """peer pauses after some packets (at packet boundaries of the stream): shorter and longer than
    the polling timeouts of the receivers (0.1 s in the drivers' receive threads, 0.2/0.3 s here)"""
    gaps, pos = {}, 0
    for p in pk:
        pos += 4 + len(p[5])
        if rng.random() < 0.4:
            gaps[pos] = rng.choice((0.05, 0.15, 0.25, 0.35, 1.2))
    # the peer (or the network) also stalls in the MIDDLE of a frame, for longer than any timeout a
    # transport may plausibly have put on its socket: once 2.5 s, once 10 s per stream at most
    pos = 0
    long_ones = [2.5, 10.0]
    rng.shuffle(long_ones)
    for p in pk:
        n = 4 + len(p[5])
        if long_ones and rng.random() < 0.35:
            gaps[pos + rng.randint(1, n - 1)] = long_ones.pop()
        elif rng.random() < 0.15:
            gaps[pos + rng.randint(1, n - 1)] = rng.choice((0.05, 0.3))
        pos += n
    return gaps


def fixed_jobs(rng):
    """Two histories that are always part of the run: (a) a function that has packets pending while
    its user alternates receivePacket and makeTransaction; (b) frames whose second part arrives
    2.5 s / 10 s after the first."""
    f = rng.choice([1, 2, 4, 5, 14, 15])
    pk = [rand_packet(rng, n, [f]) for n in (1, 0, 3, 2, 1, 4, 2, 1)]
    jobs = [{'kind': 'router', 'pkts': pk, 'cuts': [], 'rcv': [(1, f, 0.2, 0.3, 0.5)], 'sched': 5 + k,
             'policy': 'router_first', 'long': True} for k in range(3)]
    pk = [rand_packet(rng, 5, [f]) for _ in range(4)]
    jobs.append({'kind': 'router', 'pkts': pk, 'cuts': [], 'rcv': [(1, f, None)], 'sched': 3, 'policy': 'random',
                 'gaps': {12: 2.5, 19: 10.0, 30: 0.3}, 'long': True})
    pk = [rand_packet(rng, 5, [FN_CRTP]) for _ in range(4)]
    jobs.append({'kind': 'tcp', 'pkts': pk, 'cuts': [], 'rcv': [], 'drv': 'tcp', 'senders': [], 'sched': 3,
                 'wait': -1, 'tx_early': False, 'gaps': {10: 10.0, 22: 2.5}, 'long': True})
    return jobs


def jobs_random(tier, rng):
    """long streams, random cut sets"""
    n = 60 if tier == 'quick' else 1500
    maxpk = 12 if tier == 'quick' else 25
    jobs = []
    for k in range(n):
        lens = [rng.choice(LENGTHS) if rng.random() < 0.5 else rng.randrange(0, 12) for _ in range(rng.randint(1, maxpk))]
        pk = _pkts_for(rng, lens, bad=(rng.random() < 0.3))
        L = 4 * len(lens) + sum(lens)
        jobs.append({'kind': 'tfull', 'pkts': pk, 'cuts': rand_cuts(rng, L), 'long': True})
        jobs.append({'kind': 'loop', 'src': 'code', 'pkts': [p for p in pk], 'cuts': rand_cuts(rng, L), 'long': True})
    for k in range(n):
        lens = [rng.choice(LENGTHS) if rng.random() < 0.3 else rng.randrange(0, 12) for _ in range(rng.randint(1, maxpk))]
        fns = rng.sample(FUNCTIONS, rng.randint(1, 4))
        pk = _pkts_for(rng, lens, fns=fns, bad=(rng.random() < 0.3))
        L = 4 * len(lens) + sum(lens)
        rcv = []
        for r in range(1, rng.randint(1, 5) + 1):
            tmo = rng.choice((None, None, 0.2))
            # some polling receivers do something else for a while between two polls
            ent = (r, rng.choice(fns), tmo) + ((rng.choice((0.1, 0.3)),) if tmo and rng.random() < 0.5 else ())
            if rng.random() < 0.3:      # a transaction-style user of its function
                ent = ent[:3] + (ent[3] if len(ent) > 3 else 0.0, rng.choice((0.3, 0.6)))
            rcv.append(ent)
        jobs.append({'kind': 'router', 'pkts': pk, 'cuts': rand_cuts(rng, L), 'rcv': rcv, 'long': True,
                     'sched': rng.randrange(1 << 30), 'policy': ('random', 'router_first', 'router_last')[k % 3],
                     'gaps': rand_gaps(rng, pk) if k % 2 else {}})
    for fns in ([2, 5], [1, 14]):
        pk = _pkts_for(rng, [1, 0, 3, 2, 1, 4], fns=fns)
        pos, gaps = 0, {}
        for p_ in pk:
            pos += 4 + len(p_[5])
            gaps[pos] = 0.35
        jobs.append({'kind': 'router', 'pkts': pk, 'cuts': [], 'rcv': [(1, fns[0], 0.2, 0.4), (2, fns[1], 0.3, 0.25)],
                     'gaps': gaps, 'sched': 7, 'policy': 'router_first', 'long': True})
    for k in range(n):
        pk = []
        for _ in range(rng.randint(1, maxpk)):
            f = FN_CRTP if rng.random() < 0.75 else rng.choice([1, 2, 5])
            m = rng.randrange(0, 32) if f == FN_CRTP else rng.choice(LENGTHS)
            pk.append(rand_packet(rng, m, [f]))
        if rng.random() < 0.3:
            pk[rng.randrange(len(pk))][4] = rng.randint(1, 3)
        L = sum(4 + len(p[5]) for p in pk)
        senders = gen_senders(rng, rng.choice((0, 1, 2, 2, 3, 4)), 6)
        jobs.append({'kind': 'tcp', 'pkts': pk, 'cuts': rand_cuts(rng, L), 'rcv': [(1, 2, None)] if k % 2 else [],
                     'drv': 'tcp' if k % 3 else 'serial', 'senders': senders, 'sched': rng.randrange(1 << 30),
                     'wait': rng.choice((-1, 0.05)), 'tx_early': rng.random() < 0.5, 'long': True,
                     'policy': ('random', 'router_first', 'router_last')[k % 3],
                     'gaps': rand_gaps(rng, pk) if k % 2 == 0 else {}})
    jobs += fixed_jobs(rng)
    # the link used by several threads at once (downlink idle or a few packets): many schedules
    for k in range(2 * n if tier == 'quick' else n):
        pk = [rand_packet(rng, rng.randrange(1, 8), [FN_CRTP]) for _ in range(rng.randrange(3))]
        L = sum(4 + len(p[5]) for p in pk)
        jobs.append({'kind': 'tcp', 'pkts': pk, 'cuts': rand_cuts(rng, L), 'rcv': [],
                     'drv': 'tcp' if k % 4 else 'serial', 'senders': gen_senders(rng, rng.choice((1, 2, 2, 3)), 5),
                     'sched': rng.randrange(1 << 30), 'wait': -1, 'tx_early': k % 2 == 0, 'long': True,
                     'policy': ('random', 'random', 'router_last')[k % 3]})
    # the largest payload the 16-bit length prefix can carry, and its neighbour
    for n in ([65533] if tier == 'quick' else [65532, 65533]):
        pk = [rand_packet(rng, 2, [1]), rand_packet(rng, n, [FN_CRTP + 2]), rand_packet(rng, 0, [15])]
        L = sum(4 + len(p[5]) for p in pk)
        jobs.append({'kind': 'tcompact', 'pkts': pk,
                     'cuts': [[], [1, 2, 3, 5, 7, 8, 9, 11], list(range(1000, L, 1000)), [L - 5, L - 3, L - 1],
                              sorted(rng.sample(range(1, L), 40))]})
        jobs.append({'kind': 'tfull', 'pkts': pk, 'cuts': [1, 7, 9, 40000, L - 5]})
        jobs.append({'kind': 'loop', 'src': 'code', 'pkts': pk, 'cuts': [3, 9, 30000]})
    return jobs


def mutant_battery(tier, rng):
    """Scenarios the mutants are run against: several packets per stream, all kinds of payload
    lengths (0, header-only CRTP, long), cut and uncut, queues that fill up before they drain."""
    n = 16 if tier == 'quick' else 80
    combos = header_combos()
    bat = {'codec': [{'kind': 'codec', 'pkts': [[s_, d, f, l, v, [rng.randrange(256) for _ in range(m)]]
                                                for (s_, d, f, l, v) in combos]} for m in (0, 3)],
           'tfull': [], 'loop': [], 'router': [], 'tcp': []}
    for k in range(n):
        lens = [rng.choice((0, 1, 2, 5, 40, 300)) for _ in range(rng.randint(2, 6))]
        pk = _pkts_for(rng, lens, bad=(k % 2 == 0))
        L = 4 * len(lens) + sum(lens)
        bat['tfull'].append({'kind': 'tfull', 'pkts': pk, 'cuts': rand_cuts(rng, L) if k % 4 else []})
        bat['loop'].append({'kind': 'loop', 'src': 'code', 'pkts': pk, 'cuts': rand_cuts(rng, L)})
        fns = rng.sample(FUNCTIONS, 3)
        pk = _pkts_for(rng, [rng.choice((0, 1, 2, 9)) for _ in range(rng.randint(5, 10))], fns=fns)
        L = sum(4 + len(p[5]) for p in pk)
        bat['router'].append({'kind': 'router', 'pkts': pk, 'cuts': rand_cuts(rng, L),
                              'rcv': [(1, fns[0], None), (2, fns[1], None), (3, fns[1], None)]
                              if k % 4 else [(1, fns[0], 0.2), (2, fns[1], 0.3)],
                              'gaps': rand_gaps(rng, pk) if k % 2 == 0 else {},
                              'sched': rng.randrange(1 << 30), 'policy': ('router_first', 'random')[k % 2]})
        pk = [rand_packet(rng, rng.choice((1, 1, 2, 5, 31)), [FN_CRTP]) for _ in range(rng.randint(3, 8))]
        pk.insert(rng.randrange(len(pk)), rand_packet(rng, 3, [2]))
        L = sum(4 + len(p[5]) for p in pk)
        senders = gen_senders(rng, 1 + k % 3, 4, lens=(0, 1, 30), again_p=0.5)
        bat['tcp'].append({'kind': 'tcp', 'pkts': pk, 'cuts': rand_cuts(rng, L), 'rcv': [(1, 2, None)],
                           'drv': ('tcp', 'serial')[k % 2], 'senders': senders, 'sched': rng.randrange(1 << 30),
                           'wait': -1, 'tx_early': bool(k % 3),
                           'gaps': rand_gaps(rng, pk) if k % 2 == 0 else {}})
    # fixed: the peer pauses after EVERY packet for longer than any polling timeout
    fns = [2, 5]
    pk = _pkts_for(rng, [1, 0, 3, 2, 1, 4], fns=fns)
    pos, gaps = 0, {}
    for p in pk:
        pos += 4 + len(p[5])
        gaps[pos] = 0.35
    bat['router'].append({'kind': 'router', 'pkts': pk, 'cuts': [], 'rcv': [(1, fns[0], 0.2, 0.4), (2, fns[1], 0.3, 0.25)],
                          'gaps': gaps, 'sched': 7, 'policy': 'router_first'})
    for j in fixed_jobs(rng):
        bat[j['kind']].append(j)
    pk = [rand_packet(rng, n, [FN_CRTP]) for n in (1, 2, 5, 1, 31)]
    pos, gaps = 0, {}
    for p in pk:
        pos += 4 + len(p[5])
        gaps[pos] = 0.15
    for drv in ('tcp', 'serial'):
        bat['tcp'].append({'kind': 'tcp', 'pkts': pk, 'cuts': [], 'rcv': [], 'drv': drv, 'sends': [],
                           'sched': 11, 'wait': -1, 'tx_early': False, 'gaps': gaps})
    return bat


# --------------------------------------------------------------------------- spec -> code
def _rfn_items(rfn):
    if isinstance(rfn, dict):
        return sorted(rfn.items())
    return list(enumerate(rfn, start=1))


def job_from_behaviour(beh, seed):
    """A TLC behaviour of Cpx -> a job that makes the same environment choices (packets, order
    of registrations, size of every fragment, CRTP packets sent), plus the spec's final state."""
    last = beh[-1][1]
    if last['phase'] != 'run':
        return None
    mode = last['mode']
    regs, cuts, order, prev = [], [], [], beh[0][1]
    for _label, st in beh[1:]:
        if st['rfn'] != prev['rfn']:
            for (r, f) in _rfn_items(st['rfn']):
                if f != 0 and dict(_rfn_items(prev['rfn']))[r] == 0 and r != 0:
                    regs.append((r, f, None))
        if st['pos'] != prev['pos']:
            cuts.append(st['pos'])
        if prev['tx'] and st['tx'] != prev['tx']:
            # a Write(s): the sender whose pc moved; the calls are replayed in the order of their writes
            order += [sid for (sid, pc) in _rfn_items(st['spc']) if dict(_rfn_items(prev['spc']))[sid] != pc]
        prev = st
    ops = {}
    for (sid, it, fresh) in last['sent']:
        if not fresh:
            op = ['again']
        elif it[0] == 0:
            op = ['crtp', it[1][0], it[1][1], list(it[1][2])]
        else:
            op = ['app', it[1][2], it[1][3], it[1][4], list(it[1][5])]
        ops.setdefault(sid, []).append(op)
    senders = [{'id': sid, 'ops': ops[sid][:order.count(sid)]} for sid in sorted(ops) if order.count(sid)]
    job = {'kind': mode, 'pkts': last['pkts'], 'cuts': cuts, 'limit': last['pos'], 'rcv': regs,
           'sched': seed, 'senders': senders, 'order': order, 'drv': 'tcp', 'wait': -1,
           'tx_early': False}
    need_more = last['rd'] in ('len', 'body') and len(last['buf']) < last['need']
    rf = {f for (_r, f) in _rfn_items(last['rfn']) if f != 0}
    quiescent = (last['pos'] == len(last['stream']) or True) and need_more and not last['inq'] and \
        all(not q for f, q in last['queues'].items() if f in rf)
    return job, last, quiescent


def compare_with_spec(trace, last, quiescent):
    """Project the real execution onto the spec's history variables and compare with the
    behaviour's final state (exact when the behaviour ended quiescent, prefix otherwise)."""
    ev = trace['ev']
    reads = [e['o'] for e in ev if e['e'] == 'pkt']
    crtps = [e['c'] for e in ev if e['e'] == 'crtp']
    tx = []
    for e in ev:
        if e['e'] in ('connect', 'wr'):
            tx += e['b']
    handed, spec_handed = {}, {}
    for e in ev:
        if e['e'] == 'rx':
            handed.setdefault(e['f'], []).append(e['o'])
    for (_r, f, o) in last['deliv']:
        spec_handed.setdefault(f, []).append(o)

    def pre(a, b):
        return len(a) <= len(b) and b[:len(a)] == a
    if trace['fin']['consumed'] != last['pos'] or tx != last['tx']:
        return False
    if quiescent:
        return reads == last['reads'] and crtps == last['crtps'] and handed == spec_handed
    return pre(last['reads'], reads) and pre(last['crtps'], crtps) and \
        all(pre(v, handed.get(f, [])) for f, v in spec_handed.items())


# --------------------------------------------------------------------------- the check
def judge(out, traces, label):
    for i, t in enumerate(traces):
        t['id'] = i + 1
    verdicts, st = common.validate_traces('CpxTrace.tla', 'TRACE_Cpx.cfg', traces, timeout=3000,
                                           nproc=max(2, common.NCPU // 2))
    out.traces += len(traces)
    out.states += st['states']
    out.transitions += st['transitions']
    out.tlc_runs.append({'config': 'TRACE_Cpx (%s)' % label, 'states': st['states'],
                         'transitions': st['transitions'], 'wall_s': round(st['wall_s'], 2),
                         'traces': len(traces)})
    bad, drift = [], []
    for i, t in enumerate(traces):
        clause, at, conf, conf_at = verdicts[t['id']]
        if clause in ('BadInput', 'BadInputStream'):
            raise common.MachineryError('harness produced an input outside the property domain (%s): %s'
                                        % (clause, json.dumps(t)[:400]))
        if clause != 'ok':
            bad.append((i, clause, at))
        elif not conf:
            drift.append((i, conf_at))
    return bad, drift


def signature(job, trace, clause, at=None):
    """clause + witness class: layer, driver, one packet or several, cut or uncut stream; for the
    uplink clauses the downlink stream is irrelevant: one sender thread or several had called by the
    time of the rejection, and (content clause only) whether a packet object had been handed over
    more than once by then"""
    n = len(job.get('pkts', []))
    cuts = job.get('cuts')
    head = '%s/%s%s' % (clause, job['kind'], ':' + job['drv'] if job['kind'] == 'tcp' else '')
    if clause.startswith('TunnelUp'):
        calls = [e for e in trace['ev'][:at] if e['e'] == 'sendb']
        who = 'one-sender' if len({e['s'] for e in calls}) <= 1 else 'concurrent-senders'
        if clause == 'TunnelUpFraming':
            return '%s/%s' % (head, who)
        return '%s/%s/%s' % (head, who, 'resent-object' if any(not e['fresh'] for e in calls) else 'fresh-objects')
    return '%s/%s/%s' % (head, 'one' if n <= 1 else 'many', 'cut' if cuts else 'whole')


def _brief(t, at):
    ev = t['ev']
    lo = max(0, at - 6)
    d = {'mode': t['mode'], 'pkts': [[p[:5], len(p[5])] for p in t['pkts'][:6]], 'event_index': at,
         'events': json.loads(json.dumps(ev[lo:at + 2]))}
    return d


def main(tier, seed, replay=None):
    import time as _time
    out = common.Outcome('C18', tier, seed)
    rng = random.Random(seed)
    phases, t0 = {}, _time.time()

    def lap(name):
        nonlocal t0
        phases[name] = round(_time.time() - t0, 1)
        t0 = _time.time()
    out.extra['phase_wall_s'] = phases
    out.assumptions = [
        'receivers call receivePacket before the peer starts sending; the router drops packets of functions '
        'nobody has asked for yet (DESIGN 3.1(10)); the drop itself is shown by MC_Cpx_bug_late_drop.cfg',
        'CRTP header equality is port+channel (CRTPPacket always sets the two reserved bits)',
        'the wire format the peer speaks is the firmware\'s (dst:3,src:3,last:1 | function:6,version:2; '
        '16-bit little-endian length prefix); streams built by the harness are checked against it by TLC',
        'max payload = 65533 (what the 16-bit prefix can carry); targets 1..4, the 7 CPXFunction values, versions 0..3',
        'a socket write (send/sendall) takes the whole buffer and is atomic on the wire (the property quantifies '
        'over receive chunks only; the scripted socket can do short writes -- wmax -- but no registered scenario '
        'uses them); every write is a scheduling point, so writes of different threads interleave in any order',
        'threads that send through one link own their CRTP ports / CPX functions (the peer attributes packets by '
        'content); application senders do not use CPXFunction.SYSTEM (connect() does) or CRTP (the driver does)',
        'a caller that hands the same CRTPPacket object to send_packet again has sent the packet it built again '
        '(it never writes to the object in between)',
        'the TcpDriver/SerialDriver receive thread is the only receiver of the CRTP function',
        'SerialDriver: pyserial is absent, so its tunnel code (receive thread, send_packet, receive_packet) runs on '
        'the scripted TCP transport; UARTTransport framing is not exercised',
    ]
    if replay:
        rp = json.load(open(replay))['replay']
        _install()
        t = run_job(rp['job'])
        bad, _ = judge(out, [t], 'replay')
        for (i, clause, at) in bad:
            out.violation(signature(rp['job'], t, clause, at), clause, _brief(t, at), {'job': rp['job']})
        return out.finish()

    # 1. design spec: exhaustive checks; every bug configuration must be refuted
    from multiprocessing.pool import ThreadPool
    w = max(2, common.NCPU // 4)
    if tier == 'quick':
        cfgs = ['MC_Cpx_codec.cfg', 'MC_Cpx_quick.cfg', 'MC_Cpx_tcp_quick.cfg', 'MC_Cpx_send_quick.cfg',
                'MC_Cpx_long.cfg', 'MC_Cpx_late.cfg']
    else:
        cfgs = ['MC_Cpx_codec.cfg', 'MC_Cpx_thorough.cfg', 'MC_Cpx_tcp_thorough.cfg', 'MC_Cpx_long.cfg',
                'MC_Cpx_late.cfg', 'MC_Cpx_quick.cfg', 'MC_Cpx_tcp_quick.cfg', 'MC_Cpx_send_quick.cfg',
                'MC_Cpx_send_thorough.cfg']
    bugs = ['single_recv', 'be_len', 'route_by_dst', 'no_version_check', 'swap_targets', 'lifo', 'tx_no_header',
            'late_drop', 'split_write', 'inplace_header', 'recv_timeout', 'trans_new_queue']
    if tier == 'quick':
        cfgs.remove('MC_Cpx_late.cfg')
    with ThreadPool(6) as tp:
        ok_runs = tp.map(lambda c: tlc.check('MC_Cpx.tla', c, workers=w, timeout=3000,
                                             coverage=(tier == 'thorough' and c != 'MC_Cpx_thorough.cfg')), cfgs)
        bug_runs = tp.map(lambda b: tlc.expect_violation('MC_Cpx.tla', 'MC_Cpx_bug_%s.cfg' % b, workers=1,
                                                         timeout=900), bugs)
    for c, r in zip(cfgs, ok_runs):
        out.add_tlc(c, r)
    for b, r in zip(bugs, bug_runs):
        out.sensitivity['spec:' + b] = 'refuted (%s) after %d states' % (r.violated, r.distinct)

    lap('1 tlc design spec')
    # 2. spec -> code: TLC behaviours (packets, registrations, every fragment size, sends) replayed
    nsim = 100 if tier == 'quick' else 1500
    sims = []
    for cfg in ('SIM_Cpx.cfg', 'SIM_Cpx_tcp.cfg'):
        rs, behs = tlc.simulate('MC_Cpx.tla', cfg, num=nsim, depth=250, seed=seed % 100000, timeout=1500, workers=w)
        out.add_tlc('%s (-simulate num=%d)' % (cfg, nsim), rs)
        for k, b in enumerate(behs):
            x = job_from_behaviour(b, (seed + k) % (1 << 30))
            if x is not None:
                sims.append(x)
    sim_jobs = [x[0] for x in sims]
    sim_traces = run_jobs(sim_jobs)
    matched = sum(1 for (job, last, q), t in zip(sims, sim_traces) if compare_with_spec(t, last, q))
    out.conformance['spec_to_code'] = {'behaviours': len(sims), 'matched': matched,
                                       'quiescent_behaviours': sum(1 for x in sims if x[2])}

    lap('2 simulate+replay')
    # 3. code -> spec: exhaustive cut sets of short streams, codec sweep, random long streams
    jobs = jobs_codec(tier, rng) + jobs_exhaustive(tier, rng) + jobs_random(tier, rng)
    traces = run_jobs(jobs)
    lap('3a executions')
    all_jobs = sim_jobs + jobs
    all_traces = sim_traces + traces
    bad, drift = judge(out, all_traces, 'real code')
    out.conformance['code_to_spec'] = {'traces': len(all_traces),
                                       'explained_by_design_spec': len(all_traces) - len(drift) - len(bad)}
    if drift:
        out.conformance['first_drift'] = {'job': {k: v for k, v in all_jobs[drift[0][0]].items() if k != 'pkts'},
                                          'event_index': drift[0][1]}
    for (i, clause, at) in bad:
        out.violation(signature(all_jobs[i], all_traces[i], clause, at), clause, _brief(all_traces[i], at),
                      {'job': all_jobs[i]})
    nruns = sum(len(t['ev']) if t['fin'].get('compact') else 1 for t in all_traces)
    ncodec = sum(len(t['ev']) for t in all_traces if t['mode'] == 'codec')
    out.evaluations = nruns + ncodec
    out.distinct = len({json.dumps([j.get('kind'), j.get('pkts'), j.get('cuts'), j.get('rcv'), j.get('sends'), j.get('senders')])
                        for j in all_jobs})
    out.exhaustive = True
    out.rule = ('execution = (packet sequence, cut set, receivers, sender threads (send_packet calls with fresh and '
                're-used packet objects, CPX.sendPacket calls), schedule seed) on the real code; '
                'exhaustive: every source x destination x function x flag x version per payload length (codec), '
                'every cut set of every stream of <= 3 packets up to %d bytes at transport level (compact), up to %d '
                'bytes with every recv recorded, up to %d bytes through CPXRouter, up to %d bytes through '
                'TcpDriver/SerialDriver; seeded random beyond; evaluations = executions + codec round trips'
                % EXH[tier])
    out.extra['executions'] = nruns
    out.extra['codec_round_trips'] = ncodec
    pick = [i for i, j in enumerate(all_jobs) if j['kind'] in ('router', 'tcp') and j.get('cuts')][:2] + \
           [i for i, j in enumerate(all_jobs) if j['kind'] == 'tfull'][:1]
    out.samples = [{'job': {k: v for k, v in all_jobs[i].items()}, 'events': all_traces[i]['ev'][:40],
                    'fin': all_traces[i]['fin']} for i in pick]

    lap('3b tlc judging')
    # 4. sensitivity: in-memory mutants must be rejected by the monitor; corrupted traces as well
    battery = mutant_battery(tier, rng)
    mjobs, owner = [], []
    for name in sorted(MUTANTS):
        for kind in MUTANTS[name]:
            for j in battery[kind]:
                mjobs.append(dict(j, mutant=name))
                owner.append(name)
    mtraces = run_jobs(mjobs)
    o2 = common.Outcome('C18', tier, seed)
    mbad, _ = judge(o2, mtraces, 'mutants')
    out.tlc_runs.append(o2.tlc_runs[-1])
    rejected = {}
    for (i, clause, at) in mbad:
        rejected.setdefault(owner[i], {}).setdefault(clause, 0)
        rejected[owner[i]][clause] += 1
    for name in sorted(MUTANTS):
        n = owner.count(name)
        r = rejected.get(name, {})
        out.sensitivity['mutant:' + name] = '%d of %d traces rejected %s' % (sum(r.values()), n, dict(sorted(r.items())))
        if not r:
            raise common.MachineryError('monitor did not reject in-memory mutant %s' % name)
    # binding self-tests on recorded traces of the unchanged code
    src = next(t for t in all_traces if t['mode'] == 'router' and any(e['e'] == 'rx' for e in t['ev'])
               and sum(1 for e in t['ev'] if e['e'] == 'recv') >= 3)
    tests = {}
    t1 = copy.deepcopy(src)                       # a hand-out dropped
    del t1['ev'][next(i for i, e in enumerate(t1['ev']) if e['e'] == 'rx')]
    tests['drop-one-rx-event'] = t1
    t2 = copy.deepcopy(src)                       # a payload/flag bit changed in a hand-out
    e = next(e for e in t2['ev'] if e['e'] == 'rx')
    e['o'] = e['o'][:4] + [1 - e['o'][4]] + e['o'][5:]
    tests['flip-last-flag-in-rx'] = t2
    t3 = copy.deepcopy(src)                       # a fragment size changed (conformance only)
    e = next(e for e in t3['ev'] if e['e'] == 'recv')
    e['n'] += 1
    tests['recv-size-changed'] = t3
    t4 = copy.deepcopy(src)                       # stream byte changed: no longer the encoding of pkts
    t4['stream'][2] ^= 0x08
    tests['stream-byte-changed'] = t4
    names = sorted(tests)
    ts = [tests[n] for n in names]
    for i, t in enumerate(ts):
        t['id'] = i + 1
    verdicts, _st = common.validate_traces('CpxTrace.tla', 'TRACE_Cpx.cfg', ts)
    for n, t in zip(names, ts):
        clause, at, conf, conf_at = verdicts[t['id']]
        okay = clause != 'ok' or not conf
        out.sensitivity['binding:' + n] = ('rejected (%s, conf=%s)' % (clause, conf)) if okay else 'ACCEPTED'
        if not okay:
            raise common.MachineryError('trace spec accepted corrupted trace %s' % n)
    lap('4 sensitivity')
    return out.finish()
