"""C19 -- swarm actions run once per Crazyflie with the right arguments and error report.

spec/Swarm.tla (design: one action per scheduler step of the real Swarm under vsched),
spec/SwarmProps.tla (the property), spec/SwarmTrace.tla (monitor + conformance for traces
recorded from the real cflib.crazyflie.swarm.Swarm with instrumented members)."""
import copy
import json
import random
import types

from .. import common, tlc, vsched
from ..vsched import core

MAXN_TRACE = 6          # TRACE_Swarm.cfg: MaxN
KINDS = ['seq', 'par', 'psafe', 'open', 'close']
USER = 'user#0'


# --------------------------------------------------------------------------- policies
class DfsPolicy:
    """Follows a prefix of choice indices (into the runnable threads sorted by name), then
    always takes index 0; records how many alternatives every step had."""

    def __init__(self, prefix):
        self.prefix = list(prefix)
        self.choices = []
        self.branch = []

    def choose(self, sched, runnable, timed):
        if not runnable:
            return core.TICK
        opts = sorted(runnable, key=lambda r: r.name)
        j = len(self.choices)
        i = self.prefix[j] if j < len(self.prefix) else 0
        if i >= len(opts):
            i = 0
        self.choices.append(i)
        self.branch.append(len(opts))
        return opts[i]


def make_policy(pol):
    kind = pol[0]
    if kind == 'dfs':
        return DfsPolicy(pol[1])
    if kind == 'script':
        return vsched.ScriptPolicy(pol[1])
    if kind == 'random':
        return vsched.RandomPolicy(random.Random(pol[1]))
    if kind == 'pct':
        return vsched.PCTPolicy(random.Random(pol[1]), depth=pol[2], est_steps=pol[3])
    raise ValueError(pol)


# --------------------------------------------------------------------------- the real code
class ScriptedError(Exception):
    """Raised by instrumented actions / open_link; verif_id identifies the raise."""

    def __init__(self, vid):
        Exception.__init__(self, 'scripted failure %d' % vid)
        self.verif_id = vid


def _ypoint(kind):
    s = core.CUR
    if s is not None and s.current() is not None:
        s.yield_op(core.Op('harness.' + kind, None, lambda: True, lambda: None))


def _chain_ids(exc):
    """ids of scripted errors in the exception itself and along __cause__/__context__."""
    out, seen, todo = [], set(), [exc]
    while todo:
        e = todo.pop()
        if e is None or id(e) in seen:
            continue
        seen.add(id(e))
        vid = getattr(e, 'verif_id', None)
        if isinstance(vid, int) and vid not in out:
            out.append(vid)
        todo.append(e.__cause__)
        todo.append(e.__context__)
    return sorted(out)


def uri_of(i):
    return 'radio://0/80/2M/E7E7E7E7%02X' % i


def execute(sc, pol, mutant=None):
    """Run scenario sc = {n, ops:[{k, fail, hasargs, argd}]} against the real Swarm under the
    scheduling policy pol.  Returns the trace dict (plus 'schedule', 'branch', 'choices')."""
    from cflib.crazyflie.swarm import Swarm
    import zlib
    n = sc['n']
    ev = []
    st = {'op': 0, 'base': 0}
    members = []
    # How the caller owns its argument dictionary (the property quantifies over "all argument
    # dictionaries"): in half of the scenarios with several argument-taking calls the caller passes
    # the SAME dictionary object to every call, and equal entries are one shared list object -- a
    # library that edits the caller's dictionary or lists in place shows on the next call.
    if 'reuse' not in sc:
        sc['reuse'] = (sum(1 for op in sc['ops'] if op['hasargs']) >= 2 and
                       zlib.crc32(repr([(op['k'], sorted(op['fail'])) for op in sc['ops']]).encode()) % 2 == 0)
    if sc['reuse']:
        first = next(op for op in sc['ops'] if op['hasargs'])
        for op in sc['ops']:
            if op['hasargs']:
                op['argd'] = first['argd']
    shared_ad = {}

    def idx_of(obj):
        for m in members:
            if m is obj:
                return m.idx
        return 0

    class Member:
        def __init__(self, idx):
            self.idx = idx

        def open_link(self):
            o = st['op']
            ev.append({'e': 'open', 'o': o, 'm': self.idx, 'a': [], 'r': '', 'x': 0})
            _ypoint('open')
            if self.idx in sc['ops'][o - 1]['fail'] and sc['ops'][o - 1]['k'] == 'open':
                x = o * 10 + self.idx
                ev.append({'e': 'opened', 'o': o, 'm': self.idx, 'a': [], 'r': 'raise', 'x': x})
                raise ScriptedError(x)
            ev.append({'e': 'opened', 'o': o, 'm': self.idx, 'a': [], 'r': 'ok', 'x': 0})

        def close_link(self):
            ev.append({'e': 'close', 'o': st['op'], 'm': self.idx, 'a': [], 'r': '', 'x': 0})
            _ypoint('close')

    class Factory:
        def construct(self, uri):
            m = Member(len(members) + 1)
            members.append(m)
            return m

    def make_action(o, fail):
        def action(scf, *args):
            m = idx_of(scf)
            ev.append({'e': 'call', 'o': o, 'm': m, 'r': '', 'x': 0,
                       'a': [a if isinstance(a, int) and not isinstance(a, bool) else 9999 for a in args]})
            _ypoint('action')
            if m in fail:
                x = o * 10 + m
                ev.append({'e': 'end', 'o': o, 'm': m, 'a': [], 'r': 'raise', 'x': x})
                raise ScriptedError(x)
            ev.append({'e': 'end', 'o': o, 'm': m, 'a': [], 'r': 'ok', 'x': 0})
        return action

    policy = make_policy(pol)
    with vsched.scheduler(policy) as s:
        swarm = Swarm([uri_of(i) for i in range(1, n + 1)], factory=Factory())
        if mutant:
            mutant(swarm)

        def user():
            for o, op in enumerate(sc['ops'], 1):
                if o > 1:
                    _ypoint('boundary')
                st['op'] = o
                st['base'] = len(s.threads)
                ev.append({'e': 'op', 'o': o})
                k = op['k']
                ad = None
                if op['hasargs'] and sc['reuse']:
                    if not shared_ad:
                        # the caller's dictionary need not list the URIs in the swarm's order ("for
                        # all argument dictionaries"): extra key first, members in reverse
                        lists = {}
                        shared_ad['radio://0/1/2M/EXTRA'] = [4242]
                        for i in range(n, 0, -1):
                            shared_ad[uri_of(i)] = lists.setdefault(tuple(op['argd'][i - 1]), list(op['argd'][i - 1]))
                    ad = shared_ad
                elif op['hasargs']:
                    if o % 2:
                        # key order differs from the swarm's URI order (rotated, extra key first)
                        ad = {'radio://0/1/2M/EXTRA': [4242]}
                        for i in list(range(2, n + 1)) + [1][:n]:
                            ad[uri_of(i)] = list(op['argd'][i - 1])
                    else:
                        ad = {uri_of(i): list(op['argd'][i - 1]) for i in range(1, n + 1)}
                        ad['radio://0/1/2M/EXTRA'] = [4242]
                try:
                    if k == 'seq':
                        swarm.sequential(make_action(o, op['fail']), ad)
                    elif k == 'par':
                        swarm.parallel(make_action(o, op['fail']), ad)
                    elif k == 'psafe':
                        swarm.parallel_safe(make_action(o, op['fail']), ad)
                    elif k == 'open':
                        swarm.open_links()
                    elif k == 'close':
                        swarm.close_links()
                    ev.append({'e': 'ret', 'o': o, 'r': 'ok', 'chain': []})
                except Exception as e:
                    ev.append({'e': 'ret', 'o': o, 'r': 'raise', 'chain': _chain_ids(e)})

        def member_of(rec):
            for a in getattr(rec.vt, '_args', ()) or ():
                if isinstance(a, Member):
                    return a.idx
            return None

        def project():
            started, fin, reporter = [], [], None
            for r in s.threads[st['base']:]:
                if r is urec:
                    continue
                m = member_of(r)
                if m is None or not r.started:
                    continue
                started.append(m)
                if r.finished:
                    fin.append(m)
                a = r.vt._args
                if len(a) > 1 and hasattr(a[1], '__dict__'):
                    reporter = a[1]
            flag, errs = False, []
            if reporter is not None:
                flag = bool(reporter.__dict__.get('error_reported', False))
                errs = [getattr(e, 'verif_id', 0) for e in reporter.__dict__.get('_errors', [])]
            return {'isOpen': bool(swarm._is_open), 'flag': flag, 'errs': errs,
                    'started': sorted(started), 'fin': sorted(fin), 'userdone': bool(urec.finished)}

        def on_step(sched, rec):
            if rec is core.TICK:
                return
            if rec is urec:
                t = 0
            else:
                t = member_of(rec) or 99
            ev.append({'e': 'step', 't': t, 'proj': project()})

        urec = None
        s.on_step = on_step
        urec = s.spawn(user, 'user')
        res = s.run(until=lambda: all(r.finished for r in s.threads), horizon=100.0)
        quiet = res == 'until' and not any(r.dead for r in s.threads)
        schedule = list(s.trace)
    tr = {'n': n, 'reuse': bool(sc['reuse']),
          'ops': [{'k': op['k'], 'fail': sorted(op['fail']), 'hasargs': bool(op['hasargs']),
                           'argd': [list(x) for x in op['argd']]} for op in sc['ops']],
          'ev': ev, 'quiet': quiet, 'schedule': schedule}
    if isinstance(policy, DfsPolicy):
        tr['branch'] = policy.branch
        tr['choices'] = policy.choices
    return tr


def dfs(sc, root=(), mutant=None, limit=None):
    """Every interleaving of the scheduler choices below the prefix `root` (stateless DFS)."""
    out, stack = [], [list(root)]
    while stack:
        p = stack.pop()
        tr = execute(sc, ('dfs', p), mutant)
        br, ch = tr.pop('branch'), tr.pop('choices')
        out.append(tr)
        if limit and len(out) >= limit:
            break
        for j in range(len(p), len(br)):
            for alt in range(1, br[j]):
                stack.append(ch[:j] + [alt])
    return out


# --------------------------------------------------------------------------- in-memory mutants
def _mut(name):
    """Returns install(swarm): instance-level replacement of one Swarm method with a realistic
    breakage of C19 (the class and /repo stay untouched)."""
    from cflib.crazyflie import swarm as sm
    Thread = sm.Thread

    def bind(sw, attr, fn):
        setattr(sw, attr, types.MethodType(fn, sw))

    def psafe_variant(variant):
        def parallel_safe(self, func, args_dict=None):
            threads = []
            reporter = self.Reporter()
            for uri, scf in self._cfs.items():
                args = [func, reporter] + self._process_args_dict(scf, uri, args_dict)
                if variant == 'late_binding':
                    thread = Thread(target=lambda: self._thread_function_wrapper(*args))
                else:
                    thread = Thread(target=self._thread_function_wrapper, args=args)
                threads.append(thread)
                thread.start()
            early = reporter.is_error_reported() if variant == 'inspect_early' else None
            if variant == 'no_join':
                pass
            elif variant == 'join_all_but_last':
                for thread in threads[:-1]:
                    thread.join()
            else:
                for thread in threads:
                    thread.join()
            failed = early if variant == 'inspect_early' else reporter.is_error_reported()
            if failed:
                first_error = reporter.errors[0]
                if variant == 'no_chain':
                    raise Exception('One or more threads raised an exception')
                raise Exception('One or more threads raised an exception when '
                                'executing parallel task') from first_error
        return parallel_safe

    def install(sw):
        if name in ('no_join', 'join_all_but_last', 'late_binding', 'inspect_early', 'no_chain'):
            bind(sw, 'parallel_safe', psafe_variant(name))
        elif name == 'swallow':
            def wrapper(self, *args):
                try:
                    args[0](*args[2:])
                except Exception:
                    pass
            bind(sw, '_thread_function_wrapper', wrapper)
        elif name == 'open_no_close':
            def open_links(self):
                if self._is_open:
                    raise Exception('Already opened')
                self.parallel_safe(lambda scf: scf.open_link())
                self._is_open = True
            bind(sw, 'open_links', open_links)
        elif name == 'reopen':
            def open_links(self):
                try:
                    self.parallel_safe(lambda scf: scf.open_link())
                    self._is_open = True
                except Exception as e:
                    self.close_links()
                    raise e
            bind(sw, 'open_links', open_links)
        elif name == 'seq_reversed':
            def sequential(self, func, args_dict=None):
                for uri, cf in reversed(list(self._cfs.items())):
                    func(*self._process_args_dict(cf, uri, args_dict))
            bind(sw, 'sequential', sequential)
        elif name == 'seq_by_args_order':
            def sequential(self, func, args_dict=None):
                for uri in (u for u in (args_dict or self._cfs) if u in self._cfs):
                    func(*self._process_args_dict(self._cfs[uri], uri, args_dict))
            bind(sw, 'sequential', sequential)
        elif name == 'par_raises':
            def parallel(self, func, args_dict=None):
                self.parallel_safe(func, args_dict)
            bind(sw, 'parallel', parallel)
        elif name == 'first_entry_for_all':
            def process(self, scf, uri, args_dict):
                args = [scf]
                if args_dict:
                    args += next(iter(args_dict.values()))
                return args
            bind(sw, '_process_args_dict', process)
        elif name == 'args_edited_in_place':
            def process(self, scf, uri, args_dict):
                if not args_dict:
                    return [scf]
                args = args_dict[uri]
                args.insert(0, scf)          # edits the caller's list
                return args
            bind(sw, '_process_args_dict', process)
        elif name == 'shared_reporter':
            shared = sw.Reporter()

            class R:
                def __call__(self):
                    return shared
            sw.Reporter = R()
        else:
            raise ValueError(name)
    return install


MUTANTS = ['no_join', 'join_all_but_last', 'late_binding', 'inspect_early', 'no_chain', 'swallow',
           'open_no_close', 'reopen', 'seq_reversed', 'par_raises', 'first_entry_for_all',
           'shared_reporter', 'args_edited_in_place', 'seq_by_args_order']


# --------------------------------------------------------------------------- scenarios
def argd_for(n, rng=None):
    if rng is None:
        return [[10 * m + p for p in range(1, (m % 3) + 1)] for m in range(1, n + 1)]
    if rng.random() < 0.2:
        same = [rng.randrange(1, 1000)]
        return [list(same) for _ in range(n)]
    return [[rng.randrange(1, 1000) for _ in range(rng.randrange(0, 4))] for _ in range(n)]


def subsets(n):
    for mask in range(1 << n):
        yield [i + 1 for i in range(n) if mask >> i & 1]


def single_op_scenarios(n):
    out = []
    for k in KINDS:
        for f in (subsets(n) if k != 'close' else [[]]):
            for ha in ((False, True) if k in ('seq', 'par', 'psafe') else (False,)):
                out.append({'n': n, 'ops': [{'k': k, 'fail': f, 'hasargs': ha, 'argd': argd_for(n)}]})
    return out


def op(k, n, fail=(), hasargs=False):
    return {'k': k, 'fail': list(fail), 'hasargs': hasargs, 'argd': argd_for(n)}


def sequence_scenarios(n, full=True):
    """Call sequences that exercise the open/close state and the per-call reporter."""
    out = []
    for f in subsets(n):
        if not full and len(f) > 1:
            continue
        out.append({'n': n, 'ops': [op('open', n, f), op('open', n)]})
        out.append({'n': n, 'ops': [op('psafe', n, f, True), op('psafe', n)]})
    out.append({'n': n, 'ops': [op('open', n), op('close', n), op('open', n)]})
    # the caller hands the same argument dictionary (and shared entry lists) to consecutive calls
    for k1, k2 in (('seq', 'seq'), ('par', 'psafe'), ('psafe', 'seq'), ('seq', 'par')):
        out.append({'n': n, 'reuse': True, 'ops': [op(k1, n, (), True), op(k2, n, (), True)]})
    if full or n < 2:
        out.append({'n': n, 'ops': [op('open', n), op('par', n, range(1, n + 1)), op('open', n, [1] if n else [])]})
    return out


def n3_scenarios():
    """3 members: exhaustive for at most one failing member, sampled schedules for the rest."""
    ex, sampled = [], []
    for k in KINDS:
        for f in (subsets(3) if k != 'close' else [[]]):
            sc = {'n': 3, 'ops': [op(k, 3, f, k in ('seq', 'par', 'psafe'))]}
            (ex if len(f) <= 1 or k == 'seq' else sampled).append(sc)
    return ex, sampled


def mutant_scenarios():
    out = []
    for k in KINDS:
        for f in (subsets(2) if k != 'close' else [[]]):
            out.append({'n': 2, 'ops': [op(k, 2, f, k in ('seq', 'par', 'psafe'))]})
    out.append({'n': 1, 'ops': [op('open', 1), op('open', 1)]})
    out.append({'n': 1, 'ops': [op('psafe', 1, [1], True), op('psafe', 1)]})
    out.append({'n': 1, 'ops': [op('open', 1, [1]), op('open', 1)]})
    # the same histories with two members (a tree may treat the one-member swarm specially)
    out.append({'n': 2, 'ops': [op('open', 2), op('open', 2)]})
    out.append({'n': 2, 'ops': [op('psafe', 2, [1], True), op('psafe', 2)]})
    out.append({'n': 2, 'ops': [op('open', 2, [2]), op('open', 2)]})
    out.append({'n': 2, 'reuse': True, 'ops': [op('seq', 2, (), True), op('psafe', 2, (), True)]})
    return out


def random_scenario(rng):
    n = rng.choice([0, 1, 2, 3, 3, 4, 4, 5, 6])
    ops = []
    for _ in range(rng.randrange(1, 5)):
        k = rng.choice(KINDS)
        fail = [] if k == 'close' else [m for m in range(1, n + 1) if rng.random() < rng.choice([0.0, 0.3, 0.6, 1.0])]
        ops.append({'k': k, 'fail': fail, 'hasargs': k in ('seq', 'par', 'psafe') and rng.random() < 0.6,
                    'argd': argd_for(n, rng)})
    return {'n': n, 'ops': ops}


def scenario_from_behaviour(beh):
    """A TLC behaviour of Swarm.tla -> (scenario, scheduler script, expected post-states)."""
    n = beh[0][1]['n']
    ops, script, names, started = [], [], {}, 0
    for label, stt in beh[1:]:
        name, args = tlc.parse_label(label)
        if name == 'BeginOp':
            k, f, am, ad = args
            ops.append({'k': k, 'fail': sorted(f), 'hasargs': bool(am), 'argd': [list(x) for x in ad][:n]})
            names = {}
            script.append(USER)
        elif name == 'Start':
            names[args[0]] = 'Thread:_thread_function_wrapper#%d' % started
            started += 1
            script.append(USER)
        elif name in ('MBegin', 'MActEnd', 'MRepFlag', 'MRepAppend'):
            script.append(names[args[0]])
        else:
            script.append(USER)
    return {'n': n, 'ops': ops}, script, [stt for _l, stt in beh[1:]]


def conforms_to_states(tr, states):
    """spec -> code comparison: after scripted step k the projection of the real objects and the
    event history of the current call equal the spec's post-state k."""
    hist = {}
    k = 0
    for e in tr['ev']:
        if e['e'] in ('call', 'end', 'open', 'opened', 'close'):
            hist.setdefault(e['o'], []).append({'t': e['e'], 'm': e['m'], 'a': e['a'], 'r': e['r'], 'x': e['x']})
        elif e['e'] == 'step':
            if k >= len(states):
                break
            stt, pr = states[k], e['proj']
            mpc = stt['mpc']
            mp = mpc if isinstance(mpc, dict) else {i + 1: v for i, v in enumerate(mpc)}
            want = {'isOpen': stt['isOpen'], 'flag': stt['rep']['flag'], 'errs': list(stt['rep']['errs']),
                    'started': sorted(i for i, v in mp.items() if v != 'none'),
                    'fin': sorted(i for i, v in mp.items() if v == 'done'),
                    'userdone': stt['upc'] == 'finished'}
            if want != pr:
                return False, k
            h = [{'t': x['t'], 'm': x['m'], 'a': list(x['a']), 'r': x['r'], 'x': x['x']} for x in stt['cur']['h']]
            if h != hist.get(stt['opn'], []):
                return False, k
            k += 1
    return k == len(states), k


# --------------------------------------------------------------------------- workers
def _init():
    vsched.load_cflib()
    from cflib.crazyflie.swarm import Swarm
    for a in ('error_reported', '_errors'):
        if not isinstance(Swarm.Reporter.__dict__.get(a), vsched.shared_attr):
            setattr(Swarm.Reporter, a, vsched.shared_attr(a))


def _job(job):
    kind, sc, arg, mutant = job[:4]
    mut = _mut(mutant) if mutant else None
    if kind == 'dfs':
        return dfs(sc, root=arg, mutant=mut, limit=job[4] if len(job) > 4 else None)
    tr = execute(sc, arg, mut)
    tr.pop('branch', None)
    tr.pop('choices', None)
    return [tr]


def run_jobs(jobs):
    res = common.pmap(_job, jobs, init=_init, chunksize=1, maxtasks=200)
    scs, traces = [], []
    for job, trs in zip(jobs, res):
        for t in trs:
            if job[3]:
                t['mutant'] = job[3]
            scs.append(job[1])
            traces.append(t)
    return scs, traces


def dfs_jobs(scs, mutant=None, split=0, limit=None):
    """One DFS job per scenario; scenarios with n >= split (if split) are cut into one job per
    schedule prefix of the first steps so that the big ones spread over the cores."""
    jobs = []
    for sc in scs:
        if split and sc['n'] >= split:
            jobs.extend(('dfs', sc, p, mutant) for p in _prefixes(sc, 9))
        else:
            jobs.append(('dfs', sc, [], mutant, limit))
    return jobs


def _prefixes(sc, depth):
    """All choice prefixes of exactly `depth` steps (or complete shorter runs)."""
    out, stack = [], [[]]
    while stack:
        p = stack.pop()
        tr = execute(sc, ('dfs', p))
        br, ch = tr['branch'], tr['choices']
        if len(br) <= depth:
            out.append(ch)          # a complete run: its own job (explores nothing further)
        else:
            out.append(ch[:depth])
        for j in range(len(p), min(depth, len(br))):
            for alt in range(1, br[j]):
                stack.append(ch[:j] + [alt])
    uniq = []
    for p in out:
        if p not in uniq:
            uniq.append(p)
    return uniq


# --------------------------------------------------------------------------- the check
def judge(out, traces, label, count=True):
    for i, t in enumerate(traces):
        t['id'] = i + 1
    slim = [{k: v for k, v in t.items() if k not in ('schedule', 'mutant')} for t in traces]
    chunk = min(4000, max(1000, (len(slim) + common.NCPU - 1) // common.NCPU))
    verdicts, st = common.validate_traces('SwarmTrace.tla', 'TRACE_Swarm.cfg', slim, chunk=chunk)
    if count:
        out.traces += len(traces)
    out.states += st['states']
    out.transitions += st['transitions']
    out.tlc_runs.append({'config': 'TRACE_Swarm (%s)' % label, 'states': st['states'],
                         'transitions': st['transitions'], 'wall_s': round(st['wall_s'], 2),
                         'traces': len(traces)})
    bad, drift = [], []
    for t in traces:
        clause, at, conf, conf_at = verdicts[t['id']]
        if clause != 'ok':
            bad.append((t, clause, at))
        elif not conf:
            drift.append((t, conf_at))
    return bad, drift


def signature(trace, clause, at):
    """Violated clause + kind of the call it concerns + whether scripted failures were involved."""
    o = None
    evs = trace['ev']
    if 1 <= at <= len(evs):
        o = evs[at - 1].get('o')
    if o is None:       # end-of-trace clause: first call that did not return / first call
        ret = {e['o'] for e in evs if e['e'] == 'ret'}
        missing = [i for i in range(1, len(trace['ops']) + 1) if i not in ret]
        o = missing[0] if missing else None
    if o is None or not (1 <= o <= len(trace['ops'])):
        return '%s/?' % clause
    q = trace['ops'][o - 1]
    return '%s/%s/%s' % (clause, q['k'], 'failing' if q['fail'] else 'nofail')


def report(out, bad, scs_by_id):
    for (t, clause, at) in bad:
        sc = {'n': t['n'], 'ops': t['ops']}
        out.violation(signature(t, clause, at), clause,
                      {'event_index': at, 'n': t['n'], 'ops': t['ops'],
                       'events': [e for e in t['ev'] if e['e'] != 'step']},
                      {'scenario': sc, 'schedule': t['schedule']})


def main(tier, seed, replay=None):
    out = common.Outcome('C19', tier, seed)
    rng = random.Random(seed)
    out.assumptions = [
        'members are instrumented stand-ins produced by the factory (as in the repository tests); their open_link/'
        'close_link/actions terminate, close_link does not raise; actions raise Exception subclasses only',
        'one caller thread; the interleavings explored are those of the caller and the per-member threads',
        'sequential(): the text fixes no error handling; demanded: one at a time, URI order, nobody skipped, '
        'the run may stop after an action that raised',
        '"chaining one of the raised errors" = the raised exception is, or reaches through __cause__/__context__, '
        'an error raised by an action of this call',
        '"returns only after every action has finished" is demanded of parallel_safe; parallel owes exactly one '
        'call per member by the end of the execution and must not raise',
        '"cannot be opened twice" = open_links on an open swarm raises and enters no open_link; open = last '
        'non-refused open_links returned normally and no close_links since',
        '"closed again" = close_link(m) after m\'s open_link attempt is over and before open_links raises',
        'argument dictionaries have an entry for every URI (an empty dict is the same as none for the code and is not used)',
    ]
    if replay:
        rp = json.load(open(replay))['replay']
        _init()
        t = execute(rp['scenario'], ('script', rp['schedule']))
        bad, _ = judge(out, [t], 'replay')
        report(out, bad, None)
        return out.finish()

    # 1. design spec: exhaustive; every bug switch must be refuted
    if tier == 'quick':
        cfgs = ['MC_Swarm_quick.cfg']
    else:
        cfgs = ['MC_Swarm_thorough.cfg', 'MC_Swarm_thorough4.cfg']
    for cfg in cfgs:
        r = tlc.check('MC_Swarm.tla', cfg, coverage=(cfg == 'MC_Swarm_thorough.cfg'), timeout=3000)
        out.add_tlc(cfg, r)
    for b in ['NoJoin', 'SharedArgs', 'OpenNoClose', 'ParRaises', 'Reopen', 'Swallow', 'SeqSkip']:
        rb = tlc.expect_violation('MC_Swarm.tla', 'MC_Swarm_bug_%s.cfg' % b, timeout=600)
        out.sensitivity['spec:' + b] = 'refuted (%s) after %d states' % (rb.violated, rb.distinct)

    _init()
    # 2. spec -> code: TLC behaviours scripted into the real Swarm, post-states compared
    rg, g = tlc.dump_graph('MC_Swarm.tla', 'MC_Swarm_tour.cfg', timeout=900)
    out.add_tlc('MC_Swarm_tour.cfg (-dump)', rg)
    paths, cov, tot = tlc.tour(g, max_len=60)
    behs = [[('init', g.states[i])] + [(lab, g.states[d]) for lab, d in p] for i, p in paths]
    nsim = 300 if tier == 'quick' else 3000
    rs, sims = tlc.simulate('MC_Swarm.tla', 'SIM_Swarm.cfg', num=nsim, depth=120, seed=seed % 100000, timeout=900)
    out.add_tlc('SIM_Swarm.cfg (-simulate num=%d)' % nsim, rs)
    behs += [b for b in sims if len(b) > 1]
    plans = [scenario_from_behaviour(b) for b in behs]
    s_scs, s_traces = run_jobs([('run', sc, ('script', script), None) for sc, script, _ in plans])
    matched = 0
    first_mismatch = None
    for (sc, script, states), t in zip(plans, s_traces):
        ok, k = conforms_to_states(t, states)
        if ok:
            matched += 1
        elif first_mismatch is None:
            first_mismatch = {'scenario': sc, 'script': script, 'step': k}
    out.conformance['spec_to_code'] = {'behaviours': len(plans), 'matched': matched,
                                       'tour_edges_covered': cov, 'tour_edges_total': tot,
                                       'tour_paths': len(paths), 'simulated': len(behs) - len(paths)}
    if first_mismatch:
        out.conformance['spec_to_code']['first_mismatch'] = first_mismatch

    # 3. code -> spec: every interleaving for small swarms, seeded random schedules beyond
    ex_scs = []
    for n in range(0, 3):
        ex_scs += single_op_scenarios(n)
    for n in range(0, 3):
        ex_scs += sequence_scenarios(n, full=(tier != 'quick'))
    nrand = 1500 if tier == 'quick' else 30000
    rjobs = []
    if tier != 'quick':
        ex3, sampled3 = n3_scenarios()
        ex_scs += ex3
        for sc in sampled3:
            for i in range(400):
                sd = rng.randrange(1 << 30)
                rjobs.append(('run', sc, ('random', sd) if i % 2 else ('pct', sd, 1 + i % 4, 40), None))
    d_scs, d_traces = run_jobs(dfs_jobs(ex_scs, split=2))
    for i in range(nrand):
        sc = random_scenario(rng)
        sd = rng.randrange(1 << 30)
        pol = ('random', sd) if i % 2 == 0 else ('pct', sd, rng.randrange(1, 5), 20 + 12 * sc['n'] * len(sc['ops']))
        rjobs.append(('run', sc, pol, None))
    r_scs, r_traces = run_jobs(rjobs)
    all_traces = s_traces + d_traces + r_traces
    bad, drift = [], []
    for i in range(0, len(all_traces), 60000):
        b, d = judge(out, all_traces[i:i + 60000], 'real code %d' % (i // 60000))
        bad += b
        drift += d
    out.conformance['code_to_spec'] = {'traces': len(all_traces),
                                       'explained_by_design_spec': len(all_traces) - len(drift) - len(bad)}
    if drift:
        t, at = drift[0]
        out.conformance['code_to_spec']['first_drift'] = {'n': t['n'], 'ops': t['ops'], 'at': at,
                                                          'schedule': t['schedule']}
    report(out, bad, None)
    out.evaluations = len(all_traces)
    out.distinct = len({json.dumps([t['n'], t['ops'], t['schedule']]) for t in all_traces})
    out.exhaustive = True
    out.extra['interleavings'] = {'exhaustive_scenarios': len(ex_scs), 'exhaustive_executions': len(d_traces),
                                  'random_executions': len(r_traces)}
    out.rule = ('execution = (swarm size, call sequence with failing subset and argument dictionary per call, '
                'schedule); sources: transition tour + -simulate behaviours of Swarm.tla scripted into the real '
                'Swarm, ALL schedules (stateless DFS over scheduler choices) of every single call kind x failing '
                'subset x args for n <= 2%s and of call sequences for n <= 2, seeded random/PCT schedules for '
                'n <= 6 and <= 4 calls; distinct = distinct (scenario, schedule)' %
                ('' if tier == 'quick' else ' (n = 3: at most one failing member; more: 400 sampled schedules each)'))
    pick = [0, len(all_traces) // 2, len(all_traces) - 1]
    out.samples = [{'n': all_traces[i]['n'], 'ops': all_traces[i]['ops'], 'schedule': all_traces[i]['schedule'],
                    'events': [e for e in all_traces[i]['ev'] if e['e'] != 'step'][:14]} for i in pick]

    # 4. sensitivity: in-memory mutants must be rejected by the monitor
    m_scs = mutant_scenarios()
    mjobs = []
    for name in MUTANTS:
        mjobs += dfs_jobs(m_scs, mutant=name, limit=(300 if tier == 'quick' else 2000))   # (two-call histories with two members have very many schedules)
    _s, mt = run_jobs(mjobs)
    o2 = common.Outcome('C19', tier, seed)
    mbad, _ = judge(o2, mt, 'mutants')
    out.tlc_runs.extend(o2.tlc_runs)
    for name in MUTANTS:
        tot = sum(1 for t in mt if t['mutant'] == name)
        rej = [(t, c) for t, c, _a in mbad if t['mutant'] == name]
        clauses = sorted({c for _t, c in rej})
        out.sensitivity['mutant:' + name] = '%d of %d traces rejected (%s)' % (len(rej), tot, ','.join(clauses))
        if not rej:
            raise common.MachineryError('monitor did not reject in-memory mutant %s' % name)
    # binding self-tests: a dropped event / a changed projection must be rejected
    base = next(t for t in d_traces if t['n'] == 2 and t['ops'][0]['k'] == 'psafe')
    t1 = copy.deepcopy(base)
    del t1['ev'][next(i for i, e in enumerate(t1['ev']) if e['e'] == 'call')]
    t2 = copy.deepcopy(base)
    st2 = [e for e in t2['ev'] if e['e'] == 'step']
    st2[len(st2) // 2]['proj']['fin'] = [1, 2] if st2[len(st2) // 2]['proj']['fin'] != [1, 2] else []
    t3 = copy.deepcopy(base)
    rr = next(e for e in t3['ev'] if e['e'] == 'ret')
    rr['r'] = 'raise' if rr['r'] == 'ok' else 'ok'
    o2 = common.Outcome('C19', tier, seed)
    cbad, cdrift = judge(o2, [t1, t2, t3], 'corrupted')
    rej = {t['id'] for t, _c, _a in cbad} | {t['id'] for t, _a in cdrift}
    mon = {t['id'] for t, _c, _a in cbad}
    out.sensitivity['binding:drop-call-event'] = 'rejected by monitor' if 1 in mon else 'ACCEPTED'
    out.sensitivity['binding:projection-changed'] = 'rejected by conformance' if 2 in rej else 'ACCEPTED'
    out.sensitivity['binding:return-flipped'] = 'rejected by monitor' if 3 in mon else 'ACCEPTED'
    if not (1 in mon and 2 in rej and 3 in mon):
        raise common.MachineryError('trace spec accepted a corrupted trace: %s' % out.sensitivity)
    return out.finish()
