"""X01 -- lighthouse configuration write/read sequencing (extra specification, DESIGN 8(3)).

spec/LhConfigProps.tla (the guarantees, an observer over the event history), spec/LhConfig.tla
(design spec: LighthouseMemory slots, the helper's readers/writers, LighthouseConfigWriter),
spec/LhConfigTrace.tla (monitor + conformance for traces recorded from the real classes).

The real LighthouseMemory, LighthouseMemHelper, LighthouseConfigWriter and Localization objects are
driven with a scripted memory handler (answers one request per stimulus, OK or failed) and a
recording Crazyflie stand-in (parameter writes, persist packets; persist acknowledgements are fed
through the real Localization._incoming).  Everything runs in callbacks of one thread."""
import copy
import itertools
import json
import random
import struct

from .. import common, tlc, vsched

NCH = 16                      # LighthouseMemHelper.NR_OF_CHANNELS (the trace spec has the same constant)
OPS = ('wg', 'wc', 'rg', 'rc', 'st')
EV0 = {'e': '', 'k': 0, 'op': '', 'bs': 0, 'tag': 0, 'val': 0, 'ok': 0, 'sys': 0, 'n': 0,
       'hasg': 0, 'hasc': 0, 'objs': [], 'cobjs': [], 'pg': [], 'pc': []}
NOREQ = {'op': '', 'objs': [], 'cobjs': [], 'hasg': 0, 'hasc': 0, 'sys': 0}


def E(e, **kw):
    d = dict(EV0)
    d['e'] = e
    d.update(kw)
    return d


def D(op, objs=(), cobjs=(), hasg=0, hasc=0, sys=0):
    return {'op': op, 'objs': [list(o) for o in objs], 'cobjs': [list(o) for o in cobjs],
            'hasg': hasg, 'hasc': hasc, 'sys': sys}


# --------------------------------------------------------------------------- representation conversions
# Independent of the library's own packers: geometry = 12 floats + bool (49 bytes), calibration =
# 14 floats + uint32 uid + bool (61 bytes).  The tag of a geometry is origin[0], of a calibration the uid.
def geo_bytes(tag, val):
    return struct.pack('<12f?', float(tag), 0.0, 0.0, 1.0, 0.0, 0.0, 0.0, 1.0, 0.0, 0.0, 0.0, 1.0, bool(val))


def calib_bytes(tag, val):
    return struct.pack('<14fI?', *([0.25] * 14), int(tag), bool(val))


def decode_written(region, data):
    data = bytes(data)
    if region == 'g':
        if len(data) != 49:
            return -1, -1
        f = struct.unpack('<12f?', data)
        return int(f[0]), int(f[12])
    if len(data) != 61:
        return -1, -1
    f = struct.unpack('<14fI?', data)
    return int(f[14]), int(f[15])


def addr_to_region(addr):
    # LighthouseMemory layout (firmware memory map): geometries from 0x0000, calibrations from 0x1000, one 0x100 page each
    if addr >= 0x1000:
        return 'c', (addr - 0x1000) // 0x100
    return 'g', addr // 0x100


class _SleepProbe:
    """stands in for the `time` module of lighthouse_config_manager: records the waits"""
    world = None

    def sleep(self, secs):
        if _SleepProbe.world is not None and secs > 0:
            _SleepProbe.world.emit(E('sleep'))

    def __getattr__(self, name):
        from ..vsched import vtime
        return getattr(vtime, name)


# --------------------------------------------------------------------------- the world around the real code
class World:
    def __init__(self, nbs, mutant=None, backend='fake'):
        import cflib.crazyflie.mem.lighthouse_memory as lhm
        import cflib.localization.lighthouse_config_manager as lcm
        from cflib.crazyflie.localization import Localization
        from cflib.crazyflie.mem.memory_element import MemoryElement
        from cflib.utils.callbacks import Caller
        self.lhm, self.lcm = lhm, lcm
        self.nbs = nbs
        self.cur = None            # events of the chunk being recorded
        self.chunks = []
        self.nk = 0
        self.qw, self.qr = [], []
        self.pp = 0
        self.port_cbs = {}
        self.undo = []
        world = self

        class Handler:             # what LighthouseMemory calls `mem_handler` (cflib.crazyflie.mem.Memory)
            def write(self, memory, addr, data, flush_queue=False, progress_cb=None):
                data = bytes(bytearray(data))
                reg, bs = addr_to_region(addr)
                tag, val = decode_written(reg, data)
                if flush_queue:                       # Memory.write: queued (not yet started) writes are dropped
                    del world.qw[1:]
                world.qw.append({'addr': addr, 'reg': reg, 'bs': bs, 'tag': tag, 'val': val})
                world.emit(E('mw', op=reg, bs=bs, tag=tag, val=val))
                return True

            def read(self, memory, addr, length):
                if world.qr:                          # Memory.read refuses a second read of the same memory
                    return False
                reg, bs = addr_to_region(addr)
                want = 49 if reg == 'g' else 61
                world.qr.append({'addr': addr, 'reg': reg, 'bs': bs if length == want else -1})
                world.emit(E('mr', op=reg, bs=bs if length == want else -1))
                return True

        self.handler = Handler()
        self.lh_mem = lhm.LighthouseMemory(id=3, type=MemoryElement.TYPE_LH, size=0x2000, mem_handler=self.handler)
        # Memory._handle_cmd_info_details registers exactly these four for TYPE_LH
        self.mem_read_cb, self.mem_read_failed_cb = Caller(), Caller()
        self.mem_write_cb, self.mem_write_failed_cb = Caller(), Caller()
        self.mem_read_cb.add_callback(self.lh_mem.new_data)
        self.mem_read_failed_cb.add_callback(self.lh_mem.new_data_failed)
        self.mem_write_cb.add_callback(self.lh_mem.write_done)
        self.mem_write_failed_cb.add_callback(self.lh_mem.write_failed)

        class Mem:
            def get_mems(self, type):
                return (world.lh_mem,) if type == MemoryElement.TYPE_LH else ()

        class Param:
            def set_value(self, name, value):
                world.emit(E('param', sys=int(value)) if name == 'lighthouse.systemType' else E('param', sys=-1))

        class Cf:
            def add_port_callback(self, port, cb):
                world.port_cbs.setdefault(port, []).append(cb)

            def send_packet(self, pk, expected_reply=(), resend=False, timeout=0.2):
                from cflib.crtp.crtpstack import CRTPPort
                if pk.port == CRTPPort.MEM and world.backend == 'memory':
                    world.mem_out.append(pk)
                else:
                    world.sent(pk)

        self.cf = Cf()
        self.cf.mem = Mem()
        self.cf.param = Param()
        self.cf.loc = Localization(self.cf)
        self.backend = backend
        if backend == 'memory':
            self._real_memory(Caller, MemoryElement)
        if mutant:
            self.undo = MUTANTS[mutant](self) or []
        self.helper = lhm.LighthouseMemHelper(self.cf)
        self.writer = lcm.LighthouseConfigWriter(self.cf, nr_of_base_stations=nbs)
        _SleepProbe.world = self
        if not isinstance(lcm.time, _SleepProbe):
            lcm.time = _SleepProbe()

    def _real_memory(self, Caller, MemoryElement):
        """backend 'memory': the real cflib.crazyflie.mem.Memory sits between LighthouseMemory and the (packet level)
        device; the LighthouseMemory object is created by Memory's own discovery code."""
        from cflib.crazyflie import mem as memmod
        from cflib.crtp.crtpstack import CRTPPacket, CRTPPort
        world = self
        self.mem_out = []
        self.cf.disconnected = Caller()

        class RecMemory(memmod.Memory):
            def write(self, memory, addr, data, flush_queue=False, progress_cb=None):
                raw = bytes(bytearray(data))
                reg, bs = addr_to_region(addr)
                tag, val = decode_written(reg, raw)
                if flush_queue:
                    del world.qw[1:]
                world.qw.append({'addr': addr, 'reg': reg, 'bs': bs, 'tag': tag, 'val': val, 'nchunks': max(1, -(-len(raw) // 25))})
                world.emit(E('mw', op=reg, bs=bs, tag=tag, val=val))
                return memmod.Memory.write(self, memory, addr, data, flush_queue, progress_cb)

            def read(self, memory, addr, length):
                res = memmod.Memory.read(self, memory, addr, length)
                if res:
                    reg, bs = addr_to_region(addr)
                    want = 49 if reg == 'g' else 61
                    world.qr.append({'addr': addr, 'reg': reg, 'bs': bs if length == want else -1, 'len': length})
                    world.emit(E('mr', op=reg, bs=bs if length == want else -1))
                return res

        self.memory = RecMemory(self.cf)
        self.cf.mem = self.memory
        self.memory.refresh(lambda: None)

        def feed(chan, data):
            pk = CRTPPacket()
            pk.set_header(CRTPPort.MEM, chan)
            pk.data = data
            for cb in list(world.port_cbs.get(CRTPPort.MEM, [])):
                cb(pk)
        self.feed_mem = feed
        self.mem_out = []
        feed(memmod.CHAN_INFO, struct.pack('<BB', memmod.CMD_INFO_NBR, 1))
        feed(memmod.CHAN_INFO, struct.pack('<BBBI8B', memmod.CMD_INFO_DETAILS, 0, MemoryElement.TYPE_LH, 0x2000, *([0] * 8)))
        self.mem_out = []
        mems = self.memory.get_mems(MemoryElement.TYPE_LH)
        if len(mems) != 1:
            raise common.MachineryError('Memory discovery did not create the LighthouseMemory')
        self.lh_mem = mems[0]

    def _pending(self, chan):
        for i, pk in enumerate(self.mem_out):
            if pk.channel == chan:
                return self.mem_out.pop(i)
        return None

    def close(self):
        for fn in reversed(self.undo):
            fn()
        _SleepProbe.world = None

    # -- recording
    def emit(self, ev):
        if self.cur is None:            # an event outside any stimulus cannot happen in single-threaded code
            self.chunks.append({'stim': 'stray', 'ev': [ev]})
        else:
            self.cur.append(ev)

    def sent(self, pk):
        from cflib.crtp.crtpstack import CRTPPort
        data = bytes(bytearray(pk.data))
        if pk.port == CRTPPort.LOCALIZATION and pk.channel == 1 and len(data) == 5 and data[0] == 11:
            # [LH_PERSIST_DATA, geo mask (u16 LE), calib mask (u16 LE)] -- firmware locsrv.c lhPersistDataHandler
            _t, mg, mc = struct.unpack('<BHH', data)
            self.pp += 1
            self.emit(E('persist', pg=[b for b in range(16) if mg >> b & 1], pc=[b for b in range(16) if mc >> b & 1]))
        else:
            self.emit(E('persist', pg=[-1], pc=[-1]))       # any other packet is unexpected traffic

    def _chunk(self, stim, **kw):
        self.cur = []
        c = {'stim': stim, 'ev': self.cur}
        c.update(kw)
        self.chunks.append(c)

    # -- the user
    def _objects(self, region, objs):
        out = {}
        for (bs, tag, val) in objs:
            if region == 'g':
                o = self.lhm.LighthouseBsGeometry()
                o.origin = [float(tag), 0.0, 0.0]
                o.rotation_matrix = [[1.0, 0.0, 0.0], [0.0, 1.0, 0.0], [0.0, 0.0, 1.0]]
            else:
                o = self.lhm.LighthouseBsCalibration()
                for sw in o.sweeps:
                    sw.phase = sw.tilt = sw.curve = sw.gibmag = sw.gibphase = sw.ogeemag = sw.ogeephase = 0.25
                o.uid = int(tag)
            o.valid = bool(val)
            out[bs] = o
        return out

    def _user_call(self, d, f):
        self.nk += 1
        k = self.nk
        self.emit(E('call', k=k, op=d['op'], objs=d['objs'], cobjs=d['cobjs'], hasg=d['hasg'], hasc=d['hasc'],
                    sys=d['sys'], n=self.nbs if d['op'] == 'st' else 0))

        def done(result):
            if d['op'] in ('rg', 'rc'):
                objs = []
                for bs in sorted(result):
                    o = result[bs]
                    tag = int(o.origin[0]) if d['op'] == 'rg' else int(o.uid)
                    objs.append([int(bs), tag, int(bool(o.valid))])
                self.emit(E('cb', k=k, objs=objs))
            else:
                self.emit(E('cb', k=k, ok=1 if result is True else 0 if result is False else -1))
            if f and f['op']:
                self._user_call(f, None)
        done.k = k
        ok = 1
        try:
            if d['op'] == 'wg':
                self.helper.write_geos(self._objects('g', d['objs']), done)
            elif d['op'] == 'wc':
                self.helper.write_calibs(self._objects('c', d['objs']), done)
            elif d['op'] == 'rg':
                self.helper.read_all_geos(done)
            elif d['op'] == 'rc':
                self.helper.read_all_calibs(done)
            else:
                self.writer.write_and_store_config(
                    done, geos=self._objects('g', d['objs']) if d['hasg'] else None,
                    calibs=self._objects('c', d['cobjs']) if d['hasc'] else None,
                    system_type=d['sys'] if d['sys'] else None)
        except Exception:
            ok = 0
        self.emit(E('ret', k=k, ok=ok))

    # -- stimuli; each returns False when it is not applicable (nothing recorded)
    def call(self, d, f=None):
        f = f or NOREQ
        self._chunk('call', d=d, f=f)
        self._user_call(d, f)
        self.cur = None
        return True

    def _deliver(self, fn, *args):
        try:
            fn(*args)
        except Exception:
            self.emit(E('exc'))

    def answer_write(self, ok):
        if not self.qw:
            return False
        q = self.qw.pop(0)
        self._chunk('ans')
        self.emit(E('ans', op='w', ok=ok, bs=q['bs']))
        if self.backend == 'memory':
            for _ in range(q['nchunks'] if ok else 1):      # the device acknowledges chunk after chunk / rejects the first one
                pk = self._pending(2)
                if pk is None:
                    break
                mid, addr = struct.unpack('<BI', bytes(bytearray(pk.data))[:5])
                self._deliver(self.feed_mem, 2, struct.pack('<BIB', mid, addr, 0 if ok else 1))
        else:
            self._deliver((self.mem_write_cb if ok else self.mem_write_failed_cb).call, self.lh_mem, q['addr'])
        self.cur = None
        return True

    def answer_read(self, ok, tag=0, val=0):
        if not self.qr:
            return False
        q = self.qr.pop(0)
        self._chunk('ans')
        data = (geo_bytes(tag, val) if q['reg'] == 'g' else calib_bytes(tag, val)) if ok else b''
        self.emit(E('ans', op='r', ok=1, bs=q['bs'], tag=tag, val=val) if ok else E('ans', op='r', ok=0, bs=q['bs']))
        if self.backend == 'memory':
            for _ in range(8):
                pk = self._pending(1)
                if pk is None:
                    break
                mid, addr, ln = struct.unpack('<BIB', bytes(bytearray(pk.data))[:6])
                if not ok:
                    self._deliver(self.feed_mem, 1, struct.pack('<BIB', mid, addr, 1))
                    break
                off = addr - q['addr']
                self._deliver(self.feed_mem, 1, struct.pack('<BIB', mid, addr, 0) + data[off:off + ln])
                if off + ln >= q['len']:
                    break
        elif ok:
            self._deliver(self.mem_read_cb.call, self.lh_mem, q['addr'], data)
        else:
            self._deliver(self.mem_read_failed_cb.call, self.lh_mem, q['addr'], bytearray())
        self.cur = None
        return True

    def persist_ack(self, ok):
        if self.pp <= 0:
            return False
        from cflib.crtp.crtpstack import CRTPPacket, CRTPPort
        self.pp -= 1
        self._chunk('pack')
        self.emit(E('pack', ok=ok))
        pk = CRTPPacket()
        pk.set_header(CRTPPort.LOCALIZATION, 1)
        pk.data = struct.pack('<BB', 11, ok)          # [LH_PERSIST_DATA, result] -- firmware lhPersistDataWorker
        for cb in list(self.port_cbs.get(CRTPPort.LOCALIZATION, [])):
            self._deliver(cb, pk)
        self.cur = None
        return True

    def fin(self):
        self._chunk('fin')
        self.emit(E('fin'))
        self.cur = None

    def busy(self):
        return bool(self.qw or self.qr or self.pp)

    # -- projection of the real objects onto the variables of LhConfig.tla
    def project(self):
        h, w = self.helper, self.writer
        owners = {id(h.geo_reader): 'u_g', id(h.calib_reader): 'u_c', id(h.geo_writer): 'u_g', id(h.calib_writer): 'u_c',
                  id(w._helper.geo_reader): 'w_g', id(w._helper.calib_reader): 'w_c',
                  id(w._helper.geo_writer): 'w_g', id(w._helper.calib_writer): 'w_c'}

        def owner(cb):
            return '' if cb is None else owners.get(id(getattr(cb, '__self__', None)), '?')

        def target(cb):
            if cb is None:
                return 0
            if getattr(cb, '__self__', None) is w:
                return -1
            return getattr(cb, 'k', -2)

        def objs(d, region):
            out = []
            for bs, o in d.items():
                out.append([bs, int(o.origin[0]) if region == 'g' else int(o.uid), int(bool(o.valid))])
            return out

        def rd(r, region):
            return {'cb': target(r._read_done_cb), 'next': r._next_id or 0,
                    'res': objs(r._result, region) if r._result is not None else []}

        def wt(x, region):
            return {'act': x._objects_to_write is not None,
                    'objs': objs(x._objects_to_write, region) if x._objects_to_write is not None else [],
                    'cb': target(x._write_done_cb), 'fail': bool(x._write_failed_for_one_or_more_objects)}
        gw = w._geos_to_write
        cwv = getattr(w, '_calibs_to_write', None)
        return {
            'upd': owner(self.lh_mem._update_finished_cb), 'wr': owner(self.lh_mem._write_finished_cb),
            'rd': {'u_g': rd(h.geo_reader, 'g'), 'u_c': rd(h.calib_reader, 'c'),
                   'w_g': rd(w._helper.geo_reader, 'g'), 'w_c': rd(w._helper.calib_reader, 'c')},
            'wt': {'u_g': wt(h.geo_writer, 'g'), 'u_c': wt(h.calib_writer, 'c'),
                   'w_g': wt(w._helper.geo_writer, 'g'), 'w_c': wt(w._helper.calib_writer, 'c')},
            'cw': {'cb': target(w._data_stored_cb), 'gwset': gw is not None, 'gw': objs(gw, 'g') if gw is not None else [],
                   'cwset': cwv is not None, 'cwv': objs(cwv, 'c') if cwv is not None else [],
                   'gp': len(w._geos_to_persist) > 0, 'cp': len(w._calibs_to_persist) > 0,
                   'fail': bool(w._write_failed_for_one_or_more_objects)},
            'reg': w._received_location_packet in self.cf.loc.receivedLocationPacket.callbacks,
            'qw': [[q['bs'], q['tag'], q['val']] for q in self.qw], 'qr': [[q['reg'], q['bs']] for q in self.qr],
            'pp': self.pp,
        }


def read_tag(bs, salt=0):
    return 100 + bs + 20 * salt


def run_script(sc, mutant=None, want_projection=False, backend=None):
    """sc = {'nbs': n, 'steps': [...]}; steps: ['call', d, f] | ['w', ok] | ['r', ok, tag, val] | ['p', ok] |
    ['pump', wok, rok, pok] (answer everything outstanding, in the order write, read, ack, until quiet) | ['fin'].
    Returns the trace (without id) and, if asked, the projection after every applied step."""
    w = World(sc['nbs'], mutant, backend or sc.get('backend', 'fake'))
    proj = []
    applied = 0
    try:
        for st in sc['steps']:
            kind = st[0]
            done = True
            if kind == 'call':
                w.call(st[1], st[2] if len(st) > 2 else None)
            elif kind == 'w':
                done = w.answer_write(st[1])
            elif kind == 'r':
                done = w.answer_read(st[1], st[2] if len(st) > 2 else 0, st[3] if len(st) > 3 else 0)
            elif kind == 'p':
                done = w.persist_ack(st[1])
            elif kind == 'one':                       # answer exactly one outstanding item (write, else read, else ack)
                if w.qw:
                    done = w.answer_write(st[1])
                elif w.qr:
                    done = w.answer_read(st[2], read_tag(w.qr[0]['bs']) if st[2] else 0, 1 if st[2] else 0)
                else:
                    done = w.persist_ack(st[3])
            elif kind == 'pump':
                n = 0
                while w.busy() and n < 400:
                    n += 1
                    if w.qw:
                        w.answer_write(st[1])
                    elif w.qr:
                        bs = w.qr[0]['bs']
                        w.answer_read(st[2], read_tag(bs) if st[2] else 0, 1 if st[2] else 0)
                    else:
                        w.persist_ack(st[3])
                done = False
            elif kind == 'fin':
                w.fin()
            if done:
                applied += 1
                if want_projection:
                    proj.append(w.project())
        quiet = not w.busy()
    finally:
        w.close()
    t = {'nbs': sc['nbs'], 'bugs': sc.get('bugs', []), 'chunks': w.chunks, 'quiet': quiet}
    return (t, proj) if want_projection else t


# --------------------------------------------------------------------------- in-memory mutants (sensitivity)
def _patch(undo, obj, name, new):
    old = obj.__dict__[name]
    setattr(obj, name, new)
    undo.append(lambda: setattr(obj, name, old))


def _mut_cw(variant):
    def install(world):
        lcm = world.lcm
        CW = lcm.LighthouseConfigWriter
        undo = []

        def store(self, data_stored_cb, geos=None, calibs=None, system_type=None):
            # the original minus the 'already in progress' guard
            self._data_stored_cb = data_stored_cb
            self._cf.loc.receivedLocationPacket.add_callback(self._received_location_packet)
            self._geos_to_write = self._prepare_geos(geos)
            self._calibs_to_write = self._prepare_calibs(calibs)
            self._geos_to_persist = list(range(self._nr_of_base_stations)) if self._geos_to_write is not None else []
            self._calibs_to_persist = list(range(self._nr_of_base_stations)) if self._calibs_to_write is not None else []
            self._write_failed_for_one_or_more_objects = False
            if system_type is not None:
                self._cf.param.set_value('lighthouse.systemType', system_type)
                lcm.time.sleep(0.8)
            self._next()

        def nxt(self):
            if self._geos_to_write is not None:
                self._helper.write_geos(self._geos_to_write, self._upload_done)
                self._geos_to_write = None
                return
            if variant == 'persist_before_calibs' and (len(self._geos_to_persist) > 0 or len(self._calibs_to_persist) > 0):
                self._cf.loc.send_lh_persist_data_packet(self._geos_to_persist, self._calibs_to_persist)
                self._geos_to_persist = []
                self._calibs_to_persist = []
                return
            if self._calibs_to_write is not None:
                self._helper.write_calibs(self._calibs_to_write, self._upload_done)
                self._calibs_to_write = None
                return
            if len(self._geos_to_persist) > 0 or len(self._calibs_to_persist) > 0:
                if variant == 'persist_geo_only':
                    self._cf.loc.send_lh_persist_data_packet(self._geos_to_persist, [])
                else:
                    self._cf.loc.send_lh_persist_data_packet(self._geos_to_persist, self._calibs_to_persist)
                self._geos_to_persist = []
                self._calibs_to_persist = []
                if variant != 'cb_before_ack':
                    return
            tmp_callback = self._data_stored_cb
            self._data_stored_cb = None
            if tmp_callback is not None:
                tmp_callback(not self._write_failed_for_one_or_more_objects)

        def upload_done(self, sucess):
            self._next()

        def prepare_geos(self, geos):
            return dict(geos) if geos is not None else None

        if variant == 'no_guard':
            _patch(undo, CW, 'write_and_store_config', store)
        elif variant in ('persist_before_calibs', 'persist_geo_only', 'cb_before_ack'):
            _patch(undo, CW, '_next', nxt)
        elif variant == 'ignore_write_failure':
            _patch(undo, CW, '_upload_done', upload_done)
        elif variant == 'no_padding':
            _patch(undo, CW, '_prepare_geos', prepare_geos)
        return undo
    return install


def _mut_helper(variant):
    def install(world):
        lhm = world.lhm
        W = lhm.LighthouseMemHelper._ObjectWriter
        R = lhm.LighthouseMemHelper._ObjectReader
        M = lhm.LighthouseMemory
        undo = []

        def write_failed(self, mem, addr):
            self._write_next_object()

        def write_next_twice(self):
            if len(self._objects_to_write) > 0:
                id = list(self._objects_to_write.keys())[0]
                data = self._objects_to_write.pop(id)
                self._write_fcn(id, data, self._data_written, write_failed_cb=self._write_failed)
            else:
                tmp_cb = self._write_done_cb
                is_sucess = not self._write_failed_for_one_or_more_objects
                self._objects_to_write = None
                self._write_done_cb = None
                self._write_failed_for_one_or_more_objects = False
                tmp_cb(is_sucess)
                tmp_cb(is_sucess)

        def update_failed(self, mem):
            self._next_id = self.NR_OF_CHANNELS
            self._get_object(self._next_id)

        def data_updated(self, mem, data):
            self._result[self._next_id + 1] = data
            self._next_id += 1
            self._get_object(self._next_id)

        def write_geo_data(self, bs_id, geo_data, write_finished_cb, write_failed_cb=None):
            data = bytearray()
            geo_data.add_mem_data(data)
            self._write_finished_cb = write_finished_cb
            self._write_failed_cb = write_failed_cb
            self.mem_handler.write(self, self.GEO_START_ADDR + bs_id * self.PAGE_SIZE, data, flush_queue=True)

        def write_calib_as_geo(self, bs_id, calibration_data, write_finished_cb, write_failed_cb=None):
            if self._write_finished_cb:
                raise Exception('Write operation already ongoing.')
            data = bytearray()
            calibration_data.add_mem_data(data)
            self._write_finished_cb = write_finished_cb
            self._write_failed_cb = write_failed_cb
            self.mem_handler.write(self, self.CALIB_START_ADDR + (bs_id + 1) * self.PAGE_SIZE, data, flush_queue=True)

        if variant == 'writer_forgets_failure':
            _patch(undo, W, '_write_failed', write_failed)
        elif variant == 'writer_cb_twice':
            _patch(undo, W, '_write_next_object', write_next_twice)
        elif variant == 'reader_stops_at_failure':
            _patch(undo, R, '_update_failed', update_failed)
        elif variant == 'reader_key_off_by_one':
            _patch(undo, R, '_data_updated', data_updated)
        elif variant == 'lhmem_no_write_guard':
            _patch(undo, M, 'write_geo_data', write_geo_data)
        elif variant == 'lhmem_calib_wrong_page':
            _patch(undo, M, 'write_calib_data', write_calib_as_geo)
        return undo
    return install


def _repair(world):
    """Positive control: the smallest repairs of the defects the check reports on the as-is tree, applied in memory.
    The monitor must accept every scenario with them (an over-strict monitor would not)."""
    lhm, lcm = world.lhm, world.lcm
    W = lhm.LighthouseMemHelper._ObjectWriter
    R = lhm.LighthouseMemHelper._ObjectReader
    CW = lcm.LighthouseConfigWriter
    undo = []
    w_write, r_read_all, cw_store = W.__dict__['write'], R.__dict__['read_all'], CW.__dict__['write_and_store_config']

    def write(self, object_dict, write_done_cb):
        try:
            w_write(self, object_dict, write_done_cb)
        except Exception:
            if self._write_done_cb is write_done_cb:          # the first step raised: nothing was started
                self._objects_to_write = None
                self._write_done_cb = None
            raise

    def read_all(self, read_done_cb):
        try:
            r_read_all(self, read_done_cb)
        except Exception:
            if self._read_done_cb is read_done_cb:
                self._read_done_cb = None
                self._result = None
                self._next_id = None
            raise

    def store(self, data_stored_cb, geos=None, calibs=None, system_type=None):
        if self._data_stored_cb is not None:
            raise Exception('Write already in prgress')
        lh_mem = self._helper.geo_writer._write_fcn.__self__
        if (geos is not None or calibs is not None) and lh_mem._write_finished_cb:
            raise Exception('Write operation already ongoing.')           # before anything is changed (parameter!)
        cw_store(self, data_stored_cb, geos=geos, calibs=calibs, system_type=system_type)

    def received(self, packet):
        if packet.type == self._cf.loc.LH_PERSIST_DATA:
            if not packet.data:
                self._write_failed_for_one_or_more_objects = True
            self._next()

    _patch(undo, W, 'write', write)
    _patch(undo, R, 'read_all', read_all)
    _patch(undo, CW, 'write_and_store_config', store)
    _patch(undo, CW, '_received_location_packet', received)
    return undo


def _mut_prefix(variant):
    """the behaviours /repo had before 9c1ea78 and 39058d0"""
    def install(world):
        lhm, lcm = world.lhm, world.lcm
        W = lhm.LighthouseMemHelper._ObjectWriter
        R = lhm.LighthouseMemHelper._ObjectReader
        undo = []

        def write(self, object_dict, write_done_cb):
            if self._objects_to_write is not None:
                raise Exception('Write operation not finished')
            self._write_done_cb = write_done_cb
            self._objects_to_write = dict(object_dict)
            self._write_failed_for_one_or_more_objects = False
            self._write_next_object()

        def read_all(self, read_done_cb):
            if self._read_done_cb is not None:
                raise Exception('Read operation not finished')
            self._result = {}
            self._next_id = 0
            self._read_done_cb = read_done_cb
            self._get_object(0)

        def received(self, packet):
            if packet.type == self._cf.loc.LH_PERSIST_DATA:
                self._next()

        if variant == 'writer_wedge':
            _patch(undo, W, 'write', write)
        elif variant == 'reader_wedge':
            _patch(undo, R, 'read_all', read_all)
        elif variant == 'persist_result_ignored':
            _patch(undo, lcm.LighthouseConfigWriter, '_received_location_packet', received)
        return undo
    return install


MUTANTS = {'_repair': _repair}
for _v in ('writer_wedge', 'reader_wedge', 'persist_result_ignored'):
    MUTANTS['prefix_' + _v] = _mut_prefix(_v)
for _v in ('no_guard', 'persist_before_calibs', 'persist_geo_only', 'cb_before_ack', 'ignore_write_failure', 'no_padding'):
    MUTANTS['cw_' + _v] = _mut_cw(_v)
for _v in ('writer_forgets_failure', 'writer_cb_twice', 'reader_stops_at_failure', 'reader_key_off_by_one',
           'lhmem_no_write_guard', 'lhmem_calib_wrong_page'):
    MUTANTS[_v] = _mut_helper(_v)


# --------------------------------------------------------------------------- scenario sources
PUMP = ['pump', 1, 1, 1]


def probes(base, ops=OPS):
    """follow-up requests after quiescence (each pumped to completion): every kind must still be served"""
    st = []
    for i, op in enumerate(ops):
        if op in ('wg', 'wc'):
            d = D(op, objs=[[1, base + i, 1]])
        elif op == 'st':
            d = D('st', objs=[[0, base + i, 1]], hasg=1)
        else:
            d = D(op)
        st += [['call', d], PUMP]
    return st


def _subsets(nbs, tag0):
    """None, {}, and ordered non-empty selections of at most 2 base stations (both orders)"""
    out = [None, []]
    ids = list(range(nbs))
    for a in ids:
        out.append([[a, tag0 + a, 1]])
    for a, b in itertools.permutations(ids, 2):
        if (a + b) % 2 == 1 or nbs <= 2:
            out.append([[a, tag0 + a, 1], [b, tag0 + b, (a + b) % 2]])
    return out


def fam_store(tier, rng):
    """every store request shape x every OK/failed pattern of its writes x both acknowledgements"""
    out = []
    for nbs in ((1, 2) if tier == 'quick' else (1, 2, 3)):
        for g in _subsets(nbs, 10):
            for c in _subsets(nbs, 40):
                for sys in (0, 1, 2):
                    if tier == 'quick' and sys == 1 and (g is None or c is None):
                        continue
                    nw = (nbs if g is not None else 0) + (nbs if c is not None else 0)
                    pats = list(itertools.product((1, 0), repeat=nw))
                    if tier == 'quick' and len(pats) > 6:
                        pats = pats[:1] + rng.sample(pats[1:], 5)
                    elif len(pats) > 16:
                        pats = pats[:1] + rng.sample(pats[1:], 23)
                    for pat in pats:
                        for pk in (1, 0):
                            if pk == 0 and sum(pat) < nw - 1:
                                continue
                            d = D('st', objs=g or [], cobjs=c or [], hasg=int(g is not None), hasc=int(c is not None), sys=sys)
                            steps = [['call', d]] + [['w', ok] for ok in pat] + [['p', pk], PUMP]
                            if rng.random() < 0.15:
                                steps += probes(70, ('st', 'wg'))
                            out.append({'nbs': nbs, 'steps': steps + [['fin']], 'fam': 'store'})
    # the default configuration: 16 base stations
    full = [[b, 10 + b, 1] for b in range(16)]
    some = [[3, 13, 1], [0, 10, 1]]
    for g, c in ((full, full), (some, None), (None, some), (some, some), ([], [])):
        nw = (16 if g is not None else 0) + (16 if c is not None else 0)
        fails = [None] + list(range(nw)) if tier == 'thorough' else [None, 0, nw // 2, nw - 1]
        for fl in fails:
            for pk in (1, 0):
                d = D('st', objs=g or [], cobjs=c or [], hasg=int(g is not None), hasc=int(c is not None), sys=2 if fl is None else 0)
                steps = [['call', d]] + [['w', 0 if i == fl else 1] for i in range(nw)] + [['p', pk], PUMP, ['fin']]
                out.append({'nbs': 16, 'steps': steps, 'fam': 'store16'})
    return out


def fam_helper_writes(tier, rng):
    out = []
    ids = [0, 1, 2, 15]
    for op in ('wg', 'wc'):
        for n in range(0, 4):
            for sel in itertools.permutations(ids, n):
                if tier == 'quick' and n == 3 and sum(sel) % 3:
                    continue
                for pat in itertools.product((1, 0), repeat=n):
                    objs = [[b, 20 + b, (b + n) % 2 if n > 1 else 1] for b in sel]
                    steps = [['call', D(op, objs=objs)]] + [['w', ok] for ok in pat] + [PUMP, ['fin']]
                    out.append({'nbs': 2, 'steps': steps, 'fam': 'hwrite'})
    return out


def fam_reads(tier, rng):
    pats = [[1] * NCH, [0] * NCH]
    for i in range(NCH):
        pats.append([0 if j == i else 1 for j in range(NCH)])
        pats.append([1 if j < i else 0 for j in range(NCH)])        # the firmware supports the first i base stations
    for _ in range(40 if tier == 'quick' else 1500):
        pats.append([rng.randint(0, 1) for _ in range(NCH)])
    out = []
    for op in ('rg', 'rc'):
        for pat in pats:
            steps = [['call', D(op)]] + [['r', ok, read_tag(b, rng.randint(0, 3)) if ok else 0, rng.randint(0, 1) if ok else 0]
                                         for b, ok in enumerate(pat)] + [PUMP, ['fin']]
            out.append({'nbs': 2, 'steps': steps, 'fam': 'read'})
    return out


PAIR_MENU = [D('wg', objs=[[0, 11, 1]]), D('wg'), D('wc', objs=[[1, 12, 1], [0, 13, 0]]), D('rg'), D('rc'),
             D('st', objs=[[1, 14, 1]], hasg=1), D('st', cobjs=[[0, 15, 1]], hasc=1, sys=2),
             D('st', objs=[[0, 16, 1]], cobjs=[[1, 17, 1]], hasg=1, hasc=1, sys=1), D('st')]


def _retag(d, add):
    d = copy.deepcopy(d)
    for o in d['objs'] + d['cobjs']:
        o[1] += add
    return d


def fam_pairs(tier, rng):
    """a second request arrives at every point of the first one's progress (from the top level, or from the
    first one's completion callback); afterwards every kind of request must still be served"""
    out = []
    for d1 in PAIR_MENU:
        for d2 in PAIR_MENU:
            d2 = _retag(d2, 20)
            npoints = 17 if d1['op'] in ('rg', 'rc') else 7
            points = range(npoints + 1)
            if d1['op'] in ('rg', 'rc'):
                points = (0, 1, 2, 15, 16)
            for j in points:
                for wok in ((1, 0) if tier == 'thorough' or j == 1 else (1,)):
                    steps = [['call', d1]] + [['one', wok, 1, 1]] * j + [['call', d2], PUMP] + probes(80) + [['fin']]
                    out.append({'nbs': 2, 'steps': steps, 'fam': 'pair'})
            for wok in (1, 0):
                steps = [['call', d1, d2], ['pump', wok, 1, 1]] + probes(80) + [['fin']]
                out.append({'nbs': 2, 'steps': steps, 'fam': 'pair-cb'})
    return out


def _rand_desc(rng, nbs, base):
    op = rng.choice(('wg', 'wc', 'rg', 'rc', 'st', 'st', 'st'))
    def objs(limit):
        ids = rng.sample(range(limit), rng.randint(0, min(3, limit)))
        return [[b, base + b, int(rng.random() < 0.85)] for b in ids]
    if op in ('wg', 'wc'):
        return D(op, objs=objs(16))
    if op == 'st':
        hg, hc = rng.random() < 0.7, rng.random() < 0.7
        return D('st', objs=objs(nbs) if hg else [], cobjs=objs(nbs) if hc else [], hasg=int(hg), hasc=int(hc),
                 sys=rng.choice((0, 0, 1, 2)))
    return D(op)


def fam_random(tier, rng):
    out = []
    for i in range(300 if tier == 'quick' else 4000):
        nbs = rng.choice((1, 2, 2, 3, 4, 8, 16))
        steps = []
        nreq = 0
        for _ in range(rng.randint(4, 60)):
            x = rng.random()
            if x < 0.18 and nreq < 8:
                nreq += 1
                f = _rand_desc(rng, nbs, 20 * nreq + 200) if rng.random() < 0.3 else None
                steps.append(['call', _rand_desc(rng, nbs, 20 * nreq)] + ([f] if f else []))
                nreq += 1 if f else 0
            elif x < 0.55:
                steps.append(['w', int(rng.random() < 0.8)])
            elif x < 0.85:
                ok = int(rng.random() < 0.8)
                steps.append(['r', ok, rng.randint(1, 250) if ok else 0, rng.randint(0, 1) if ok else 0])
            else:
                steps.append(['p', int(rng.random() < 0.8)])
        steps += [['pump', int(rng.random() < 0.8), int(rng.random() < 0.8), int(rng.random() < 0.8)]]
        steps += probes(300, rng.sample(OPS, rng.randint(1, 5))) + [['fin']]
        out.append({'nbs': nbs, 'steps': steps, 'fam': 'random'})
    return out


def scenario_from_behaviour(beh):
    """TLC behaviour of LhConfig ((label, state) list) -> script + expected (events, state) per step"""
    nbs = beh[0][1]['s']['nbs']
    steps, expected = [], []
    for label, st in beh[1:]:
        name, args = tlc.parse_label(label)
        if name == 'Call':
            steps.append(['call', _desc(args[0]), _desc(args[1])])
        elif name == 'AnsW':
            steps.append(['w', args[0]])
        elif name == 'AnsR':
            steps.append(['r', args[0], args[1][0] if args[0] else 0, args[1][1] if args[0] else 0])
        elif name == 'Pack':
            steps.append(['p', args[0]])
        else:
            raise common.MachineryError('unknown action label %r' % label)
        expected.append(st['s'])
    return {'nbs': nbs, 'steps': steps, 'fam': 'tlc-sim'}, expected


def _desc(r):
    return {'op': r['op'], 'objs': [list(o) for o in r['objs']], 'cobjs': [list(o) for o in r['cobjs']],
            'hasg': r['hasg'], 'hasc': r['hasc'], 'sys': r['sys']}


def _plain(x):
    if isinstance(x, dict):
        return {k: _plain(v) for k, v in x.items()}
    if isinstance(x, (list, tuple)):
        return [_plain(v) for v in x]
    return x


PROJ_KEYS = ('upd', 'wr', 'rd', 'wt', 'cw', 'reg', 'qw', 'qr', 'pp')


def _replay_job(job):
    sc, expected = job
    t, proj = run_script(sc, want_projection=True)
    ok = len(proj) == len(expected) == len(t['chunks'])
    where = None
    if ok:
        for i, (p, e, c) in enumerate(zip(proj, expected, t['chunks'])):
            e = _plain(e)
            if _plain(c['ev']) != e['out'] or any(_plain(p[k]) != e[k] for k in PROJ_KEYS):
                ok = False
                where = {'step': i, 'stim': sc['steps'][i], 'got_ev': c['ev'], 'want_ev': e['out'],
                         'diff': {k: (p[k], e[k]) for k in PROJ_KEYS if _plain(p[k]) != e[k]}}
                break
    else:
        where = {'lengths': (len(proj), len(expected), len(t['chunks']))}
    return t, ok, where


def _exec_job(job):
    sc, mutant = job
    return run_script(sc, mutant)


def _init():
    vsched.load_cflib()


def run_scenarios(scs, mutant=None):
    return common.pmap(_exec_job, [(sc, mutant) for sc in scs], init=_init)


def detect_as_is():
    """Which of the known as-is / pre-fix behaviours does the tree under test have?  (Only selects the design-spec
    variant the conformance check compares with; the verdict does not depend on it.)"""
    _init()
    bugs = []
    w = World(2)
    try:
        w.call(D('wg', objs=[[0, 1, 1]]))
        w.call(D('wc', objs=[[0, 2, 1]]))                 # refused: the memory is busy
        if w.helper.calib_writer._objects_to_write is not None:
            bugs.append('wedge')
        w.call(D('st', objs=[[0, 3, 1]], hasg=1))         # refused for the same reason
        if w.writer._data_stored_cb is not None:
            bugs.append('store_wedge')
    finally:
        w.close()
    t = run_script({'nbs': 1, 'steps': [['call', D('st', objs=[[0, 1, 1]], hasg=1)], ['w', 1], ['p', 0]]})
    cbs = [e for c in t['chunks'] for e in c['ev'] if e['e'] == 'cb']
    if cbs and cbs[0]['ok'] == 1:
        bugs.append('pack')
    return sorted(bugs)


# --------------------------------------------------------------------------- the check
def judge(out, traces, label, count=True):
    for i, t in enumerate(traces):
        t['id'] = i + 1
    verdicts, st = common.validate_traces('LhConfigTrace.tla', 'TRACE_LhConfig.cfg', traces)
    if count:
        out.traces += len(traces)
        out.states += st['states']
        out.transitions += st['transitions']
        out.tlc_runs.append({'config': 'TRACE_LhConfig (%s)' % label, 'states': st['states'],
                             'transitions': st['transitions'], 'wall_s': round(st['wall_s'], 2), 'traces': len(traces)})
    bad, drift = [], []
    for i, t in enumerate(traces):
        clause, at, conf, conf_at = verdicts[t['id']]
        if clause != 'ok':
            bad.append((i, clause, at))
        elif not conf:
            drift.append((i, conf_at))
    return bad, drift


COMPONENT = {'wg': 'writer', 'wc': 'writer', 'rg': 'reader', 'rc': 'reader', 'st': 'store'}


def signature(trace, clause, at):
    """clause + the component concerned (the request of the failing ret/cb event, else the event kind)"""
    evs = [e for c in trace['chunks'] for e in c['ev']]
    ops = {e['k']: e['op'] for e in evs if e['e'] == 'call'}
    e = evs[at - 1] if 0 < at <= len(evs) else None
    if e is None:
        return clause + '/end'
    if e['e'] in ('ret', 'cb') and e['k'] in ops:
        comp = COMPONENT.get(ops[e['k']], '?')
        if clause == 'RefusedHadEffect':
            k = e['k']
            i0 = max(i for i, x in enumerate(evs[:at]) if x['e'] == 'call' and x['k'] == k)
            kinds = sorted({x['e'] for x in evs[i0 + 1:at - 1] if x['e'] in ('mw', 'mr', 'param', 'persist', 'cb')})
            comp += '-' + '+'.join(kinds)
        return '%s/%s' % (clause, comp)
    return '%s/%s' % (clause, e['e'])


AS_IS_IN_CFG = ['store_wedge']          # what SIM_LhConfig.cfg / TOUR_LhConfig.cfg say (Bugs <- BugsAsIs in MC_LhConfig.tla)


def variant_cfg(cfg, as_is, scratch):
    """SIM_/TOUR_LhConfig.cfg are written for the current tree (Bugs <- BugsAsIs); for a tree that behaves differently
    the same configuration with the detected bug set is written to the scratch directory."""
    import os
    if list(as_is) == AS_IS_IN_CFG:
        return cfg
    text = open(os.path.join(tlc.SPEC_DIR, cfg)).read().replace(
        'Bugs <- BugsAsIs', 'Bugs = {%s}' % ', '.join('"%s"' % b for b in as_is))
    path = os.path.join(scratch, cfg)
    with open(path, 'w') as f:
        f.write(text)
    return path


BUG_CFGS = ['store_wedge', 'wedge', 'pack', 'noguard', 'early_persist']


def main(tier, seed, replay=None):
    out = common.Outcome('X01', tier, seed)
    rng = random.Random(seed)
    out.assumptions = [
        'one Crazyflie with one LighthouseMemory; one user LighthouseMemHelper and one LighthouseConfigWriter (with its own helper) on it; '
        'the memory subsystem is a scripted handler with Memory\'s interface (half of the scenarios) or the real cflib Memory answered '
        'at packet level, chunk by chunk (other half; LighthouseMemory then comes from Memory\'s own discovery code)',
        'the memory subsystem answers every request it was handed exactly once, in order, OK or failed; the device acknowledges every '
        'persist packet exactly once (result 0 or 1) and sends no unsolicited acknowledgement; no disconnect while a request is in progress',
        'store requests: nr_of_base_stations >= 1, keys of geos/calibs inside 0..nr_of_base_stations-1, a callback is given, '
        'param.set_value does not raise',
        'refusing an overlapping request is not demanded (the code accepts write_geos({}) and helper writes during the persist wait); '
        'a refusal must change nothing and must not happen while nothing is in progress',
        'the order of the memory operations inside one group (geometries / calibrations / base stations read) is not constrained; '
        'continuing or not after a failed write is not constrained',
        'success=True of a store request is taken to promise that the device confirmed persisting (clause PersistResultIgnored)',
    ]
    if replay:
        rp = json.load(open(replay))['replay']
        _init()
        rp['scenario']['bugs'] = detect_as_is()
        t = run_script(rp['scenario'])
        bad, _ = judge(out, [t], 'replay')
        for (i, clause, at) in bad:
            out.violation(signature(t, clause, at), clause, {'event_index': at, 'events': _window(t, at)},
                          {'scenario': rp['scenario']})
        return out.finish()

    # 1. design spec: exhaustive; every bug configuration must be refuted
    cfg = 'MC_LhConfig_quick.cfg' if tier == 'quick' else 'MC_LhConfig_thorough.cfg'
    r = tlc.check('MC_LhConfig.tla', cfg, coverage=(tier == 'thorough'), timeout=3000)
    out.add_tlc(cfg, r)
    for b in BUG_CFGS:
        rb = tlc.expect_violation('MC_LhConfig.tla', 'MC_LhConfig_bug_%s.cfg' % b, timeout=900)
        clause = ''
        if rb.error_trace:
            clause = rb.error_trace[-1][1].get('mon', {}).get('bad', '')
        out.sensitivity['spec:' + b] = 'refuted (%s%s) after %d states' % (rb.violated, ': ' + clause if clause else '', rb.distinct)

    as_is = sorted(detect_as_is())
    out.extra['design_spec_variant_for_conformance'] = as_is or ['repaired']

    # 2. spec -> code: TLC behaviours of the design spec (variant = what the tree does) driven through the real classes
    import shutil
    scratch = tlc.scratch_dir('x01cfg-')
    try:
        nsim = 150 if tier == 'quick' else 1500
        rs, behs = tlc.simulate('MC_LhConfig.tla', variant_cfg('SIM_LhConfig.cfg', as_is, scratch), num=nsim, depth=70,
                                seed=seed % 100000, timeout=1200)
        out.add_tlc('SIM_LhConfig.cfg (-simulate num=%d)' % nsim, rs)
        # ... and a transition tour of a small complete state graph (every edge at least once)
        rt, g = tlc.dump_graph('MC_LhConfig.tla', variant_cfg('TOUR_LhConfig.cfg', as_is, scratch), timeout=900)
        out.add_tlc('TOUR_LhConfig.cfg (-dump)', rt)
    finally:
        shutil.rmtree(scratch, ignore_errors=True)
    paths, covered, total = tlc.tour(g, max_len=60, max_paths=500 if tier == 'quick' else None)
    out.conformance['tour'] = {'states': len(g.states), 'edges': total, 'edges_covered': covered, 'paths': len(paths)}
    behs += [[('Init', g.states[i])] + [(lab, g.states[dst]) for (lab, dst) in path] for (i, path) in paths]
    jobs = [scenario_from_behaviour(b) for b in behs if len(b) > 1]
    res = common.pmap(_replay_job, jobs, init=_init)
    sim_scs = [j[0] for j in jobs]
    sim_traces = [x[0] for x in res]
    matched = sum(1 for x in res if x[1])
    out.conformance['spec_to_code'] = {'behaviours': len(jobs), 'steps': sum(len(j[1]) for j in jobs), 'matched': matched}
    miss = [x[2] for x in res if not x[1]]
    if miss:
        out.conformance['spec_to_code']['first_mismatch'] = miss[0]

    # 3. code -> spec: enumerations + random, judged by the monitor
    fams = [fam_store(tier, rng), fam_helper_writes(tier, rng), fam_reads(tier, rng), fam_pairs(tier, rng), fam_random(tier, rng)]
    scs = [sc for f in fams for sc in f]
    for i, sc in enumerate(scs):
        sc['backend'] = 'memory' if i % 2 else 'fake'     # half of them with the real cflib Memory in the loop
    for sc in sim_scs + scs:
        sc['bugs'] = as_is
    traces = run_scenarios(scs)
    cross = list(range(0, len(scs), 10 if tier == 'quick' else 4))
    other = run_scenarios([dict(scs[i], backend='fake' if scs[i]['backend'] == 'memory' else 'memory') for i in cross])
    agree = sum(1 for i, t in zip(cross, other) if t == traces[i])
    out.conformance['backends'] = {'scenarios_run_on_both': len(cross), 'identical_traces': agree}
    if agree != len(cross):
        j = next(i for i, t in zip(cross, other) if t != traces[i])
        raise common.MachineryError('scripted memory handler and real Memory backend disagree on %r' % scs[j]['steps'])
    for t in sim_traces:
        t['bugs'] = as_is
    all_scs = sim_scs + scs
    all_traces = sim_traces + traces
    bad, drift = judge(out, all_traces, 'real code')
    out.conformance['code_to_spec'] = {'traces': len(all_traces),
                                       'explained_by_design_spec': len(all_traces) - len(drift) - len(bad),
                                       'rejected_by_monitor': len(bad), 'drift': len(drift)}
    if drift:
        i, at = drift[0]
        out.conformance['code_to_spec']['first_drift'] = {'scenario': all_scs[i], 'chunk': at}
    notquiet = [i for i, t in enumerate(all_traces) if not t['quiet'] and all_scs[i]['fam'] != 'tlc-sim']
    if notquiet:
        raise common.MachineryError('scenario did not reach quiescence: %r' % all_scs[notquiet[0]])
    badset = set()
    by_sig = {}
    for (i, clause, at) in bad:
        badset.add(i)
        sig = signature(all_traces[i], clause, at)
        n_ev = (at, sum(len(c['ev']) for c in all_traces[i]['chunks']))
        if sig not in by_sig or n_ev < by_sig[sig][0]:
            by_sig[sig] = (n_ev, i, clause, at)
    for sig, (n_ev, i, clause, at) in sorted(by_sig.items()):          # the shortest witness of every signature
        n = sum(1 for (j, c, a) in bad if signature(all_traces[j], c, a) == sig)
        out.violation(sig, clause, {'event_index': at, 'occurrences': n, 'events': _window(all_traces[i], at)},
                      {'scenario': all_scs[i]})
    out.evaluations = len(all_traces)
    out.distinct = len({json.dumps(sc['steps'], sort_keys=True) + str(sc['nbs']) for sc in all_scs})
    out.extra['families'] = {}
    for sc in all_scs:
        out.extra['families'][sc['fam']] = out.extra['families'].get(sc['fam'], 0) + 1
    out.extra['events_judged'] = sum(len(c['ev']) for t in all_traces for c in t['chunks'])
    out.rule = ('scenario = (nr_of_base_stations, stimulus script: user calls with descriptor and follow-up issued from the completion '
                'callback, memory answers OK/failed, persist acknowledgements 0/1, final pump + probe requests + quiescence); sources: '
                'TLC -simulate behaviours of LhConfig, exhaustive store shapes x write-failure patterns x ack result, helper writes of '
                '0..3 objects in every order x failure patterns, read-all failure patterns, every pair of requests overlapping at every '
                'point, seeded random; distinct = distinct scripts; all non-trivial (>= 1 request)')
    pick = [0, len(sim_scs), len(all_scs) // 2, len(all_scs) - 1]
    out.samples = [{'scenario': all_scs[i]['steps'][:6], 'nbs': all_scs[i]['nbs'],
                    'events': [_short(e) for c in all_traces[i]['chunks'][:6] for e in c['ev']]} for i in pick if i < len(all_scs)]
    out.exhaustive = False

    # 4. sensitivity: in-memory mutants (on scenarios the unchanged tree passes) and a corrupted trace
    good = [i for i in range(len(sim_scs), len(all_scs)) if i not in badset]
    step = max(1, len(good) // (200 if tier == 'quick' else 800))
    sub = [all_scs[i] for i in good[::step]]
    names = sorted(n for n in MUTANTS if not n.startswith('_'))
    mtraces, owner = [], []
    for name in names:
        mt = run_scenarios(sub, mutant=name)
        mtraces += mt
        owner += [name] * len(mt)
    # positive control: with the minimal repairs applied in memory, the scenarios the as-is tree fails (and the sample
    # above) must be accepted by the monitor and explained by the repaired design spec
    ctl = []
    if as_is:
        rej = sorted(i for i in badset if i >= len(sim_scs))
        ctl = [dict(all_scs[i], bugs=[]) for i in rej[::max(1, len(rej) // (300 if tier == 'quick' else 1500))]] + \
              [dict(sc, bugs=[]) for sc in sub[::2]]
        mtraces += run_scenarios(ctl, mutant='_repair')
        owner += ['_repair'] * len(ctl)
    # binding self-test: corrupted copies of one accepted trace
    gi = next(i for i in good if all_scs[i]['fam'] == 'store' and any(e['e'] == 'persist' for c in all_traces[i]['chunks'] for e in c['ev']))
    corruptions = ('drop-mw', 'flip-cb', 'drop-persist')
    for what in corruptions:
        t0 = copy.deepcopy(all_traces[gi])
        _corrupt(t0, what)
        mtraces.append(t0)
        owner.append('corrupt:' + what)
    o2 = common.Outcome('X01', tier, seed)
    mbad, mdrift = judge(o2, mtraces, 'sensitivity', count=False)        # one TLC batch run for all of them
    for name in names:
        clauses = {}
        for (i, c, _a) in mbad:
            if owner[i] == name:
                clauses[c] = clauses.get(c, 0) + 1
        n = sum(clauses.values())
        out.sensitivity['mutant:' + name] = '%d of %d traces rejected %s' % (n, len(sub), dict(sorted(clauses.items())))
        if not n:
            raise common.MachineryError('monitor did not reject in-memory mutant %s' % name)
    if ctl:
        cbad = [(i, c, a) for (i, c, a) in mbad if owner[i] == '_repair']
        cdrift = [i for (i, _a) in mdrift if owner[i] == '_repair']
        out.sensitivity['control:in-memory repair'] = '%d of %d traces rejected, %d not explained by the repaired design spec' % (
            len(cbad), len(ctl), len(cdrift))
        if cbad:
            i, clause, at = cbad[0]
            raise common.MachineryError('monitor rejects the repaired code: %s at event %d of %r' % (
                clause, at, [_short(e) for c in mtraces[i]['chunks'] for e in c['ev']][:at]))
    for what in corruptions:
        cb = [c for (i, c, _a) in mbad if owner[i] == 'corrupt:' + what]
        cd = [i for (i, _a) in mdrift if owner[i] == 'corrupt:' + what]
        out.sensitivity['binding:' + what] = ('monitor: %s' % cb[0]) if cb else ('conformance only' if cd else 'ACCEPTED')
        if not (cb or cd):
            raise common.MachineryError('trace spec accepted a corrupted trace (%s)' % what)
    return out.finish()


def _corrupt(t, what):
    for c in t['chunks']:
        for j, e in enumerate(c['ev']):
            if what == 'drop-mw' and e['e'] == 'mw':
                del c['ev'][j]
                return
            if what == 'flip-cb' and e['e'] == 'cb':
                e['ok'] = 1 - e['ok']
                return
            if what == 'drop-persist' and e['e'] == 'persist':
                del c['ev'][j]
                return
    raise common.MachineryError('nothing to corrupt (%s)' % what)


def _short(e):
    return {k: v for k, v in e.items() if k == 'e' or v not in (0, '', [])}


def _window(t, at, before=14):
    evs = [e for c in t['chunks'] for e in c['ev']]
    return [_short(e) for e in evs[max(0, at - before):at]]
