"""C20 -- link URIs select the right driver and parse to the right radio settings.

spec/UriProps.tla (the property), spec/Uri.tla (design: init_drivers / get_link_driver / RadioDriver.parse_uri,
connect, scan_interface / Crazyflie.open_link), spec/UriTrace.tla (monitor + conformance for sessions
recorded from the real code).

A URI is a token record; `render` (token -> string) is the only trusted harness step besides the fakes at
the module boundary: a fake USB bus (usb.core.find -> fake Crazyradio dongles / Crazyflie-over-USB devices
that record vendor requests and bulk writes), fake CPX transports for tcp:// and serial://, a fake socket
module for udp://, a fake prrt module, a fake serial.tools.list_ports.  /repo is never edited."""
import array
import contextlib
import copy
import inspect
import io
import json
import random
import re
import textwrap

from .. import common, tlc, vsched
from ..vsched import vqueue, vtime

SERIALS = ['A1B2C3D4E5', '0000000005', 'FFFFFFFF00', 'E7E7E7E7E7', '00000000AB']
IDENT = list(range(len(SERIALS)))
RATES = ['250K', '1M', '2M']
DEFAULT_ADDR = [0xE7] * 5
KNOWN = ['radio', 'usb', 'serial', 'udp', 'prrt', 'tcp']
DRIVER_OF = {'radio': 'RadioDriver', 'usb': 'UsbDriver', 'serial': 'SerialDriver', 'udp': 'UdpDriver',
             'prrt': 'PrrtDriver', 'tcp': 'TcpDriver'}
RADIO_MALFORMS = ['chan_alpha', 'addr_nonhex', 'addr_long', 'rl_alpha', 'dongle_empty']
MIN_NF = {'chan_alpha': 1, 'addr_nonhex': 3, 'addr_long': 3}

# canned strings of the other schemes: token field `chan` selects the variant
OK_FORMS = {
    'serial': ['serial://ttyUSB0'],
    'udp': ['udp://127.0.0.1:7777', 'udp://localhost:1234'],
    'prrt': ['prrt://10.8.0.208:5000', 'prrt://10.8.0.208:5000/50'],
    'tcp': ['tcp://192.168.4.1:5000', 'tcp://aideck.local:5000'],
}
BAD_FORMS = {
    'usb': ['usb://abc', 'usb://0/1', 'usb://', 'usb://-1'],
    'serial': ['serial://tty$USB0', 'serial://'],
    'udp': ['udp://127.0.0.1:99999', 'udp://127.0.0.1:port'],
    'prrt': ['prrt://nonsense', 'prrt://10.8.0.208', 'prrt://1.2.3.4:5000/abc'],
    'tcp': ['tcp://192.168.4.1:port', 'tcp://192.168.4.1:99999'],
}
UNKNOWN_FORMS = {'bogus': 'bogus://0/80/2M', 'radiox': 'radiox://0/80/2M', 'empty': '', 'noslash': 'radio:/0/80/2M',
                 'http': 'http://localhost/', 'plain': '0/80/2M', 'debug': 'debug://0/0'}


# --------------------------------------------------------------------------- tokens
def tok(scheme='radio', wf='ok', dk='num', dn=0, nf=0, chan=0, rate='2M', addr=(), rl=()):
    return {'scheme': scheme, 'wf': wf, 'dk': dk, 'dn': dn, 'nf': nf, 'chan': chan, 'rate': rate,
            'addr': [dict(d) for d in addr], 'rl': list(rl)}


def digits(s):
    """'e7A' -> digit tokens (case flag only for a-f)."""
    return [{'d': int(c, 16), 'up': c in 'ABCDEF'} for c in s]


def hexstr(ds):
    return ''.join(('%X' if d['up'] else '%x') % d['d'] for d in ds)


def render(u):
    """token -> the string handed to the code (trusted)."""
    s = u['scheme']
    if s == 'radio':
        if u['wf'] == 'dongle_empty':
            out = 'radio://'
        elif u['dk'] == 'num':
            out = 'radio://%d' % u['dn']
        else:
            out = 'radio://' + SERIALS[ENV.get('order', IDENT)[u['dn'] - 1]]     # serial of the dn-th attached dongle
        if u['nf'] >= 1:
            out += '/' + ('abc' if u['wf'] == 'chan_alpha' else '%d' % u['chan'])
        if u['nf'] >= 2:
            out += '/' + u['rate']
        if u['nf'] >= 3:
            if u['wf'] == 'addr_nonhex':
                out += '/G' + hexstr(u['addr'])[1:]
            elif u['wf'] == 'addr_long':
                out += '/E7E7E7E7E7E7'
            else:
                out += '/' + hexstr(u['addr'])
        if u['wf'] == 'rl_alpha':
            out += '?rate_limit=abc'
        elif u['rl']:
            out += '?rate_limit=%d' % u['rl'][0]
        return out
    if s == 'usb' and u['wf'] == 'ok':
        return 'usb://%d' % u['dn']
    if s in KNOWN:
        forms = OK_FORMS[s] if u['wf'] == 'ok' else BAD_FORMS[s]
        return forms[u['chan'] % len(forms)]
    return UNKNOWN_FORMS.get(s, s + '://0/80/2M')


_SCAN_RE = re.compile(r'^radio://(\d+)/(\d+)/(250K|1M|2M)(?:/([0-9A-Fa-f]{1,10}))?$')


def tokenize_scan_uri(s):
    """Reported scan URI -> token (inverse of render on the shapes a scan may report); used by the
    conformance comparison only -- the verdict uses the real parse_uri of the string."""
    m = _SCAN_RE.match(s)
    if not m:
        return tok(scheme='untokenizable')
    return tok(dn=int(m.group(1)), nf=3 if m.group(4) else 2, chan=int(m.group(2)), rate=m.group(3),
               addr=digits(m.group(4) or ''))


# --------------------------------------------------------------------------- fakes at the module boundary
ENV = {'env': None, 'dongles': [], 'cfusb': [], 'log': [], 'resp': None, 'acked': []}


class FakeDongle:
    """A Crazyradio as seen through pyusb: records SET_RADIO_CHANNEL/ADDRESS/DATA_RATE vendor requests and
    bulk writes; during a scan it acknowledges probes sent on a (channel, rate, address) of a Crazyflie in range."""
    idVendor, idProduct = 0x1915, 0x7777
    manufacturer = 'Bitcraze AB'
    bcdDevice = 0x0099

    def __init__(self, idx, serial_idx=None):
        self.idx = idx
        self.serial_number = SERIALS[idx if serial_idx is None else serial_idx]
        self.chan = self.rate = self.addr = None
        self.last_acked = False

    def set_configuration(self, *a):
        pass

    def reset(self):
        pass

    def ctrl_transfer(self, bmRequestType, bRequest, wValue=0, wIndex=0, data_or_wLength=None, timeout=None):
        if bRequest == 0x01:
            self.chan = wValue
        elif bRequest == 0x02:
            self.addr = [int(x) for x in data_or_wLength]
        elif bRequest == 0x03:
            self.rate = wValue

    def write(self, endpoint, data, timeout=None):
        ENV['log'].append({'dev': self.idx, 'chan': self.chan, 'rate': self.rate, 'addr': list(self.addr or [])})
        self.last_acked = False
        if ENV['resp'] is not None:
            key = (self.chan, self.rate, tuple(self.addr or ()))
            if key in ENV['resp']:
                self.last_acked = True
                ENV['acked'].append({'chan': self.chan, 'rate': self.rate, 'addr': list(self.addr)})

    def read(self, ep, n, timeout=None):
        return array.array('B', [1 if self.last_acked else 0])


class FakeCfUsb:
    idVendor, idProduct = 0x0483, 0x5740
    manufacturer = 'Bitcraze AB'
    bcdDevice = 0x0100
    port_number = 1

    def set_configuration(self, *a):
        pass

    def reset(self):
        pass

    def ctrl_transfer(self, *a, **k):
        pass

    def write(self, endpoint, data, timeout=None):
        pass

    def read(self, ep, n, timeout=None):
        import usb.core
        vtime.sleep(0.02)          # the 20 ms USB read timeout (a yield point for the scheduler)
        e = usb.core.USBError('timeout')
        e.backend_error_code = -7
        raise e


def _find(idVendor=None, idProduct=None, find_all=0, backend=None, **kw):
    if (idVendor, idProduct) == (0x1915, 0x7777):
        return list(ENV['dongles'])
    if (idVendor, idProduct) == (0x0483, 0x5740):
        return list(ENV['cfusb'])
    return []


class FakeTransport:
    """CPX transport for tcp:// (host, port) and serial:// (device, baud): nothing ever arrives."""

    def __init__(self, a, b):
        self.args = (a, b)
        if a is None or (isinstance(b, int) and not 0 <= b <= 65535):
            raise OSError('cannot connect to %r' % (self.args,))
        self.q = vqueue.Queue()

    def writePacket(self, packet):
        pass

    def readPacket(self):
        return self.q.get()

    def disconnect(self):
        pass


class FakeUart(FakeTransport):
    def __init__(self, device, baud):
        self.args = (device, baud)
        self.q = vqueue.Queue()


class _FakeSock:
    def __init__(self, *a):
        self.q = vqueue.Queue()

    def connect(self, addr):
        host, port = addr
        if not isinstance(host, str) or not isinstance(port, int):
            raise TypeError('bad address %r' % (addr,))
        if not 0 <= port <= 65535:
            raise OverflowError('port out of range')

    def sendto(self, data, addr):
        return len(data)

    def recvfrom(self, n):
        return self.q.get()

    def close(self):
        pass


class FakeSocketModule:
    AF_INET, SOCK_DGRAM, SOCK_STREAM = 2, 2, 1
    socket = _FakeSock


class FakePrrt:
    class TimeoutException(Exception):
        pass

    class PrrtSocket:
        def __init__(self, addr, maximum_payload_size=0, target_delay=0):
            self.q = vqueue.Queue()

        def connect(self, addr):
            pass

        def send(self, data):
            pass

        def receive_asap(self):
            raise FakePrrt.TimeoutException()

        def receive_asap_wait(self):
            return self.q.get()

        def receive_asap_timedwait(self, deadline):
            vtime.sleep(0.05)
            raise FakePrrt.TimeoutException()


class _Port:
    def __init__(self, name):
        self.name = name
        self.device = '/dev/' + name


class FakeListPorts:
    @staticmethod
    def comports():
        return [_Port('ttyUSB0')]


_installed = False


def install():
    """Once per process, after load_cflib: replace the OS-facing names the drivers use."""
    global _installed
    if _installed:
        return
    vsched.load_cflib()
    import libusb_package
    import usb.core
    import usb.util
    import cflib.crtp.tcpdriver as tcpd
    import cflib.crtp.serialdriver as serd
    import cflib.crtp.udpdriver as udpd
    usb.core.find = _find
    usb.util.dispose_resources = lambda dev: None
    usb.util.claim_interface = lambda dev, i: None
    libusb_package.get_libusb1_backend = lambda *a, **k: None
    tcpd.SocketTransport = FakeTransport
    serd.UARTTransport = FakeUart
    udpd.socket = FakeSocketModule
    _installed = True


def set_env(env):
    """env = {nd, nusb, prrt, pyserial, serial}: attach the devices / optional modules, rebuild CLASSES with the
    real init_drivers."""
    import cflib.crtp as crtp
    import cflib.crtp.serialdriver as serd
    import cflib.crtp.prrtdriver as prd
    ENV['env'] = env
    # which physical dongle sits at which position differs from session to session (a dongle keeps its
    # serial number, not its enumeration index): ENV['order'][position] = index into SERIALS
    order = ENV.get('order', IDENT)
    ENV['dongles'] = [FakeDongle(i, order[i]) for i in range(env['nd'])]
    ENV['cfusb'] = [FakeCfUsb() for _ in range(env['nusb'])]
    if env['pyserial']:
        serd.list_ports = FakeListPorts
        serd.found_serial = True
    else:
        serd.__dict__.pop('list_ports', None)     # as after the failed `import serial.tools.list_ports`
        serd.found_serial = False
    if env['prrt']:
        prd.prrt = FakePrrt
        prd.prrt_installed = True
    else:
        prd.__dict__.pop('prrt', None)
        prd.prrt_installed = False
    del crtp.CLASSES[:]
    crtp.init_drivers(enable_serial_driver=env['serial'])
    return [c.__name__ for c in crtp.CLASSES]


def _fresh_radio_state():
    import cflib.crtp.radiodriver as rd
    from ..vsched import vthreading
    rd.RadioManager._radios = []
    rd.RadioManager._lock = vthreading.Semaphore(1)
    ENV['log'] = []
    ENV['acked'] = []
    ENV['resp'] = None
    for d in ENV['dongles']:
        d.chan = d.rate = d.addr = None
        d.last_acked = False


# --------------------------------------------------------------------------- driving the real code
def _parse_obs(s):
    """Real RadioDriver.parse_uri(s) -> observation record (ints / int sequences only)."""
    from cflib.crtp.radiodriver import RadioDriver
    try:
        res = RadioDriver.parse_uri(s)
    except Exception as e:
        return {'ok': False, 'exc': type(e).__name__, 'devid': 0, 'chan': 0, 'rate': 0, 'addr': [], 'rl': []}
    try:
        devid, channel, datarate, address, rate_limit = res
        obs = {'ok': True, 'exc': 'none', 'devid': _int(devid), 'chan': _int(channel), 'rate': _int(datarate),
               'addr': [_int(b) for b in address], 'rl': [] if rate_limit is None else [_int(rate_limit)]}
    except Exception as e:
        return {'ok': False, 'exc': 'BadResult:' + type(e).__name__, 'devid': 0, 'chan': 0, 'rate': 0,
                'addr': [], 'rl': []}
    return obs


def _int(x):
    if isinstance(x, bool) or not isinstance(x, int):
        raise TypeError('not an int: %r' % (x,))
    if not -2 ** 31 < x < 2 ** 31:
        raise OverflowError(x)
    return x


NO_AP = {'present': False, 'dev': 0, 'chan': 0, 'rate': 0, 'addr': []}


def _applied():
    if not ENV['log']:
        return dict(NO_AP)
    w = ENV['log'][0]
    return {'present': True, 'dev': w['dev'], 'chan': -1 if w['chan'] is None else w['chan'],
            'rate': -1 if w['rate'] is None else w['rate'], 'addr': w['addr']}


def _under_sched(fn, want_write=None, horizon=4.0):
    """Run fn in a virtual user thread with every cflib thread under the scheduler.  After fn returned, keep
    running until the first bulk write reached a dongle if want_write(result) says one is due."""
    sink = io.StringIO()
    with contextlib.redirect_stdout(sink):
        with vsched.scheduler() as s:
            box = {}

            def user():
                box['v'] = fn()
            t = s.spawn(user, 'user')

            def done():
                if not t.finished:
                    return False
                if t.dead or 'v' not in box:
                    return True
                return not (want_write and want_write(box['v'])) or bool(ENV['log'])
            st = s.run(until=done, horizon=horizon)
            if t.dead or 'v' not in box:
                raise common.MachineryError('harness user thread did not complete (%s): %s' % (st, t.dead))
    return box['v']


MEM_HEADROOM = 512 << 20


@contextlib.contextmanager
def _mem_budget():
    """Budget for one real call: the process may grow by MEM_HEADROOM of address space, beyond that the
    code under test gets a MemoryError (recorded like any other exception it raises).  A URI that a changed
    tree mis-reads as a huge device index makes RadioManager.open pad a list up to that index; without the
    budget thousands of such calls in 16 workers do not terminate in reasonable time."""
    import resource
    soft, hard = resource.getrlimit(resource.RLIMIT_AS)
    with open('/proc/self/statm') as f:
        cur = int(f.read().split()[0]) * resource.getpagesize()
    lim = cur + MEM_HEADROOM
    if hard != resource.RLIM_INFINITY:
        lim = min(lim, hard)
    resource.setrlimit(resource.RLIMIT_AS, (lim, hard))
    try:
        yield
    finally:
        resource.setrlimit(resource.RLIMIT_AS, (soft, hard))


def run_event(o):
    """One real call -> one event of the trace (k = enumeration order of the dongles at that moment,
    s = the string handed to the code: both only for the report / the replay, not for the monitor)."""
    with _mem_budget():
        ev = _run_event(o)
    ev['k'] = ENV.get('order', IDENT)[0]
    return ev


def _run_event(o):
    import cflib.crtp as crtp
    _fresh_radio_state()
    kind = o['e']
    if kind == 'scan':
        return _run_scan(o)
    u = o['u']
    s = render(u)
    ev = {'e': kind, 'u': u, 's': s}
    if kind == 'parse':
        ev['r'] = _parse_obs(s)
    elif kind == 'claim':
        def fn():
            out = []
            for cls in list(crtp.CLASSES):
                try:
                    cls().connect(s, None, None)
                    out.append({'drv': cls.__name__, 'out': 'ok'})
                except crtp.WrongUriType:
                    out.append({'drv': cls.__name__, 'out': 'wrong'})
                except Exception:
                    out.append({'drv': cls.__name__, 'out': 'error'})
            return out
        ev['c'] = _under_sched(fn)
    elif kind == 'lookup':
        def fn():
            try:
                link = crtp.get_link_driver(s, None, None)
            except Exception as e:
                return ('exc', type(e).__name__, [])
            if link is None:
                return ('none', 'none', [])
            rl = getattr(link, 'rate_limit', None)
            return (type(link).__name__, 'none', [] if rl is None else [_int(rl)])
        sel, exc, lrl = _under_sched(fn, want_write=lambda v: v[0] == 'RadioDriver')
        ev.update({'sel': sel, 'exc': exc, 'ap': _applied(), 'lrl': lrl})
    elif kind == 'open':
        from cflib.crazyflie import Crazyflie
        failed = []

        def fn():
            cf = Crazyflie(rw_cache=None)
            cf.connection_failed.add_callback(lambda uri, msg: failed.append(uri))
            escaped = False
            try:
                cf.open_link(s)
            except BaseException as e:
                if isinstance(e, vsched.Kill):
                    raise
                escaped = True
            link = cf.link
            rl = getattr(link, 'rate_limit', None)
            return (escaped, 'none' if link is None else type(link).__name__, [] if rl is None else [_int(rl)])
        escaped, link, lrl = _under_sched(fn, want_write=lambda v: v[1] == 'RadioDriver')
        ev.update({'escaped': escaped, 'failed': len(failed), 'link': link, 'ap': _applied(), 'lrl': lrl})
    else:
        raise common.MachineryError('unknown op %r' % kind)
    return ev


def _run_scan(o):
    from cflib.crtp.radiodriver import RadioDriver
    sa = o['sa']
    resp = o['resp']
    ENV['resp'] = {(r['chan'], r['rate'], tuple(r['addr'])) for r in resp}
    address = None
    if sa:
        address = 0
        for b in sa:
            address = address * 256 + b

    def fn():
        return RadioDriver().scan_interface(address)
    found = _under_sched(fn, horizon=30.0)
    uris = [f[0] for f in found]
    return {'e': 'scan', 'sa': list(sa), 'resp': resp, 'acked': list(ENV['acked']),
            'found': [tokenize_scan_uri(x) for x in uris], 'rep': [_parse_obs(x) for x in uris],
            'uris': uris[:6]}


# --------------------------------------------------------------------------- in-memory mutants
def _mutate(obj_path, edits):
    """Source-level mutant of one function of the code under test, compiled in its own module's namespace and
    installed in this process only.  edits = [(old, new, required)].  Returns an undo function."""
    import importlib
    modname, clsname, fname = obj_path
    mod = importlib.import_module(modname)
    owner = getattr(mod, clsname) if clsname else mod
    orig_attr = owner.__dict__[fname]
    fn = orig_attr.__func__ if isinstance(orig_attr, staticmethod) else orig_attr
    src = getattr(fn, '_c20_src', None) or textwrap.dedent(inspect.getsource(fn))
    for (old, new, required) in edits:
        if old not in src:
            if required:
                raise common.MachineryError('mutant site %r not found in %s.%s' % (old, clsname, fname))
            continue
        src = src.replace(old, new)
    if src.startswith('@staticmethod'):
        src = src.split('\n', 1)[1]
    ns = {}
    exec(compile(src, '<mutant %s>' % fname, 'exec'), mod.__dict__, ns)
    new_fn = ns[fname]
    new_fn._c20_src = src
    setattr(owner, fname, staticmethod(new_fn) if isinstance(orig_attr, staticmethod) else new_fn)

    def undo():
        setattr(owner, fname, orig_attr)
    return undo


_RD = 'cflib.crtp.radiodriver'
# the minimal repair of the defect this check finds on the tree as given (parsed_path of "radio://0" is [''])
FIX_EMPTY_PATH = ("parsed_path = parsed_uri.path.strip('/').split('/')",
                  "parsed_path = parsed_uri.path.strip('/').split('/') if parsed_uri.path.strip('/') else []",
                  False)
PATCHES = {'fix_empty_path': ((_RD, 'RadioDriver', 'parse_uri'), [FIX_EMPTY_PATH])}
MUTANTS = {
    'pad_right': ((_RD, 'RadioDriver', 'parse_uri'), "'{:0>10}'", "'{:0<10}'"),
    'reverse_addr': ((_RD, 'RadioDriver', 'parse_uri'), 'binascii.unhexlify(addr))', 'binascii.unhexlify(addr)[::-1])'),
    # the default only matters once "radio://0" gets past the path split: the mutant carries the one-line repair
    'default_chan_80': ((_RD, 'RadioDriver', 'parse_uri'), 'channel = 2', 'channel = 80', FIX_EMPTY_PATH),
    'rate_250K_literal_typo': ((_RD, 'RadioDriver', 'parse_uri'), "parsed_path[1] == '250K'", "parsed_path[1] == '250k'"),
    'serial_len_boundary': ((_RD, 'RadioDriver', 'parse_uri'), 'len(parsed_uri.netloc) < 10', 'len(parsed_uri.netloc) <= 10'),
    'rate_limit_ignored': ((_RD, 'RadioDriver', 'parse_uri'), "'rate_limit' in parsed_query", "'ratelimit' in parsed_query"),
    'connect_no_set_address': ((_RD, 'RadioDriver', 'connect'), 'self._radio.set_address(address)', 'pass'),
    'scan_drops_address': ((_RD, 'RadioDriver', 'scan_interface'), 'address is None or address == DEFAULT_ADDR', 'True or address == DEFAULT_ADDR'),
    'scan_addr_reversed': ((_RD, 'RadioDriver', 'scan_interface'), 'binascii.unhexlify(addr))', 'binascii.unhexlify(addr)[::-1])'),
    'tcp_claims_udp': (('cflib.crtp.tcpdriver', 'TcpDriver', 'connect'), "'^tcp://'", "'^udp://'"),
    'lookup_break_on_wrong_type': (('cflib.crtp', None, 'get_link_driver'), 'continue', 'break'),
    'open_link_narrow_except': (('cflib.crazyflie', 'Crazyflie', 'open_link'), 'except Exception as ex:', 'except KeyError as ex:'),
}


def mutant_applicable(name):
    """False when the code under test no longer contains the text a mutant patches (then it is skipped)."""
    import importlib
    (modname, clsname, fname), old = MUTANTS[name][0], MUTANTS[name][1]
    mod = importlib.import_module(modname)
    owner = getattr(mod, clsname) if clsname else mod
    attr = owner.__dict__[fname]
    fn = attr.__func__ if isinstance(attr, staticmethod) else attr
    return old in textwrap.dedent(inspect.getsource(fn))


def install_mutant(name):
    if name in PATCHES:
        return _mutate(*PATCHES[name])
    spec = MUTANTS[name]
    return _mutate(spec[0], [(spec[1], spec[2], True)] + list(spec[3:]))


# --------------------------------------------------------------------------- sessions
def execute(session, mutant=None):
    """session = {env, ops:[{e, u | sa, resp}]} -> trace dict (id is set by the caller)."""
    install()
    import zlib
    k = session.get('order')
    if k is None:
        k = zlib.crc32(repr((session['env'], len(session['ops']))).encode()) % len(SERIALS)
    ENV['order'] = IDENT[k:] + IDENT[:k]
    undo = install_mutant(mutant) if mutant else None
    try:
        classes = set_env(session['env'])
        evs = [run_event(o) for o in session['ops']]
        # replug: the dongles are enumerated in another order (a dongle keeps its serial number, not
        # its index) and the serial-number URIs seen so far are used again -- the SAME strings now
        # name other indices.  Anything remembered from the first parse shows here.
        ser_ops = [o for o in session['ops'] if o['e'] in ('parse', 'lookup', 'open') and o.get('u', {}).get('scheme') == 'radio'
                   and o['u'].get('dk') == 'serial' and o['u'].get('wf') == 'ok'
                   and 1 <= o['u']['dn'] <= session['env']['nd']][:6]
        if ser_ops and session.get('replug', True):
            order1 = ENV['order']
            order2 = order1[1:] + order1[:1]
            ENV['order'] = order2
            set_env(session['env'])
            for o in ser_ops:
                pos = order2.index(order1[o['u']['dn'] - 1])
                if pos < session['env']['nd']:
                    evs.append(run_event(dict(o, u=dict(o['u'], dn=pos + 1))))
    finally:
        if undo:
            undo()
    return {'env': session['env'], 'classes': classes, 'ev': evs,
            'session': {k: v for k, v in session.items() if k in ('env', 'ops', 'order', 'replug')}}


def _exec_job(job):
    session, mutant = job
    return execute(session, mutant)


def run_sessions(sessions, mutant=None):
    return common.pmap(_exec_job, [(s, mutant) for s in sessions], init=install, maxtasks=None)


def mkenv(nd=2, nusb=1, prrt=False, pyserial=False, serial=False):
    return {'nd': nd, 'nusb': nusb, 'prrt': prrt, 'pyserial': pyserial, 'serial': serial}


ENVS = [mkenv(2, 1, False, False, False), mkenv(2, 1, True, True, True), mkenv(3, 1, False, True, True),
        mkenv(5, 0, True, False, False), mkenv(1, 1, True, False, True), mkenv(0, 0, False, False, True)]


def reachable(u, env):
    s = u['scheme']
    if s == 'radio':
        return u['dn'] < env['nd'] if u['dk'] == 'num' else 1 <= u['dn'] <= env['nd']
    if s == 'usb':
        return u['dn'] < env['nusb']
    if s == 'serial':
        return env['pyserial']
    if s == 'prrt':
        return env['prrt']
    return True


def open_allowed(u, classes_has):
    """open_link on a well-formed URI of a non-radio scheme continues into connection set-up (other
    properties); the check opens only radio URIs and URIs that must fail."""
    return u['scheme'] == 'radio' or u['scheme'] not in KNOWN or u['wf'] != 'ok' or not classes_has(u['scheme'])


def _classes_has(env):
    def f(scheme):
        return scheme != 'serial' or env['serial']
    return f


def radio_shapes(dongles, chans, addrs, rls, rates=RATES):
    """Every well-formed radio token over the given sets, all four field-omission shapes."""
    for (dk, dn) in dongles:
        for rl in rls:
            yield tok(dk=dk, dn=dn, nf=0, rl=rl)
            for c in chans:
                yield tok(dk=dk, dn=dn, nf=1, chan=c, rl=rl)
                for r in rates:
                    yield tok(dk=dk, dn=dn, nf=2, chan=c, rate=r, rl=rl)


def addr_space(tier, rng):
    """Address digit strings: every string over {0,1,7,a,E,F,f} up to length 4 (quick: 2), and for each length
    1..10: E7-style, leading-zero, single-digit-set, alternating-case and random strings."""
    alpha = '017aEFf'
    out = []
    maxlen = 2 if tier == 'quick' else 4
    import itertools
    for k in range(1, maxlen + 1):
        out += [''.join(p) for p in itertools.product(alpha, repeat=k)]
    for k in range(1, 11):
        out += [('E7' * 5)[:k], ('e7' * 5)[-k:], '0' * k, '0' * (k - 1) + '1', '1' + '0' * (k - 1),
                ('aB' * 5)[:k], 'F' * k, ('0123456789')[:k], ('fEdCbA9876')[:k]]
        for _ in range(4 if tier == 'quick' else 40):
            out.append(''.join(rng.choice('0123456789abcdefABCDEF') for _ in range(k)))
    seen, res = set(), []
    for a in out:
        if a and a not in seen:
            seen.add(a)
            res.append(a)
    return res


def build_sessions(tier, rng):
    """Own enumeration (code -> spec).  Returns (sessions, description of the exhaustive part)."""
    sessions = []
    quick = tier == 'quick'
    addrs = addr_space(tier, rng)
    # --- A. parse_uri, exhaustive over: dongle ids x shapes nf 0..2 x channels 0..125 x 3 rates x rate limits
    env = mkenv(5, 1, True, True, True)
    dongles = [('num', 0), ('num', 1), ('num', 7), ('num', 123456789)] + [('serial', i) for i in range(1, 6)]
    rls = [(), (100,)] if quick else [(), (0,), (1,), (100,), (1000000,)]
    chans = list(range(126))
    ops = []
    for (dk, dn) in (dongles if not quick else dongles[:2] + dongles[4:6]):
        for u in radio_shapes([(dk, dn)], chans, [], rls):
            ops.append({'e': 'parse', 'u': u})
    # --- B. parse_uri with addresses: every address string x channels {0,2,80,125} x 3 rates (quick: rotating)
    k = 0
    for a in addrs:
        combos = [(c, r) for c in (0, 2, 80, 125) for r in RATES]
        if quick:
            combos = [combos[k % len(combos)]]
        for (c, r) in combos:
            k += 1
            dk, dn = dongles[k % len(dongles)]
            ops.append({'e': 'parse', 'u': tok(dk=dk, dn=dn, nf=3, chan=c, rate=r, addr=digits(a), rl=rls[k % len(rls)])})
    # --- C. random well-formed radio URIs
    for _ in range(2000 if quick else 300000):
        ops.append({'e': 'parse', 'u': random_radio(rng, env)})
    # malformed / foreign strings through parse_uri as well (not judged by the parse clause; conformance only)
    for w in RADIO_MALFORMS:
        for nf in range(MIN_NF.get(w, 0), 4):
            ops.append({'e': 'parse', 'u': tok(wf=w, nf=nf, chan=80, addr=digits('E7E7E7E701'))})
    for s in KNOWN[1:] + list(UNKNOWN_FORMS):
        ops.append({'e': 'parse', 'u': tok(scheme=s)})
    exhaustive_parse = len(ops)
    for i in range(0, len(ops), 400):
        sessions.append({'env': env, 'ops': ops[i:i + 400]})
    # --- D. every scheme x well-formed/malformed variant x every environment (driver lists with and without the
    #        optional drivers) through claim / lookup / open
    for env in ENVS:
        has = _classes_has(env)
        toks = []
        for s in KNOWN[1:]:
            if s == 'usb':
                toks += [tok(scheme='usb', dn=0), tok(scheme='usb', dn=1)]
            else:
                toks += [tok(scheme=s, chan=i) for i in range(len(OK_FORMS[s]))]
            toks += [tok(scheme=s, wf='bad', chan=i) for i in range(len(BAD_FORMS[s]))]
        toks += [tok(scheme=s) for s in UNKNOWN_FORMS]
        for w in RADIO_MALFORMS:
            for nf in range(MIN_NF.get(w, 0), 4):
                for rl in ((), (50,)):
                    toks.append(tok(wf=w, dn=0, nf=nf, chan=80, rate='1M', addr=digits('E7E7E7E701'), rl=rl))
        # radio: all shapes on every dongle id incl. one that is not attached
        dn_set = [('num', i) for i in range(0, env['nd'] + 1)] + [('serial', i) for i in range(1, env['nd'] + 1)]
        for (dk, dn) in dn_set:
            toks += list(radio_shapes([(dk, dn)], [0, 2, 80, 125] if not quick else [80], [], [(), (100,)]))
            for a in (addrs[::max(1, len(addrs) // (12 if quick else 600))]):
                toks.append(tok(dk=dk, dn=dn, nf=3, chan=rng.choice([0, 2, 80, 125]), rate=rng.choice(RATES),
                                addr=digits(a), rl=rng.choice([(), (25,)])))
        for _ in range(20 if quick else 1500):
            toks.append(random_radio(rng, env))
        ops = []
        for u in toks:
            ops.append({'e': 'claim', 'u': u})
            ops.append({'e': 'lookup', 'u': u})
            if open_allowed(u, has):
                ops.append({'e': 'open', 'u': u})
        for i in range(0, len(ops), 60):
            sessions.append({'env': env, 'ops': ops[i:i + 60]})
    # --- E. scans.  In range: Crazyflies on the scanned address and other members of the fleet on other
    #        addresses -- an unrelated one and the neighbours of the scanned address (fleet_neighbours); none of
    #        the others may show up under a URI that parses to an address it does not sit on.
    scan_addrs = [[], DEFAULT_ADDR, [0, 0, 0, 0, 1], [0xE7, 0xE7, 0xE7, 0xE7, 1], [0, 0, 0, 0, 0], [0, 0x0A, 0, 0, 0],
                  [1, 2, 3, 4, 5], [0xFF] * 5, [0x0E, 0x7E, 0x7E, 0x7E, 0x70], [0, 0, 0, 0x0A, 0xB5]]
    nscan = 30 if quick else 2000
    ops = []
    for i in range(nscan):
        sa = scan_addrs[i % len(scan_addrs)] if i < 2 * len(scan_addrs) else \
            [rng.choice([0, 0, rng.randrange(256)]) for _ in range(5)]
        eff = sa or DEFAULT_ADDR
        resp = []
        for _ in range(rng.randint(0, 4)):
            resp.append({'chan': rng.choice([0, 2, 80, 125, rng.randrange(126)]), 'rate': rng.randrange(3), 'addr': list(eff)})
        others = fleet_neighbours(eff)
        if len(scan_addrs) <= i < 2 * len(scan_addrs):
            pick = others                                   # second pass over the fixed addresses: the whole fleet
        else:
            pick = [a for a in others if rng.random() < 0.3]
        for a in pick:      # a Crazyflie on another address must not be reported
            resp.append({'chan': rng.randrange(126), 'rate': rng.randrange(3), 'addr': a})
        resp = [r for j, r in enumerate(resp) if r not in resp[:j]]
        ops.append({'e': 'scan', 'sa': list(sa), 'resp': resp})
    for i in range(0, len(ops), 6):
        sessions.append({'env': ENVS[(i // 6) % 5], 'ops': ops[i:i + 6]})
    sessions.append({'env': ENVS[5], 'ops': ops[:2]})      # no dongle attached
    return sessions, exhaustive_parse


def fleet_neighbours(a):
    """Addresses of other Crazyflies of a fleet relative to address a: one bit off in every byte, last byte + 1,
    bytes mirrored, bytes rotated by one, nibbles swapped in every byte, shifted by one hex digit, and the default
    address -- distinct from a and from each other."""
    cand = [[b ^ 1 for b in a], a[:4] + [(a[4] + 1) % 256], a[::-1], a[1:] + a[:1],
            [((b << 4) | (b >> 4)) & 0xFF for b in a],
            [((a[i] << 4) | ((a[i + 1] >> 4) if i < 4 else 0)) & 0xFF for i in range(5)], list(DEFAULT_ADDR)]
    out = []
    for c in cand:
        if c != a and c not in out:
            out.append(c)
    return out


def random_radio(rng, env):
    nd = max(env['nd'], 1)
    if rng.random() < 0.4:
        dk, dn = 'serial', rng.randint(1, nd)
    else:
        dk, dn = 'num', rng.randrange(nd)
    nf = rng.randrange(4)
    a = ''.join(rng.choice('0123456789abcdefABCDEF') for _ in range(rng.randint(1, 10)))
    rl = () if rng.random() < 0.5 else (rng.choice([1, 10, 100, 500, rng.randrange(1, 100000)]),)
    return tok(dk=dk, dn=dn, nf=nf, chan=rng.randrange(126) if nf >= 1 else 0,
               rate=rng.choice(RATES) if nf >= 2 else '2M', addr=digits(a) if nf >= 3 else (), rl=rl)


# --------------------------------------------------------------------------- spec -> code
def session_from_behaviour(beh):
    """TLC behaviour of Uri.tla -> (session, [(event index, op, machine state at the end of the operation)])."""
    env, ops, expect = None, [], []
    for _label, st in beh:
        if st['stage'] != 'setup' and env is None:
            env = dict(st['env'])
        if st['stage'] == 'run' and st['m']['pc'] == 'done':       # exactly one such state per operation
            if st['op'] == 'scan':
                resp = [{'chan': r['chan'], 'rate': r['rate'], 'addr': list(r['addr'])} for r in map(dict, st['resp'])]
                resp.sort(key=lambda r: (r['rate'], r['chan'], r['addr']))
                ops.append({'e': 'scan', 'sa': list(st['sa']), 'resp': resp})
            else:
                ops.append({'e': st['op'], 'u': _tok_from_tla(st['u'])})
            expect.append((len(ops) - 1, st['op'], st['m']))
    return {'env': env, 'ops': ops}, expect


def _tok_from_tla(u):
    return tok(scheme=u['scheme'], wf=u['wf'], dk=u['dk'], dn=u['dn'], nf=u['nf'], chan=u['chan'], rate=u['rate'],
               addr=[{'d': d['d'], 'up': d['up']} for d in u['addr']], rl=list(u['rl']))


def _norm(v):
    if isinstance(v, (list, tuple)):
        return [_norm(x) for x in v]
    if isinstance(v, dict):
        return {k: _norm(x) for k, x in v.items()}
    return v


def matches_spec(ev, opname, m):
    """Projection of the real observation == the spec's machine state at the end of the operation."""
    m = _norm(m)
    if opname == 'parse':
        if m['exc'] == 'none':
            exp = {'ok': True, 'exc': 'none', 'devid': m['devid'], 'chan': m['chan'], 'rate': m['rate'],
                   'addr': m['addr'], 'rl': m['rl']}
        else:
            exp = {'ok': False, 'exc': m['exc'], 'devid': 0, 'chan': 0, 'rate': 0, 'addr': [], 'rl': []}
        return ev['r'] == exp
    if opname == 'claim':
        return ev['c'] == m['claims']
    sel = 'exc' if m['exc'] != 'none' else m['link']
    if opname == 'lookup':
        return ev['sel'] == sel and ev['ap'] == m['ap'] and ev['lrl'] == m['lrl']
    if opname == 'open':
        return (ev['escaped'], ev['failed'], ev['link'], ev['ap'], ev['lrl']) == \
               (m['escaped'], m['failed'], m['link'], m['ap'], m['lrl'])
    if opname == 'scan':
        return ev['found'] == m['found'] and ev['acked'] == m['acked']
    return False


# --------------------------------------------------------------------------- judging
class Verdict:
    __slots__ = ('trace', 'clause', 'at', 'conf', 'conf_at', 'allbad', 'ndrift')

    def __init__(self, trace, fields):
        self.trace = trace
        self.clause, self.at, self.conf, self.conf_at, allbad, self.ndrift = fields
        # TLC breaks long tuples over several lines; the list of failing events travels as one string
        self.allbad = tlc.parse_value(allbad)


def judge(out, traces, label, count=True):
    """All traces through TLC with UriTrace.tla; one Verdict per trace."""
    for i, t in enumerate(traces):
        t['id'] = i + 1
    slim = [{'id': t['id'], 'env': t['env'], 'classes': t['classes'],
             'ev': [{k: v for k, v in e.items() if k not in ('uris', 's', 'k')} for e in t['ev']]} for t in traces]
    verdicts, st = common.validate_traces('UriTrace.tla', 'TRACE_Uri.cfg', slim)
    if count:
        out.traces += len(traces)
        out.states += st['states']
        out.transitions += st['transitions']
    out.tlc_runs.append({'config': 'TRACE_Uri (%s)' % label, 'states': st['states'],
                         'transitions': st['transitions'], 'wall_s': round(st['wall_s'], 2),
                         'traces': len(traces), 'events': sum(len(t['ev']) for t in traces)})
    return [Verdict(t, verdicts[t['id']]) for t in traces]


def signature(ev, clause):
    """Violated clause + operation + the canonical shape class of the URI (so a different violation of the
    property has a different signature)."""
    if ev['e'] == 'scan':
        kind = 'none' if not ev['sa'] else ('default' if ev['sa'] == DEFAULT_ADDR else
                                            ('leading0' if ev['sa'][0] < 16 else 'full'))
        return '%s/scan/addr_%s' % (clause, kind)
    u = ev['u']
    shape = '%s:%s' % (u['scheme'], u['wf'])
    if u['scheme'] == 'radio':
        shape += ':nf%d' % u['nf']
        if 'Address' in clause and u['nf'] == 3:
            shape += ':alen%d' % len(u['addr'])
        if 'Dongle' in clause:
            shape += ':' + u['dk']
        if 'RateLimit' in clause:
            shape += ':rl%d' % len(u['rl'])
        if 'DataRate' in clause and u['nf'] >= 2:
            shape += ':' + u['rate']
    return '%s/%s/%s' % (clause, ev['e'], shape)


def isolate(env, ev):
    """The single failing operation as a session of its own (the replay)."""
    if ev['e'] == 'scan':
        o = {'e': 'scan', 'sa': ev['sa'], 'resp': ev['resp']}
    else:
        o = {'e': ev['e'], 'u': ev['u']}
    # same enumeration order of the dongles as when the operation was recorded (a serial-number URI is
    # rendered from it), and no replug phase: the single operation on its own
    return {'env': env, 'ops': [o], 'order': ev.get('k', 0), 'replug': False}


def _size(ev):
    u = ev.get('u')
    if u is None:
        return (len(ev['resp']), sum(ev['sa']))
    return (len(u['rl']), u['dk'] != 'num', u['dn'], len(u['addr']), u['chan'])


def report_violations(out, verdicts):
    """Every failing event of every rejected trace; per signature the smallest witness is re-executed on its own
    (that single-operation session is the replay) and must be rejected again."""
    by_sig = {}
    whole_session = {}
    total = 0
    for v in verdicts:
        for (idx, clause) in v.allbad:
            total += 1
            ev = v.trace['ev'][idx - 1]
            sig = signature(ev, clause)
            if v.trace.get('session') is not None and (sig not in whole_session or
                                                       len(v.trace['session']['ops']) < len(whole_session[sig]['ops'])):
                whole_session[sig] = v.trace['session']
            cur = by_sig.get(sig)
            if cur is None or _size(ev) < _size(cur[1]):
                by_sig[sig] = (v.trace['env'], ev, clause, (cur[3] if cur else 0) + 1)
            else:
                by_sig[sig] = cur[:3] + (cur[3] + 1,)
    if not by_sig:
        return 0
    sigs = sorted(by_sig)
    sessions = [isolate(by_sig[s][0], by_sig[s][1]) for s in sigs]
    again = judge(out, run_sessions(sessions), 'isolated witnesses', count=False)
    unreproduced = []
    for sig, sess, v in zip(sigs, sessions, again):
        env, ev, clause, n = by_sig[sig]
        if v.clause == 'ok':
            # not a property of that single operation: it may depend on what the process did before
            # (e.g. something remembered from an earlier parse).  The whole recorded session, run
            # again in a fresh process, must then show it; otherwise the harness itself is suspect.
            whole = whole_session.get(sig)
            v2 = judge(out, common.pmap(_exec_job, [(whole, None)] * 4, init=install, nproc=1)[:1], 'whole-session witness',
                       count=False)[0] if whole else None
            if v2 is None or v2.clause == 'ok':
                # neither the operation alone nor its session shows it again: it depended on what the worker
                # process had executed before that session.  Must not mask the other witnesses of this run.
                unreproduced.append((sig, sess))
                continue
            sess, v = whole, v2
            sig = sig + '/needs-history'
        e2 = v.trace['ev'][v.allbad[0][0] - 1] if v.allbad else v.trace['ev'][0]
        detail = {'uri': e2.get('s'), 'occurrences_this_run': n,
                  'event': {k: x for k, x in e2.items() if k not in ('found', 's', 'k')}, 'env': env,
                  'classes': v.trace['classes']}
        out.violation(signature(e2, v.clause) + ('/needs-history' if sig.endswith('/needs-history') else ''),
                      v.clause, detail, {'session': sess})
    if unreproduced:
        out.extra['rejected_but_not_reproduced'] = [u[0] for u in unreproduced]
        if not out.violations:
            raise common.MachineryError('violation %s did not reproduce in isolation: %r' % unreproduced[0])
    return total


def _tlc_parallel(jobs, nthreads=4):
    """[(fn, args, kwargs)] in threads (each job is a TLC subprocess)."""
    from concurrent.futures import ThreadPoolExecutor
    with ThreadPoolExecutor(nthreads) as ex:
        futs = [ex.submit(fn, *a, **k) for (fn, a, k) in jobs]
        return [f.result() for f in futs]


BUGS = ('empty_path', 'pad_right', 'reverse_addr', 'default_chan', 'two_claim', 'escape', 'scan_no_addr', 'scan_addr_reversed')


def main(tier, seed, replay=None):
    import time as _time
    out = common.Outcome('C20', tier, seed)
    rng = random.Random(seed)
    phase = {}
    out.extra['phase_wall_s'] = phase
    out.assumptions = [
        'token -> string rendering (harness render()) is trusted; dongle serials are 10 upper-case hex characters as reported by the fake USB bus',
        'data rate codes 0/1/2 = 250K/1M/2M and address bytes most significant first (string order) are the Crazyradio USB protocol',
        'during a scan other Crazyflies of the fleet may be in range on other addresses (an unrelated one, the scanned address with bytes mirrored / rotated / nibble-swapped / shifted by one digit, last byte + 1, the default address); they answer only probes sent to their own address',
        'budget: one real call may grow the process by at most 512 MB of address space; beyond that the code under test gets a MemoryError, recorded like any exception it raises',
        'an unrecognised rate token, channels > 125, > 10 address digits, repeated/unknown query options are outside both the well-formed and the malformed set (not judged)',
        '"no driver" = get_link_driver returns None or raises; after open_link Crazyflie.link is None and connection_failed fired at least once',
        'unknown scheme is relative to the configured driver list (serial:// without enable_serial_driver); USE_CFLINK=cpp (needs the cflinkcpp extension) is not covered',
        'open_link is exercised for radio URIs and for URIs that must fail; what follows a successful non-radio lookup is connection set-up (C02)',
    ]
    if replay:
        rp = json.load(open(replay))['replay']
        for v in judge(out, [execute(rp['session'])], 'replay'):
            for (idx, clause) in v.allbad:
                ev = v.trace['ev'][idx - 1]
                out.violation(signature(ev, clause), clause,
                              {'uri': ev.get('s'),
                               'event': {k: x for k, x in ev.items() if k not in ('found', 's', 'k')}, 'env': v.trace['env']},
                              {'session': isolate(v.trace['env'], ev)})
        return out.finish()

    # 1. design spec: exhaustive; every Bug_* variant must be refuted (vacuity guard)
    t0 = _time.time()
    cfg = 'MC_Uri_quick.cfg' if tier == 'quick' else 'MC_Uri_thorough.cfg'
    r = tlc.check('MC_Uri.tla', cfg, coverage=(tier == 'thorough'), timeout=3000, heap='3g')      # ~4M small states: 3g is ample
    out.add_tlc(cfg, r)
    rbs = _tlc_parallel([(tlc.expect_violation, ('MC_Uri.tla', 'MC_Uri_bug_%s.cfg' % b), {'timeout': 600, 'workers': 2})
                         for b in BUGS])
    for b, rb in zip(BUGS, rbs):
        out.sensitivity['spec:Bug=' + b] = 'refuted (%s) after %d states' % (rb.violated, rb.distinct)
    phase['design_spec'] = round(_time.time() - t0, 1)

    # 2. spec -> code: TLC behaviours of Uri.tla replayed into the real code, end-of-operation states compared
    t0 = _time.time()
    nsim = 200 if tier == 'quick' else 1500
    rs, behs = tlc.simulate('MC_Uri.tla', 'SIM_Uri.cfg', num=nsim, depth=100, seed=seed % 100000, timeout=1800)
    out.add_tlc('SIM_Uri.cfg (-simulate num=%d)' % nsim, rs)
    sims = [session_from_behaviour(b) for b in behs]
    sims = [(s, e) for (s, e) in sims if s['env'] is not None and s['ops']]
    sim_traces = run_sessions([s for s, _ in sims])
    n_ops = matched = 0
    mismatches = []
    for (s, expect), t in zip(sims, sim_traces):
        for (idx, opname, m) in expect:
            n_ops += 1
            if matches_spec(t['ev'][idx], opname, m):
                matched += 1
            elif len(mismatches) < 3:
                e = t['ev'][idx]
                mismatches.append({'uri': e.get('s'),
                                   'event': {k: x for k, x in e.items() if k not in ('found', 'u', 's', 'k')}})
    out.conformance['spec_to_code'] = {'behaviours': len(sims), 'operations': n_ops, 'matched': matched}
    if mismatches:
        out.conformance['spec_to_code']['first_mismatches'] = mismatches
    phase['spec_to_code'] = round(_time.time() - t0, 1)

    # 3. code -> spec: own enumeration + seeded random, judged by the monitor
    t0 = _time.time()
    sessions, exhaustive_parse = build_sessions(tier, rng)
    traces = run_sessions(sessions)
    phase['drive_real_code'] = round(_time.time() - t0, 1)
    t0 = _time.time()
    all_traces = sim_traces + traces
    verdicts = judge(out, all_traces, 'real code')
    n_events = sum(len(t['ev']) for t in all_traces)
    n_bad = sum(len(v.allbad) for v in verdicts)
    n_drift = sum(v.ndrift for v in verdicts)
    out.conformance['code_to_spec'] = {'sessions': len(all_traces), 'events': n_events,
                                       'events_explained_by_design_spec': n_events - n_drift,
                                       'events_rejected_by_monitor': n_bad,
                                       'sessions_rejected_by_monitor': sum(1 for v in verdicts if v.clause != 'ok')}
    phase['judge'] = round(_time.time() - t0, 1)
    t0 = _time.time()
    report_violations(out, verdicts)
    out.evaluations = n_events
    out.distinct = len({json.dumps((t['env'], {k: v for k, v in e.items() if k in ('e', 'u', 'sa', 'resp')}), sort_keys=True)
                        for t in all_traces for e in t['ev']})
    out.exhaustive = True
    out.rule = ('case = (environment, operation, URI token | scan address + Crazyflies in range); sources: TLC -simulate '
                'behaviours of Uri.tla; parse_uri exhaustively over {dongle numbers, attached serials} x omission shapes nf 0..2 '
                'x channels 0..125 x 3 rates x rate limits, and the address strings of addr_space() x channels {0,2,80,125} x 3 rates '
                '(%d parse cases incl. seeded random ones); every scheme x well-formed/malformed form x 6 environments (driver lists '
                'with/without serial driver, prrt, pyserial) through claim/lookup/open; scans over 10 fixed + random addresses with '
                'random responders on the scanned address and on the addresses of fleet_neighbours(). distinct = distinct (environment, operation, input)' % exhaustive_parse)
    picks = [t for t in traces if t['ev']]
    for t in (picks[0], picks[len(picks) // 2], picks[-1]):
        e = t['ev'][len(t['ev']) // 2]
        out.samples.append({'env': t['env'], 'classes': t['classes'],
                            'uri': e['s'] if 'u' in e else e.get('uris'),
                            'event': {k: v for k, v in e.items() if k not in ('found', 'u', 's', 'k')}})

    # 4. sensitivity: in-memory mutants of the code under test must be rejected by the monitor (one pool, one batch)
    probe = mutant_probe_sessions()
    install()
    usable = [m for m in sorted(MUTANTS) if mutant_applicable(m)]
    for m in sorted(set(MUTANTS) - set(usable)):
        out.sensitivity['mutant:' + m] = 'skipped: the patched text is not in the code under test'
    names = [None] + sorted(PATCHES) + usable
    jobs = [(s, name) for name in names for s in probe]
    mt = common.pmap(_exec_job, jobs, init=install)
    o2 = common.Outcome('C20', tier, seed)
    mv = judge(o2, mt, 'probe sessions: unmutated, repaired, %d mutants' % len(MUTANTS))
    out.tlc_runs.append(o2.tlc_runs[-1])
    per = {name: mv[i * len(probe):(i + 1) * len(probe)] for i, name in enumerate(names)}
    base = [v.clause for v in per[None]]
    fixed = [v.clause for v in per['fix_empty_path']]
    out.sensitivity['patch:fix_empty_path'] = ('%d of %d probe operations rejected (%d not explained by the design spec) on the tree as is; '
                                               '%d rejected (%d not explained) with the one-line repair applied in memory' % (
        sum(c != 'ok' for c in base), len(probe), sum(v.ndrift for v in per[None]),
        sum(c != 'ok' for c in fixed), sum(v.ndrift for v in per['fix_empty_path'])))
    for name in usable:
        new = sorted({v.clause for v, b in zip(per[name], base) if v.clause != 'ok' and v.clause != b})
        n_new = sum(1 for v, b in zip(per[name], base) if v.clause != 'ok' and v.clause != b)
        out.sensitivity['mutant:' + name] = '%d of %d probe operations newly rejected (%s)' % (n_new, len(probe), ', '.join(new) or '-')
        if not new:
            if out.violations and any(b != 'ok' for b in base):
                # the tree under test is itself rejected on the probe operations (and that has been reported):
                # the mutant cannot be told from it there -- no statement about the monitor, nothing to raise
                out.sensitivity['mutant:' + name] += ' -- not distinguishable: the tree under test is itself rejected on %d probe operations' % \
                    sum(b != 'ok' for b in base)
                continue
            raise common.MachineryError('monitor did not reject in-memory mutant %s' % name)
    # binding self-tests: a corrupted recorded result / a dropped entry must be rejected
    t0c = copy.deepcopy(next(t for t in traces if any(e['e'] == 'parse' and e['r']['ok'] and e['u']['nf'] == 3 for e in t['ev'])))
    e0 = next(e for e in t0c['ev'] if e['e'] == 'parse' and e['r']['ok'] and e['u']['nf'] == 3)
    e0['r']['addr'] = [(e0['r']['addr'][0] + 1) % 256] + e0['r']['addr'][1:]
    t0c['ev'] = [e0]
    t1c = copy.deepcopy(next(t for t in traces if any(e['e'] == 'claim' for e in t['ev'])))
    e1 = next(e for e in t1c['ev'] if e['e'] == 'claim')
    e1['c'] = e1['c'][:-1]
    t1c['ev'] = [e1]
    cv = judge(o2, [t0c, t1c], 'corrupted')
    out.sensitivity['binding:corrupt-recorded-address-byte'] = 'rejected (monitor=%s, conform=%s)' % (cv[0].clause, cv[0].conf)
    out.sensitivity['binding:drop-one-claim-entry'] = 'rejected (monitor=%s, conform=%s)' % (cv[1].clause, cv[1].conf)
    if cv[0].clause == 'ok':
        raise common.MachineryError('trace spec accepted a parse event with a corrupted address byte')
    if cv[1].clause == 'ok' and cv[1].conf:
        raise common.MachineryError('trace spec accepted a claim event with an entry removed')
    phase['report_and_sensitivity'] = round(_time.time() - t0, 1)
    return out.finish()


def mutant_probe_sessions():
    """A small fixed set of single-operation sessions that touches every clause."""
    env = mkenv(2, 1, True, True, True)
    has = _classes_has(env)
    toks = [tok(nf=0), tok(nf=0, rl=(9,)), tok(nf=1, chan=80), tok(nf=2, chan=80, rate='250K'), tok(nf=2, chan=80, rate='1M'),
            tok(nf=3, chan=80, rate='2M', addr=digits('E7E7E7E701')), tok(nf=3, chan=0, rate='1M', addr=digits('1')),
            tok(nf=3, chan=125, rate='250K', addr=digits('a0B')), tok(dk='serial', dn=2, nf=2, chan=10, rate='2M'),
            tok(dk='serial', dn=1, nf=3, chan=10, rate='2M', addr=digits('0102030405'), rl=(100,)),
            tok(nf=1, chan=33, rl=(7,)),
            tok(scheme='usb', dn=0), tok(scheme='udp'), tok(scheme='tcp'), tok(scheme='serial'), tok(scheme='prrt'),
            tok(scheme='bogus'), tok(scheme='usb', wf='bad'), tok(scheme='tcp', wf='bad'), tok(scheme='udp', wf='bad'),
            tok(wf='chan_alpha', nf=2), tok(wf='addr_nonhex', nf=3, addr=digits('E7')), tok(wf='rl_alpha', nf=1, chan=5)]
    ops = []
    for u in toks:
        ops.append({'e': 'parse', 'u': u})
        ops.append({'e': 'claim', 'u': u})
        ops.append({'e': 'lookup', 'u': u})
        if open_allowed(u, has):
            ops.append({'e': 'open', 'u': u})
    ops.append({'e': 'scan', 'sa': [0, 0, 0, 0, 1], 'resp': [{'chan': 80, 'rate': 2, 'addr': [0, 0, 0, 0, 1]}]})
    ops.append({'e': 'scan', 'sa': [], 'resp': [{'chan': 10, 'rate': 0, 'addr': list(DEFAULT_ADDR)}]})
    # a fleet: one Crazyflie on the scanned address, the others on its neighbours
    a = [0xE7, 0xE7, 0xE7, 0xE7, 0x01]
    ops.append({'e': 'scan', 'sa': a, 'resp': [{'chan': 80, 'rate': 2, 'addr': a}] +
                [{'chan': 20 + 7 * i, 'rate': i % 3, 'addr': b} for i, b in enumerate(fleet_neighbours(a))]})
    return [{'env': env, 'ops': [o], 'order': 0, 'replug': False} for o in ops]
