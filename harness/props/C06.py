"""C06 -- memory reads/writes exact, complete, never wedged.

spec/MemProto.tla (design), spec/MemProtoProps.tla, spec/MemProtoTrace.tla (monitor).
Real code: cflib.crazyflie.mem.Memory inside a real Crazyflie connected through sim:// to the
simulated device's memory service."""
import json
import random

from .. import common, tlc, vsched
from ..simdev import core as sd
from ..simdev import services as sv
from ..vsched import vtime

MEM_SIZE = 160
NMEM = 2
TYPE_GENERIC = 0x18      # TYPE_APP: handled by the generic MemoryElement branch
TYPE_DECK = 0x19         # TYPE_DECK_MEMORY: Memory creates a DeckMemoryManager for it

# The deck memory (third memory of the deck scenarios) as the firmware lays it out: the info table at
# 0, the command section at 0x1000 (0x20 bytes per deck), one window per deck far up in the address
# space.  Only these segments exist; an access outside them is answered with an error status.
DECK_MEM = 2                                   # memory id
DECK_BASES = [0x10000000, 0x20000000, 0x30000000]
DECK_SEGS = [(0, 257), (0x1000, 0x100), (DECK_BASES[0], 200), (DECK_BASES[1], 120)]
DECK_NAMES = [b'bcAI', b'bcLoco', b'bcOff']
DECK_EPI_W = (0, 184, 6)                       # (deck, offset, length): ranges kept free for the epilogue ...
DECK_EPI_R = (1, 100, 9)
DECK_RE_W = (0, 160, 12)                       # ... and for the request a completion callback starts
DECK_RE_R = (1, 80, 7)

# error status bytes: the firmware answers with an errno value, the library must treat every
# non-zero byte alike (the property quantifies over all error statuses)
STATUSES = [1, 2, 5, 12, 22, 41, 58, 127, 128, 133, 134, 200, 254, 255]


class SegImage:
    """Device memory made of a few segments; behaves like the bytearray MemoryService expects for
    accesses inside one segment."""

    def __init__(self, segs):
        self.segs = [(b, bytearray(d)) for (b, d) in segs]

    def __len__(self):
        return max(b + len(d) for (b, d) in self.segs)

    def seg(self, a, n):
        for (b, d) in self.segs:
            if b <= a and a + n <= b + len(d):
                return (b, d)
        return None

    def __getitem__(self, sl):
        a, e = sl.start, sl.stop
        b, d = self.seg(a, e - a)
        return d[a - b:e - b]

    def __setitem__(self, sl, data):
        a, e = sl.start, sl.stop
        b, d = self.seg(a, e - a)
        d[a - b:e - b] = data

    def dense(self):
        out = []
        for (_b, d) in self.segs:
            out.extend(d)
        return out

    def layout(self):
        out, off = [], 0
        for (b, d) in self.segs:
            out.append({'base': b, 'len': len(d), 'off': off})
            off += len(d)
        return out


def deck_image(rng):
    """info table (version 3, 8 entries of 32 bytes): deck 0 and 1 valid+started+read+write, deck 2
    valid but not started, the rest empty; everything else random"""
    import struct
    info = bytearray([3])
    for i in range(8):
        if i < 3:
            f1 = 1 | (2 if i < 2 else 0) | 4 | 8 | (16 if i == 0 else 0)
            info += struct.pack('<BBLLL18s', f1, 3, 0x1234 + i, 64 + i, DECK_BASES[i], DECK_NAMES[i])
        else:
            info += bytes(32)
    segs = [(DECK_SEGS[0][0], info)]
    for (b, n) in DECK_SEGS[1:]:
        segs.append((b, bytearray(rng.randrange(256) for _ in range(n))))
    return SegImage(segs)


# --------------------------------------------------------------------------- device side
class MemFaults(sd.Faults):
    """Faults on the memory port only, indexed by the n-th memory reply / request."""

    def __init__(self, f):
        self.f = f
        self.mem_down = 0
        self.mem_up = 0
        self.dropped = False

    def uplink(self, dev, n, pk):
        if pk.port == sv.PORT_MEM and pk.channel in (1, 2):
            self.mem_up += 1
            if self.f.get('drop_by') == 'sender' and self.f.get('drop_after') == self.mem_up and not self.dropped:
                self.dropped = True
                return 'fail_sender'
            if self.f.get('drop_by') == 'driver_at_send' and self.f.get('drop_after') == self.mem_up and not self.dropped:
                # the driver's own thread reports the failure at the moment the request is handed over
                self.dropped = True
                return 'fail_driver'
        return 'ok'

    def downlink(self, dev, n, pk):
        if pk.port != sv.PORT_MEM or pk.channel not in (1, 2):
            return ['deliver']
        self.mem_down += 1
        k = self.mem_down
        acts = []
        hold = self.f.get('hold', {}).get(str(k))
        if hold:
            acts.append(('hold', hold))
        else:
            acts.append('deliver')
        if k in self.f.get('dup', ()):
            acts.append('dup')
        if self.f.get('drop_by') == 'driver' and self.f.get('drop_after') == k and not self.dropped:
            self.dropped = True
            acts.append('fail_driver')
        return acts


def err_status(faults, k):
    """status byte of the k-th memory request of a scenario: 0, or the error the fault script asks for"""
    if k in faults.get('err', ()):
        return int(faults.get('st', {}).get(str(k), 5))      # default EIO
    return 0


class LoggedMem(sv.MemoryService):
    def __init__(self, mems, world_ref, faults):
        super().__init__(mems)
        self.world_ref = world_ref
        self.faults = faults
        self.k = 0

    def handle(self, pk):
        if pk.channel in (1, 2):
            self.k += 1
            st = err_status(self.faults, self.k)
            d = bytes(pk.data)
            if st == 0 and len(d) >= 5 and d[0] < len(self.mems) and isinstance(self.mems[d[0]]['image'], SegImage):
                a = int.from_bytes(d[1:5], 'little')
                n = d[5] if pk.channel == 1 and len(d) >= 6 else len(d) - 5
                if self.mems[d[0]]['image'].seg(a, n) is None:
                    st = 22               # no such address
            self.status = (lambda kind, mid, addr, n, st=st: st) if st else None
        out = super().handle(pk)
        if pk.channel in (1, 2) and out:
            d = bytes(pk.data)
            st = bytes(out[0].data)[5]
            if pk.channel == 1:
                self.world_ref().event(e='mem_up', k='r', m=d[0] + 1, addr=int.from_bytes(d[1:5], 'little'),
                                       len=d[5], data=[], st=st, hint=getattr(pk, '_sim_hint', 0))
            else:
                self.world_ref().event(e='mem_up', k='w', m=d[0] + 1, addr=int.from_bytes(d[1:5], 'little'),
                                       len=len(d) - 5, data=list(d[5:]), st=st, hint=0)
        return out


# --------------------------------------------------------------------------- one execution
class UserLastPolicy:
    """Library, driver and device threads before the application's threads: whatever the
    application has handed over is processed as far as it goes before the application runs on
    (a reply that is already in the link's queue is handled before send_packet returns)."""

    def choose(self, sched, runnable, timed):
        if not runnable:
            return vsched.TICK
        lib = [r for r in runnable if not r.name.startswith('user')]
        return (lib or runnable)[0]


def make_policy(spec, est=400):
    kind, seed = spec
    rng = random.Random(seed)
    if kind == 'fifo':
        return vsched.FifoPolicy()
    if kind == 'userlast':
        return UserLastPolicy()
    if kind == 'random':
        return vsched.RandomPolicy(rng)
    return vsched.PCTPolicy(rng, depth=3, est_steps=est)


def execute(sc, mutant=None):
    """Run one scenario; returns the trace dict for MemProtoTrace (plus 'detail' for reports)."""
    import cflib.crazyflie as cfm
    rng = random.Random(sc['img_seed'])
    deckmode = bool(sc.get('deck'))
    nmem = NMEM + (1 if deckmode else 0)
    images = [bytearray(rng.randrange(256) for _ in range(MEM_SIZE)) for _ in range(NMEM)]
    if deckmode:
        images.append(deck_image(rng))

    def dense(i):
        return i.dense() if isinstance(i, SegImage) else list(i)

    def layout(i):
        return i.layout() if isinstance(i, SegImage) else [{'base': 0, 'len': len(i), 'off': 0}]
    img0 = [dense(i) for i in images]
    segs = [layout(i) for i in images]
    state = {'rid': 0, 'cur': {}, 'deck': {}, 'dropped': 0, 'connected': 0, 'notes': 0, 'drefused': 0}
    with vsched.scheduler(make_policy(sc['policy']), site_info=True, max_steps=80000) as s:
        w = sd.set_world(sd.World())
        mems = [{'type': TYPE_DECK if isinstance(images[i], SegImage) else TYPE_GENERIC,
                 'size': len(images[i]), 'image': images[i]} for i in range(nmem)]
        dev = sv.standard_device(mems=[], mode=sc['mode'])
        dev.services[sv.PORT_MEM] = LoggedMem(mems, lambda: w, sc['faults'])
        dev.faults = MemFaults(sc['faults'])
        dev.tagger = lambda: state['cur'].get(s.current().name if s.current() else None, 0)
        w.add('0', dev)
        cf = cfm.Crazyflie(rw_cache=None)
        if mutant:
            mutant(cf)
        if sc.get('sent_yield'):
            # an application callback on packet_sent (the console, log and param clients have one): a
            # point after the link has taken the packet, before send_packet returns, where other
            # threads run
            cf.packet_sent.add_callback(lambda pk: vtime.sleep(0))

        # Every call of Memory.read / Memory.write is logged where it enters and leaves the library,
        # whoever makes it: the application directly (via "raw") or a DeckMemoryManager on behalf of
        # a deck client request (via "deck").
        lib_read, lib_write = cf.mem.read, cf.mem.write

        def me():
            return s.current().name if s.current() else None

        def logged(kind, fn, memory, addr, length, data, flush):
            th = me()
            state['rid'] += 1
            rid = state['rid']
            dctx = state['deck'].get(th)
            if dctx is not None:
                dctx.setdefault('rids', []).append(rid)
            w.event(e='cs', rid=rid, kind=kind, m=memory.id + 1, addr=addr, len=length,
                    data=list(data) if data is not None else [], flush=bool(flush),
                    via='deck' if dctx is not None else 'raw')
            prev = state['cur'].get(th, 0)
            state['cur'][th] = rid
            try:
                ret = fn()
            finally:
                state['cur'][th] = prev
            w.event(e='ret', rid=rid, ret=bool(ret))
            return ret

        def logged_read(memory, addr, length):
            return logged('read', lambda: lib_read(memory, addr, length), memory, addr, length, None, False)

        def logged_write(memory, addr, data, flush_queue=False, progress_cb=None):
            return logged('write', lambda: lib_write(memory, addr, data, flush_queue, progress_cb),
                          memory, addr, len(data), data, flush_queue)
        cf.mem.read = logged_read
        cf.mem.write = logged_write

        # An application may start a new request from inside a completion callback (the library
        # says so: "call callbacks after the lock has been released to allow for new writes to be
        # initiated from the callback").  sc['reenter'] = {'on': kind of notification, 'op': request}
        # makes the first such notification do that.
        reenter = dict(sc.get('reenter') or {})
        dreenter = dict(sc.get('dreenter') or {})

        def note(k, mem, addr, data):
            w.event(e='note', k=k, m=mem.id + 1, addr=addr, data=list(data))
            if reenter.get('on') == k and 'mems' in state:
                op = reenter.pop('op')
                reenter.clear()
                if op[0] == 'read':
                    api('read', op[1], op[2], op[3])
                else:
                    api('write', op[1], op[2], op[3], bytearray([0xA5] * op[3]), False)

        def hook_mem_callbacks():
            m = cf.mem
            m.mem_read_cb.add_callback(lambda mem, addr, data: note('read_ok', mem, addr, data))
            m.mem_read_failed_cb.add_callback(lambda mem, addr, data: note('read_fail', mem, addr, data))
            m.mem_write_cb.add_callback(lambda mem, addr: note('write_ok', mem, addr, []))
            m.mem_write_failed_cb.add_callback(lambda mem, addr: note('write_fail', mem, addr, []))

        def on_disc(uri):
            state['dropped'] += 1
            state.pop('decks', None)
            w.event(e='drop')
            hook_mem_callbacks()           # Memory replaces its Caller objects on disconnect
        cf.disconnected.add_callback(on_disc)
        cf.connected.add_callback(lambda uri: state.__setitem__('connected', state['connected'] + 1))
        hook_mem_callbacks()

        def api(kind, m, addr, length, data=None, flush=False):
            mem = state['mems'][m]
            if kind == 'read':
                cf.mem.read(mem, addr, length)
            else:
                cf.mem.write(mem, addr, data, flush_queue=flush)

        # ---- the deck client: requests go through DeckMemoryManager / DeckMemory; the client's own
        # callbacks (or the return of a blocking call) are its notifications
        def dnote(dctx, k, nested=True):
            """the client is notified: from a library callback (nested), or by the return of its own
            blocking call"""
            rids = dctx.get('rids') or []
            if rids:
                w.event(e='dnote', rid=rids[-1], k=k)
            else:
                state['stray_dnote'] = state.get('stray_dnote', 0) + 1
            dctx['done'] = k
            key = '%s_%s' % (dctx['kind'], k)
            if dreenter.get('on') == key:
                op = dreenter.pop('op')
                dreenter.clear()
                deck_op(op, nested=nested)

        def deck_call(kind, fn, nested=False):
            """fn(ok_cb, fail_cb) makes the library call; returns the context (rids of the raw
            requests it made, 'refused' if the library refused it with its 'ongoing'/'not ready'
            exception, 'done' once notified).  The application's main line goes on after a refusal;
            a completion callback does not catch it (it unwinds into the library, as it would from
            any ordinary application callback)."""
            th = me()
            dctx = {'kind': kind}
            prev = state['deck'].get(th)
            state['deck'][th] = dctx
            try:
                res = fn(lambda *a: dnote(dctx, 'ok'), lambda *a: dnote(dctx, 'fail'))
                dctx['result'] = res
            except Exception as e:
                if type(e) is not Exception:
                    raise
                dctx['refused'] = str(e)
                state['drefused'] += 1
                if nested:
                    raise
            finally:
                state['deck'][th] = prev
            return dctx

        def deck_op(op, drng=None, nested=False):
            if cf.link is None:
                return None
            kind = op[0]
            if kind == 'dq':
                mgrs = cf.mem.get_mems(TYPE_DECK)
                if not mgrs:
                    return None
                mgr = mgrs[0]

                def got(decks, cb):
                    state['decks'] = decks
                    cb()
                return deck_call('dq', lambda ok, fail: mgr.query_decks(lambda decks: got(decks, ok), lambda msg: fail()), nested)
            decks = state.get('decks')
            if not decks or op[1] not in decks:
                return None
            deck = decks[op[1]]
            if kind == 'dw':
                _k, _d, off, ln, how = op[:5]
                data = bytes((drng or random.Random(off * 131 + ln)).randrange(256) for _ in range(ln))
                if how == 'cb':
                    return deck_call('dw', lambda ok, fail: deck.write(off, data, ok, fail), nested)
                if how == 'prog':
                    return deck_call('dw', lambda ok, fail: deck.write(off, data, ok, fail, progress_cb=lambda msg, pct: None))
                tries = 1 + (op[5] if len(op) > 5 else 0)
                while tries > 0:                 # blocking call; the application retries a failed write
                    tries -= 1
                    dctx = deck_call('dw', lambda ok, fail: deck.write_sync(off, data))
                    if 'refused' not in dctx:
                        dnote(dctx, 'ok' if dctx.get('result') else 'fail', nested=False)
                    if dctx.get('result') or cf.link is None:
                        break
                return dctx
            if kind == 'dr':
                _k, _d, off, ln, how = op[:5]
                if how == 'cb':
                    return deck_call('dr', lambda ok, fail: deck.read(off, ln, ok, fail), nested)
                dctx = deck_call('dr', lambda ok, fail: deck.read_sync(off, ln))
                if 'refused' not in dctx:
                    dnote(dctx, 'ok' if dctx.get('result') is not None else 'fail', nested=False)
                return dctx
            if kind == 'dc':
                call = {'fw': deck.reset_to_fw, 'bl': deck.reset_to_bootloader,
                        'size': lambda: deck.set_fw_new_flash_size(0x1234)}[op[2]]
                dctx = deck_call('dc', lambda ok, fail: call())
                if 'refused' not in dctx:
                    dnote(dctx, 'done', nested=False)          # these calls return no result
                return dctx
            raise common.MachineryError('unknown deck operation %r' % (op,))

        def wait_for(pred, secs=12.0):
            t_end = s.now + secs
            while not pred() and s.now < t_end:
                vtime.sleep(0.25)
                dev.flush_held()
            return pred()

        def connect(attempt):
            c0 = state['connected']
            cf.open_link('sim://0/%d' % attempt)
            t_end = s.now + 20
            while state['connected'] == c0 and s.now < t_end:
                vtime.sleep(0.05)
            state['mems'] = [cf.mem.get_mem(i) for i in range(nmem)]
            return state['connected'] > c0

        res = {'epilogue': False}

        def user():
            if not connect(1):
                res['connect_failed'] = True
                return
            drng = random.Random(sc['img_seed'] + 1)
            for op in sc['ops']:
                if state['dropped']:
                    break
                if op[0] == 'read':
                    api('read', op[1], op[2], op[3])
                elif op[0] == 'write':
                    data = bytearray(drng.randrange(256) for _ in range(op[3]))
                    api('write', op[1], op[2], op[3], data, op[4])
                elif op[0] == 'sleep':
                    vtime.sleep(op[1])
                elif op[0] == 'dq':
                    d = deck_op(op)
                    if d is not None and 'refused' not in d and len(op) == 1:      # ('dq', 'nowait') goes on at once
                        wait_for(lambda: 'done' in d or state['dropped'])
                else:
                    deck_op(op, drng)
            # let everything in flight finish
            for _ in range(40):
                vtime.sleep(0.25)
                dev.flush_held()
            if state['dropped']:
                if not connect(2):
                    res['reconnect_failed'] = True
                    return
            # epilogue (fault-free): the subsystem must still serve requests ("nothing left behind")
            dev.services[sv.PORT_MEM].faults = {}
            dev.faults.f = {}
            dev.flush_held()
            reenter.clear()                    # the probe requests are plain ones
            dreenter.clear()

            def oks():
                return sum(1 for e in w.log if (e.get('e') == 'note' and e['k'] in ('read_ok', 'write_ok')) or
                           (e.get('e') == 'dnote' and e['k'] == 'ok'))
            n0 = oks()
            want = 0
            for m in range(NMEM):
                api('read', m, 1, 3)
                api('write', m, MEM_SIZE - 4, 2, bytearray([m + 1, 7]), False)
                want += 2
            wait_for(lambda: oks() - n0 >= want, 10.0)
            if deckmode:
                # the deck client too (query, write, read): on the manager it already has if the
                # session is the same, on the new one if the link was lost in between
                for op in (('dq',), ('dw',) + DECK_EPI_W + ('cb',), ('dr',) + DECK_EPI_R + ('cb',)):
                    d = deck_op(op)
                    if d is not None and 'refused' in d:
                        res.setdefault('epilogue_refused', d['refused'])
                    want += 2                    # the raw notification + the client's callback
                    wait_for(lambda: oks() - n0 >= want, 10.0)
            res['epilogue'] = oks() - n0 >= want
            res['drefused'] = state['drefused']

        u = s.spawn(user, 'user')
        why = s.run(until=lambda: u.finished, horizon=300.0)
        rep = s.report()
        dead = [t for t in rep if t['status'] == 'dead']
        blocked_user = not u.finished
        try:
            lock = bool(cf.mem._write_requests_lock.locked())
            pending = bool(cf.mem._read_requests) or any(len(q) > 0 for q in cf.mem._write_requests.values())
        except AttributeError:
            lock, pending = False, False
        schedule = list(s.trace)
    ev = []
    hasdup = False
    for e in w.log:
        k = e.get('e')
        if k == 'cs':
            ev.append({'e': 'cs', 'rid': e['rid'], 'kind': e['kind'], 'm': e['m'], 'addr': e['addr'],
                       'len': e['len'], 'data': e['data'], 'flush': e['flush'], 'via': e['via']})
        elif k == 'ret':
            ev.append({'e': 'ret', 'rid': e['rid'], 'ret': e['ret']})
        elif k == 'up' and e.get('port') == sv.PORT_MEM and e.get('chan') in (1, 2) and e.get('hint'):
            ev.append({'e': 'tx', 'k': 'r' if e['chan'] == 1 else 'w', 'm': e['data'][0] + 1, 'hint': e['hint']})
        elif k == 'mem_up':
            ev.append({'e': 'up', 'k': e['k'], 'm': e['m'], 'addr': e['addr'], 'len': e['len'],
                       'data': e['data'], 'st': e['st'], 'hint': e['hint']})
        elif k == 'note':
            ev.append({'e': 'note', 'k': e['k'], 'm': e['m'], 'addr': e['addr'], 'data': e['data']})
        elif k == 'dnote':
            ev.append({'e': 'dnote', 'rid': e['rid'], 'k': e['k']})
        elif k == 'drop':
            ev.append({'e': 'drop'})
        elif k == 'link_error':
            ev.append({'e': 'lerr'})
        elif k == 'down' and e.get('how') == 'dup' and e.get('port') == sv.PORT_MEM:
            hasdup = True
    ev.append({'e': 'end', 'lock': lock, 'pending': pending, 'epilogue': bool(res['epilogue']),
               'dead': bool(dead), 'hung': blocked_user, 'images': [dense(i) for i in images]})
    return {'mems': nmem, 'img0': img0, 'segs': segs, 'hasdup': hasdup, 'ev': ev,
            'detail': {'why': why, 'dead': [t.get('traceback', '')[-600:] for t in dead],
                       'blocked_user': blocked_user, 'res': res,
                       'threads': [(t['name'], t['status'], t.get('site')) for t in rep if t['status'] != 'finished']}}


# --------------------------------------------------------------------------- scenario sources
LENS_R = [0, 1, 19, 20, 21, 39, 40, 41, 60, 61]
LENS_W = [0, 1, 24, 25, 26, 49, 50, 51, 75, 76]


def _place_writes(rng, lens, limit=MEM_SIZE - 8):
    """disjoint, distinct address ranges inside [0, limit) for the writes of one memory"""
    out = []
    pos = rng.randrange(0, 3)
    for ln in lens:
        if pos + max(ln, 1) > limit:
            break
        out.append((pos, ln))
        pos += max(ln, 1) + rng.randrange(0, 3)
    return out


def gen_faults(rng, kind, nmax=9):
    faults = {}
    if kind in ('dup', 'mixed'):
        faults['dup'] = sorted(set(rng.randrange(1, nmax) for _ in range(rng.randint(1, 2))))
    if kind in ('err', 'mixed'):
        faults['err'] = sorted(set(rng.randrange(1, nmax) for _ in range(rng.randint(1, 2))))
        # any status byte: mostly the boundary values, sometimes any
        faults['st'] = {str(k): (rng.choice(STATUSES) if rng.random() < 0.7 else rng.randrange(1, 256)) for k in faults['err']}
    if kind in ('hold', 'mixed') and rng.random() < 0.7:
        faults['hold'] = {str(rng.randrange(1, nmax - 2)): rng.randint(1, 2)}
    if kind in ('drop', 'mixed') and (kind == 'drop' or rng.random() < 0.3):
        faults['drop_after'] = rng.randrange(1, nmax - 1)
        faults['drop_by'] = rng.choice(['driver', 'sender', 'driver_at_send'])
    return faults


def gen_policy(rng):
    return (rng.choice(['fifo', 'random', 'pct', 'userlast']), rng.randrange(1 << 30))


def gen_scenario(rng, tier, kind):
    ops = []
    nw = [rng.randint(0, 3) for _ in range(NMEM)]
    writes = []
    for m in range(NMEM):
        lens = [rng.choice(LENS_W) if rng.random() < 0.8 else rng.randint(0, 60) for _ in range(nw[m])]
        if sum(max(x, 1) for x in lens) > MEM_SIZE - 20:
            lens = lens[:1]
        for (a, ln) in _place_writes(rng, lens):
            writes.append(('write', m, a, ln, rng.random() < 0.25))
    reads = []
    for _ in range(rng.randint(0, 3)):
        ln = rng.choice(LENS_R) if rng.random() < 0.8 else rng.randint(0, 61)
        reads.append(('read', rng.randrange(NMEM), rng.randrange(0, MEM_SIZE - ln - 1), ln))
    ops = writes + reads
    rng.shuffle(ops)
    # keep per-memory write order as placed (addresses ascending) irrelevant; add sleeps
    out = []
    for op in ops:
        out.append(op)
        r = rng.random()
        if r < 0.3:
            out.append(('sleep', rng.choice([0.01, 0.3, 1.5])))
    return {'ops': out, 'faults': gen_faults(rng, kind), 'mode': rng.choice(['sync', 'thread']),
            'policy': gen_policy(rng), 'sent_yield': rng.random() < 0.5,
            'img_seed': rng.randrange(1 << 30)}


def gen_deck_scenario(rng, tier, kind):
    """the deck client (query, reads, writes, blocking writes with a retry, commands) mixed with plain
    requests to the other memories, under the same faults"""
    ops = [('dq',)]
    wl = [rng.choice([0, 1, 24, 25, 26, 50, 51]) for _ in range(rng.randint(1, 3))]
    dws = [('dw', 0, a, ln, rng.choice(['cb', 'cb', 'sync', 'prog']))
           for (a, ln) in _place_writes(rng, wl, limit=150)]
    dws = [op + ((1,) if op[4] == 'sync' else ()) for op in dws]
    drs = [('dr', rng.choice([0, 1]), rng.randrange(0, 60), rng.choice([0, 1, 19, 20, 21, 40, 41]), rng.choice(['cb', 'cb', 'sync']))
           for _ in range(rng.randint(0, 2))]
    dcs = [('dc', rng.choice([0, 1]), rng.choice(['fw', 'bl', 'size']))] if rng.random() < 0.4 else []
    raw = []
    if rng.random() < 0.5:
        raw.append(('write', 0, rng.randrange(0, 40), rng.choice([1, 25, 26]), False))
    if rng.random() < 0.5:
        raw.append(('read', 1, rng.randrange(0, 40), rng.choice([1, 20, 21])))
    rest = dws + drs + dcs + raw
    rng.shuffle(rest)
    for op in rest:
        ops.append(op)
        # an asynchronous deck request is refused while the previous one of its kind is running:
        # mostly the client waits, sometimes it does not
        ops.append(('sleep', rng.choice([0.01, 1.0, 1.0, 2.0])))
    faults = gen_faults(rng, kind, nmax=26)
    sc = {'deck': True, 'ops': ops, 'faults': faults, 'mode': rng.choice(['sync', 'thread']),
          'policy': gen_policy(rng), 'sent_yield': rng.random() < 0.5, 'img_seed': rng.randrange(1 << 30)}
    if rng.random() < 0.4:
        on = rng.choice(['dw_ok', 'dw_fail', 'dr_ok', 'dr_fail'])
        sc['dreenter'] = {'on': on, 'op': rng.choice([('dw',) + DECK_RE_W + ('cb',), ('dr',) + DECK_RE_R + ('cb',)])}
    return sc


def reenter_scenarios():
    """A completion callback that starts a new request: from success and from failure notifications,
    failures by error status and by link drop (driver- and sender-reported), both device modes."""
    out = []
    RW = ('write', 0, MEM_SIZE - 14, 2)       # a range no other request of these scenarios touches
    RR = ('read', 1, 7, 3)
    k = 0
    for mode in ('sync', 'thread'):
        for nop in (RW, RR):
            base_w = [('write', 0, 2, 30, False), ('write', 0, 60, 3, False), ('sleep', 1.0)]
            base_r = [('read', 0, 2, 45), ('sleep', 1.0)]
            cases = [('write_ok', base_w, {}), ('read_ok', base_r, {}),
                     ('write_fail', base_w, {'err': [1]}), ('write_fail', base_w, {'err': [2], 'st': {'2': 255}}),
                     ('read_fail', base_r, {'err': [2], 'st': {'2': 133}}),
                     ('write_fail', base_w, {'drop_after': 1, 'drop_by': 'driver'}),
                     ('write_fail', base_w, {'drop_after': 2, 'drop_by': 'driver'}),
                     ('read_fail', base_r, {'drop_after': 1, 'drop_by': 'driver'}),
                     ('write_fail', base_w, {'drop_after': 2, 'drop_by': 'sender'}),
                     ('read_fail', base_r, {'drop_after': 2, 'drop_by': 'sender'})]
            for (on, ops, faults) in cases:
                for pol in (('fifo', 0), ('pct', 1000 + k), ('random', 2000 + k)):
                    k += 1
                    out.append({'ops': list(ops), 'faults': dict(faults), 'mode': mode, 'policy': pol, 'img_seed': 77 + k,
                                'reenter': {'on': on, 'op': nop}})
    return out


def status_scenarios():
    """every error status byte 1..255, once for a read and once for a write (a handful per connection)"""
    out = []
    sts = list(range(1, 256))
    for kind in ('read', 'write'):
        for i in range(0, len(sts), 15):
            part = sts[i:i + 15]
            ops, faults = [], {'err': [], 'st': {}}
            for j, st in enumerate(part):
                if kind == 'read':
                    ops += [('read', j % NMEM, 3 + j, 5), ('sleep', 0.3)]
                else:
                    ops += [('write', j % NMEM, 2 + 8 * j, 5, False), ('sleep', 0.3)]
                faults['err'].append(j + 1)
                faults['st'][str(j + 1)] = st
            out.append({'ops': ops, 'faults': faults, 'mode': 'sync' if (i // 15) % 2 == 0 else 'thread',
                        'policy': ('fifo', 0), 'img_seed': 500 + i})
    return out


def sendtime_scenarios():
    """the moment a request's first message is handed to the link: (a) the link fails right then --
    reported by the driver from inside send_packet, or by the driver's own thread -- for the k-th
    memory message of a small history; (b) a device that answers at once (the reply is in the link's
    queue before link.send_packet() returns) and an application callback on packet_sent as a yield
    point, library threads first: the reply is handled before the calling thread goes on"""
    out = []
    hist = [('read', 0, 2, 45), ('sleep', 1.0), ('write', 1, 7, 30, False), ('sleep', 1.0), ('read', 1, 9, 3),
            ('write', 0, 80, 2, False), ('sleep', 1.0)]
    for k in range(1, 8):
        for by in ('sender', 'driver_at_send'):
            for pol in (('fifo', 0), ('userlast', 0), ('random', 300 + k)):
                out.append({'ops': list(hist), 'faults': {'drop_after': k, 'drop_by': by}, 'mode': 'sync',
                            'policy': pol, 'sent_yield': True, 'img_seed': 900 + k})
    for ln in (0, 1, 20, 21, 45):
        for mode in ('sync', 'thread'):
            out.append({'ops': [('read', 0, 2, ln), ('sleep', 1.0), ('write', 0, 5, ln, False), ('sleep', 1.0),
                                ('read', 1, 4, ln), ('read', 0, 6, 2), ('sleep', 1.0)],
                        'faults': {}, 'mode': mode, 'policy': ('userlast', 0), 'sent_yield': True, 'img_seed': 950 + ln})
    return out


def deck_scenarios():
    """the deck memory client: the query of the info table, reads and writes of every chunk boundary
    through DeckMemory, blocking writes with a retry, commands; an error status / a link failure at
    every message; callbacks that start the next request (a retry of the same write among them)"""
    out = []
    W = ('dw', 0, 0x20, 60, 'cb')
    R = ('dr', 1, 8, 45, 'cb')
    k = 0

    def add(ops, faults=None, **kw):
        nonlocal k
        k += 1
        sc = {'deck': True, 'ops': [('dq',)] + list(ops), 'faults': dict(faults or {}), 'mode': 'sync' if k % 2 else 'thread',
              'policy': ('fifo', 0), 'img_seed': 3000 + k}
        sc.update(kw)
        out.append(sc)
    S = ('sleep', 1.5)
    add([W, S, R, S])
    add([W, S, R, S], policy=('userlast', 0), sent_yield=True)
    add([R, W, S, ('dc', 0, 'bl'), ('dc', 0, 'fw'), ('dc', 1, 'size'), ('dw', 2, 0, 4, 'cb'), S])
    for ln in (0, 1, 25, 26, 50, 51):
        add([('dw', 0, 3, ln, 'cb'), S, ('dw', 0, 70, ln, 'sync'), ('dw', 1, 9, ln, 'prog'), S])
    for ln in (0, 1, 20, 21, 40, 41):
        add([('dr', 0, 3, ln, 'cb'), S, ('dr', 1, 70, ln, 'sync'), S])
    # the query is memory messages 1..13; W is 14..16 when it comes first, R is 3 messages
    for st in (5, 200):
        for q in (1, 7, 13):
            add([W, S], {'err': [q], 'st': {str(q): st}})
        for c in (14, 15, 16):
            f = {'err': [c], 'st': {str(c): st}}
            add([W, S, R, S], f)
            for nxt in (('dw', 0, 0x20, 60, 'cb'), ('dw',) + DECK_RE_W + ('cb',), ('dr',) + DECK_RE_R + ('cb',)):
                add([W, S, R, S], f, dreenter={'on': 'dw_fail', 'op': nxt})
            add([('dw', 0, 0x20, 60, 'sync', 1), R, S], f)
            add([('dw', 0, 0x20, 60, 'sync', 1), R, S], f, policy=('random', 77 + c))
            add([R, S, W, S], f, dreenter={'on': 'dr_fail', 'op': ('dr',) + DECK_RE_R + ('cb',)})
            add([('dr', 1, 8, 45, 'sync'), W, S], f)
        add([('dc', 0, 'bl'), ('dc', 0, 'fw'), W, S], {'err': [14], 'st': {'14': st}})
    add([W, S, R, S], dreenter={'on': 'dw_ok', 'op': ('dw',) + DECK_RE_W + ('cb',)})
    add([W, S, R, S], dreenter={'on': 'dw_ok', 'op': ('dr',) + DECK_RE_R + ('cb',)})
    add([R, S, W, S], dreenter={'on': 'dr_ok', 'op': ('dr',) + DECK_RE_R + ('cb',)})
    add([R, S, W, S], dreenter={'on': 'dr_ok', 'op': ('dw',) + DECK_RE_W + ('cb',)})
    add([W, S, R, S], dreenter={'on': 'dq_ok', 'op': ('dw',) + DECK_RE_W + ('cb',)})
    # two reads of the deck memory at once: the table is queried again while a deck read is running,
    # and the other way round (Memory serves one read per memory and refuses the second)
    add([R, ('dq', 'nowait'), S, W, S])
    add([('dq', 'nowait'), R, S, W, S])
    add([('dr', 1, 8, 45, 'sync'), ('dq',), W, S])
    for by in ('driver', 'sender', 'driver_at_send'):
        for c in (2, 14, 15, 17):
            add([W, S, R, S], {'drop_after': c, 'drop_by': by})
            add([('dw', 0, 0x20, 60, 'sync', 1), ('dr', 1, 8, 45, 'sync'), S], {'drop_after': c, 'drop_by': by})
    for c in (14, 16):
        add([W, S, R, S], {'dup': [c]})
        add([W, S, R, S], {'hold': {str(c): 2}})
    return out


def length_scenarios():
    """every chunk-boundary (in fact every) length for one read and one write"""
    out = []
    for ln in range(0, 62):
        out.append({'ops': [('read', 0, 3, ln)], 'faults': {}, 'mode': 'sync', 'policy': ('fifo', 0), 'img_seed': ln})
    for ln in range(0, 77):
        out.append({'ops': [('write', 1, 5, ln, False)], 'faults': {}, 'mode': 'sync', 'policy': ('fifo', 0), 'img_seed': ln})
    return out


def chunk_fault_scenarios():
    """the duplicated-ack family (dup of every k-th reply for a k-chunk write followed by idle, alone
    and with a write queued behind), an error status and a link drop at every chunk"""
    out = []
    for ln in (0, 1, 25, 26, 50, 51):
        nchunks = max(1, (ln + 24) // 25)
        for k in range(1, nchunks + 1):
            for mode in ('sync', 'thread'):
                out.append({'ops': [('write', 0, 2, ln, False), ('sleep', 1.0)], 'faults': {'dup': [k]},
                            'mode': mode, 'policy': ('fifo', 0), 'img_seed': ln})
                out.append({'ops': [('write', 0, 2, ln, False), ('write', 0, 90, 3, False), ('sleep', 1.0)],
                            'faults': {'dup': [k]}, 'mode': mode, 'policy': ('fifo', 0), 'img_seed': ln})
                out.append({'ops': [('write', 0, 2, ln, False), ('sleep', 1.0)], 'faults': {'err': [k], 'st': {str(k): STATUSES[(ln + k) % len(STATUSES)]}},
                            'mode': mode, 'policy': ('fifo', 0), 'img_seed': ln})
    for ln in (0, 1, 20, 21, 40, 41):
        nchunks = max(1, (ln + 19) // 20)
        for k in range(1, nchunks + 1):
            out.append({'ops': [('read', 0, 2, ln), ('sleep', 1.0)], 'faults': {'dup': [k]},
                        'mode': 'sync', 'policy': ('fifo', 0), 'img_seed': ln})
            out.append({'ops': [('read', 0, 2, ln), ('sleep', 1.0)], 'faults': {'err': [k], 'st': {str(k): STATUSES[(ln + k + 5) % len(STATUSES)]}},
                        'mode': 'sync', 'policy': ('fifo', 0), 'img_seed': ln})
            for by in ('driver', 'sender'):
                out.append({'ops': [('read', 0, 2, ln), ('write', 1, 7, 30, False), ('sleep', 1.0)],
                            'faults': {'drop_after': k, 'drop_by': by},
                            'mode': 'sync', 'policy': ('fifo', 0), 'img_seed': ln})
    return out


def queue_scenarios():
    """four writes to one memory issued back to back (the queue builds up), without and with a
    flush_queue write among them, a read and a write to the other memory alongside"""
    out = []
    for mode in ('sync', 'thread'):
        for fl in (None, 2, 3):
            ops = [('write', 0, 2, 30, False), ('write', 0, 40, 3, fl == 1), ('write', 0, 50, 26, fl == 2),
                   ('write', 0, 90, 5, fl == 3), ('read', 1, 3, 21), ('write', 1, 8, 1, False), ('sleep', 2.0)]
            out.append({'ops': ops, 'faults': {}, 'mode': mode, 'policy': ('fifo', 0), 'img_seed': 40 + (fl or 0)})
    return out


def systematic_scenarios():
    return (reenter_scenarios() + status_scenarios() + sendtime_scenarios() + deck_scenarios() + queue_scenarios() +
            length_scenarios() + chunk_fault_scenarios())


# --------------------------------------------------------------------------- mutants
def _mut_read_chunk(cf):
    """read chunks of 21 bytes"""
    from cflib.crazyflie import mem as memmod
    memmod._ReadRequest.MAX_DATA_LENGTH = 21
    cf._undo = lambda: setattr(memmod._ReadRequest, 'MAX_DATA_LENGTH', 20)


def _mut_write_pop_early(cf):
    """complete a multi-chunk write after the first acknowledged chunk"""
    from cflib.crazyflie import mem as memmod
    orig = memmod._WriteRequest.write_done

    def patched(self, addr):
        r = orig(self, addr)
        return True if r is False else r
    memmod._WriteRequest.write_done = patched
    cf._undo = lambda: setattr(memmod._WriteRequest, 'write_done', orig)


def _mut_swallow_read_fail(cf):
    m = cf.mem
    orig = m._handle_chan_read

    def patched(cmd, payload):
        import struct
        (addr, status) = struct.unpack('<IB', payload[0:5])
        if status != 0:
            m._read_requests.pop(cmd, None)
            return
        return orig(cmd, payload)
    m._handle_chan_read = patched


def _mut_empty_queue_index(cf):
    """the pre-fix _handle_chan_write: index [0] of a possibly empty queue with the lock held"""
    import struct
    m = cf.mem

    def patched(cmd, payload):
        id = cmd
        (addr, status) = struct.unpack('<IB', payload[0:5])
        if id in m._write_requests:
            m._write_requests_lock.acquire()
            wreq = m._write_requests[id][0]
            ok = fail = False
            if status == 0:
                if wreq.write_done(addr):
                    m._write_requests[id].pop(0)
                    ok = True
                    if len(m._write_requests[id]) > 0:
                        m._write_requests[id][0].start()
            else:
                m._write_requests[id].pop(0)
                fail = True
                if len(m._write_requests[id]) > 0:
                    m._write_requests[id][0].start()
            m._write_requests_lock.release()
            if ok:
                m.mem_write_cb.call(wreq.mem, wreq.addr)
            if fail:
                m.mem_write_failed_cb.call(wreq.mem, wreq.addr)
    m._handle_chan_write = patched


def _mut_lifo_writes(cf):
    """start the newest queued write next instead of the oldest"""
    m = cf.mem
    orig_write = m.write

    def patched(memory, addr, data, flush_queue=False, progress_cb=None):
        r = orig_write(memory, addr, data, flush_queue, progress_cb)
        q = m._write_requests.get(memory.id, [])
        if len(q) > 2:
            q.insert(1, q.pop())
        return r
    m.write = patched


def _mut_wrong_continuation(cf):
    from cflib.crazyflie import mem as memmod
    orig = memmod._ReadRequest.add_data

    def patched(self, addr, data):
        r = orig(self, addr, data)
        return r
    # continuation address off by one chunk when three chunks are needed
    orig_req = memmod._ReadRequest._request_new_chunk

    def patched_req(self):
        if self._bytes_left == 1 and len(self.data) >= 40:
            self._current_addr += 1
            self.addr_shifted = True
        return orig_req(self)
    memmod._ReadRequest._request_new_chunk = patched_req
    cf._undo = lambda: setattr(memmod._ReadRequest, '_request_new_chunk', orig_req)


def _mut_errno_lookup(cf):
    """the error branch of both reply handlers looks the status byte up in the host's errno table
    before it pops the request (an unknown byte raises; for a write, with the lock held)"""
    import errno
    import struct
    m = cf.mem
    orig_r, orig_w = m._handle_chan_read, m._handle_chan_write

    def patched_r(cmd, payload):
        (_addr, status) = struct.unpack('<IB', payload[0:5])
        if status != 0 and cmd in m._read_requests:
            errno.errorcode[status]
        return orig_r(cmd, payload)

    def patched_w(cmd, payload):
        (_addr, status) = struct.unpack('<IB', payload[0:5])
        if status != 0 and len(m._write_requests.get(cmd, [])) > 0 and status not in errno.errorcode:
            m._write_requests_lock.acquire()
            errno.errorcode[status]
        return orig_w(cmd, payload)
    m._handle_chan_read = patched_r
    m._handle_chan_write = patched_w


def _mut_register_after_send(cf):
    """Memory.read records the request after its first message has been handed to the link"""
    from cflib.crazyflie import mem as memmod
    m = cf.mem

    def patched(memory, addr, length):
        if memory.id in m._read_requests:
            return False
        rreq = memmod._ReadRequest(memory, addr, length, m.cf)
        rreq.start()
        m._read_requests[memory.id] = rreq
        return True
    m.read = patched


def _mut_deck_call_before_clear(cf):
    """DeckMemoryManager._write_failed: call the client's failure callback, then clear the record"""
    from cflib.crazyflie.mem import deck_memory as dm
    orig = dm.DeckMemoryManager._write_failed

    def patched(self, mem, addr):
        if mem.id == self.id:
            if self._write_failed_cb is not None:
                self._write_failed_cb(addr - self._read_base_address)
            self._clear_write_cb()
    dm.DeckMemoryManager._write_failed = patched
    cf._undo = lambda: setattr(dm.DeckMemoryManager, '_write_failed', orig)


def _mut_deck_swallow_read_failure(cf):
    """DeckMemoryManager._new_data_failed: forget the read, tell nobody"""
    from cflib.crazyflie.mem import deck_memory as dm
    orig = dm.DeckMemoryManager._new_data_failed

    def patched(self, mem, addr, data):
        if mem.id == self.id:
            self._clear_query_cb()
            self._clear_read_cb()
    dm.DeckMemoryManager._new_data_failed = patched
    cf._undo = lambda: setattr(dm.DeckMemoryManager, '_new_data_failed', orig)


def _sub_general(seed, tier):
    """what the general in-memory mutants are run on: a deterministic part that contains a rejecting
    scenario for each of them (so that a self-test cannot fail by the luck of a seed) and a random part"""
    ls = length_scenarios()
    seen, cf = {}, []
    for sc in chunk_fault_scenarios():           # every other scenario of each kind of fault / history
        k = (tuple(sorted(sc['faults'])), sc['ops'][0][0], len(sc['ops']))
        seen[k] = seen.get(k, 0) + 1
        if seen[k] % 2 == 1:
            cf.append(sc)
    return (reenter_scenarios()[::5] + ls[::6] + [ls[41], ls[61], ls[62 + 51], ls[62 + 76]] + cf +
            [gen_scenario(random.Random(seed + 1 + i), tier, KINDS[i % 6]) for i in range(40)])


# name -> (in-memory mutant, the scenarios it is run on)
MUTANTS = {'read_chunk_21': (_mut_read_chunk, _sub_general), 'write_done_early': (_mut_write_pop_early, _sub_general),
           'swallow_read_failure': (_mut_swallow_read_fail, _sub_general),
           'empty_queue_index': (_mut_empty_queue_index, _sub_general),
           'lifo_writes': (_mut_lifo_writes, lambda seed, tier: queue_scenarios() + [gen_scenario(random.Random(seed + 1 + i), tier, KINDS[i % 6]) for i in range(100)]),
           'wrong_continuation': (_mut_wrong_continuation, _sub_general),
           'errno_lookup': (_mut_errno_lookup, lambda seed, tier: status_scenarios()[::2] + deck_scenarios()[::5]),
           'register_after_send': (_mut_register_after_send, lambda seed, tier: sendtime_scenarios()),
           'deck_call_before_clear': (_mut_deck_call_before_clear, lambda seed, tier: deck_scenarios()[::2]),
           'deck_swallow_read_failure': (_mut_deck_swallow_read_failure, lambda seed, tier: deck_scenarios()[::2])}
KINDS = ['none', 'dup', 'err', 'hold', 'drop', 'mixed']


def _exec_job(job):
    sc, mutant = job
    holder = {}

    def install(cf):
        holder['cf'] = cf
        MUTANTS[mutant][0](cf)
    try:
        return execute(sc, install if mutant else None)
    finally:
        cf = holder.get('cf')
        if cf is not None and hasattr(cf, '_undo'):
            cf._undo()


def _init():
    vsched.load_cflib()
    sd.install()


def run_scenarios(scs, mutant=None):
    return common.pmap(_exec_job, [(sc, mutant) for sc in scs], init=_init, maxtasks=400)


# --------------------------------------------------------------------------- judging
def judge(out, traces, label):
    slim = []
    for i, t in enumerate(traces):
        t['id'] = i + 1
        slim.append({k: v for k, v in t.items() if k != 'detail'})
    verdicts, st = common.validate_traces('MemProtoTrace.tla', 'TRACE_MemProto.cfg', slim)
    out.traces += len(traces)
    out.states += st['states']
    out.transitions += st['transitions']
    out.tlc_runs.append({'config': 'TRACE_MemProto (%s)' % label, 'states': st['states'],
                         'transitions': st['transitions'], 'wall_s': round(st['wall_s'], 2), 'traces': len(traces)})
    bad = []
    for t in traces:
        clause, at = verdicts[t['id']][0], verdicts[t['id']][1]
        if clause != 'ok':
            bad.append((t, clause, at))
    return bad


def signature(t, clause, at, sc):
    """violated clause + canonical witness class (what kind of history produced it)"""
    f = sc.get('faults', {}) if sc else {}
    kinds = sorted(k for k in ('dup', 'err', 'hold', 'drop_after') if f.get(k))
    d = t.get('detail', {})
    if clause == 'UnfinishedIssuedDuringDisconnect':
        return clause
    if clause == 'Deadlock':
        sites = sorted({th[2][1] for th in d.get('threads', []) if th[1] == 'blocked' and th[2] and
                        th[0].startswith(('_Incoming', 'user', 'simdriver', 'Thread:'))})
        if any(op[0] == 'dw' and op[3] == 0 and op[4] == 'prog' for op in (sc.get('ops', []) if sc else [])):
            return 'Deadlock/zero-length-write-with-progress-callback'
        if '_call_all_failed_callbacks' in sites and f.get('drop_by') == 'sender':
            return 'Deadlock/link-error-from-sender-under-write-lock'

        return 'Deadlock/' + '+'.join(sites)
    if clause in ('Wedged', 'ThreadDied', 'NotServedAfterwards', 'Incomplete'):
        tb = ' '.join(d.get('dead', []))
        site = 'IndexError' if 'IndexError' in tb else ('KeyError' if 'KeyError' in tb else
                                                        ('ZeroDivision' if 'ZeroDivision' in tb else 'other'))
        why = d.get('res', {}).get('epilogue_refused')
        if clause == 'NotServedAfterwards' and why:
            site = 'refused:' + why.replace(' ', '-')
        return '%s/%s/%s' % (clause, '+'.join(kinds) or 'nofault', site)
    if clause in ('DeckNotNotified', 'DeckNotifiedTwice', 'DeckNoteMismatch'):
        # which kind of deck client request, which notification of the raw request went with it, and
        # what made the raw request fail (an error status of the device, or the loss of the link)
        reqs, notes, dn, errs = {}, {}, {}, set()
        for e in t['ev']:
            if e['e'] == 'cs' and e['via'] == 'deck':
                reqs[e['rid']] = ('query' if e['kind'] == 'read' and e['addr'] == 0 and e['len'] == 257 else e['kind'],
                                  e['m'], e['addr'], e['len'])
            elif e['e'] == 'dnote':
                dn[e['rid']] = dn.get(e['rid'], 0) + 1
            elif e['e'] == 'up' and e['st'] != 0:
                for rid, (kd, m, a, n) in reqs.items():
                    if m == e['m'] and a <= e['addr'] <= a + n and (kd == 'write') == (e['k'] == 'w'):
                        errs.add(rid)
            elif e['e'] == 'note':
                for rid, (kd, m, a, n) in reqs.items():
                    if m == e['m'] and a == e['addr'] and (kd == 'write') == e['k'].startswith('write') and rid not in notes:
                        notes[rid] = e['k']
                        break
        want = (lambda r: dn.get(r, 0) == 0 and r in notes) if clause == 'DeckNotNotified' else \
            (lambda r: dn.get(r, 0) > 1) if clause == 'DeckNotifiedTwice' else (lambda r: True)
        cls = sorted({'%s-%s/%s' % (reqs[r][0], notes.get(r, '?'),
                                    'ok' if notes.get(r, '').endswith('ok') else ('err' if r in errs else 'drop'))
                      for r in reqs if want(r)})
        return '%s/%s' % (clause, cls[0] if cls else '?')
    return '%s/%s' % (clause, '+'.join(kinds) or 'nofault')


# --------------------------------------------------------------------------- spec -> code replay
UNIT = 5      # model length unit: SIM config RC=4, WC=5  <->  20 / 25 bytes


def replay_behaviour(beh, deck=False):
    """Drive the real Memory along one TLC behaviour of MemProto (SIM constants).  The device is
    stepped manually: Dev(st) serves the oldest request, Deliver*(r) hands one reply to the
    dispatcher.  After every step the projection of the real object is compared with the TLC
    state.  Returns (matched_steps, total_steps, first_mismatch).
    deck: memory 0 is a deck memory (SIM_MemProto_deck.cfg, DeckMems = {0}); requests are made
    through DeckMemory.read/write of deck 0 and dk is compared with the manager's pending-write
    record."""
    import cflib.crazyflie as cfm
    from cflib.crtp.crtpstack import CRTPPacket  # noqa
    images = [deck_image(random.Random(5)) if deck else bytearray((i * 7 + 3) & 0xFF for i in range(MEM_SIZE))]
    BASE = DECK_BASES[0] if deck else 0
    total = matched = 0
    first = None
    with vsched.scheduler(vsched.FifoPolicy(), max_steps=40000) as s:
        w = sd.set_world(sd.World())
        inbox, outbox = [], {}
        mems = [{'type': TYPE_DECK if deck else TYPE_GENERIC, 'size': len(images[0]), 'image': images[0]}]
        dev = sv.standard_device(mems=mems, mode='sync')
        memsvc = dev.services[sv.PORT_MEM]
        w.add('0', dev)
        cf = cfm.Crazyflie(rw_cache=None)
        connected = []
        cf.connected.add_callback(lambda uri: connected.append(uri))
        notes = {}

        def settle():
            s.run(horizon=s.now + 0.5)

        def connect(n):
            u = s.spawn(lambda: cf.open_link('sim://0/%d' % n), 'user')
            s.run(until=lambda: u.finished and len(connected) >= n, horizon=s.now + 30)
            settle()
        connect(1)
        nconn = 1
        # from now on memory-port chunk messages are intercepted: manual device
        orig_handle = memsvc.handle

        class Manual:
            def handle(self, pk):
                if pk.channel in (1, 2):
                    inbox.append(pk)
                    return []
                return orig_handle(pk)
        dk = {}

        def query():
            """(deck) the client asks the new manager for its decks, served by the automatic device"""
            dk.clear()
            if not deck:
                return
            dk['mgr'] = cf.mem.get_mems(TYPE_DECK)[0]
            u = s.spawn(lambda: dk['mgr'].query_decks(lambda decks: dk.__setitem__('deck', decks[0])), 'user')
            s.run(until=lambda: u.finished and 'deck' in dk, horizon=s.now + 10)
            settle()

        def guarded(fn):
            def run():
                try:
                    fn()
                except Exception as e:
                    if type(e) is not Exception:      # the manager refuses with a plain Exception
                        raise
            return run
        query()
        dev.services[sv.PORT_MEM] = Manual()
        rid_of = {}          # (kind, addr) -> rid for notes
        noted = {}

        def hook():
            cf.mem.mem_read_cb.add_callback(lambda mem, addr, data: noted.setdefault(('r', addr), []).append('ok'))
            cf.mem.mem_read_failed_cb.add_callback(lambda mem, addr, data: noted.setdefault(('r', addr), []).append('fail'))
            cf.mem.mem_write_cb.add_callback(lambda mem, addr: noted.setdefault(('w', addr), []).append('ok'))
            cf.mem.mem_write_failed_cb.add_callback(lambda mem, addr: noted.setdefault(('w', addr), []).append('fail'))
        hook()
        cf.disconnected.add_callback(lambda uri: hook())
        class OneShot(sd.Faults):
            """the link fails while the next memory message is being sent (reported by the sender)"""
            armed = False

            def uplink(self, dev_, n_, pk):
                if self.armed and pk.port == sv.PORT_MEM and pk.channel in (1, 2):
                    self.armed = False
                    return 'fail_sender'
                return 'ok'
        shot = OneShot()
        dev.faults = shot
        STATUS = {1: 5, 2: 200}      # the model's abstract error statuses as bytes (an errno and none)
        for (label, st) in beh[1:]:
            name, args = tlc.parse_label(label)
            total += 1
            if name == 'URead':
                m, a, n, sf = args
                shot.armed = bool(sf)
                if deck:
                    u = s.spawn(guarded(lambda: dk['deck'].read(a * UNIT, n * UNIT, lambda *x: None, lambda *x: None)), 'user')
                else:
                    u = s.spawn(lambda: cf.mem.read(cf.mem.get_mem(m), a * UNIT, n * UNIT), 'user')
                s.run(until=lambda: u.finished, horizon=s.now + 5)
                if sf:
                    settle()
                    inbox.clear()
                    outbox.clear()
            elif name == 'UWrite':
                m, a, n, f, sf = args
                shot.armed = bool(sf)
                nreq_here = len(st['req'])
                # distinct start addresses per request so notifications identify it (model uses Addrs)
                data = bytearray((nreq_here * 31 + i) & 0xFF for i in range(n * UNIT))
                if deck:
                    u = s.spawn(guarded(lambda: dk['deck'].write(a * UNIT, data, lambda *x: None, lambda *x: None)), 'user')
                else:
                    u = s.spawn(lambda: cf.mem.write(cf.mem.get_mem(m), a * UNIT, data, flush_queue=f), 'user')
                s.run(until=lambda: u.finished, horizon=s.now + 5)
                if sf:
                    settle()
                    inbox.clear()
                    outbox.clear()
            elif name == 'Dev':
                stt = args[0]
                if not inbox:
                    first = first or (total, 'Dev: real inbox empty')
                    break
                pk = inbox.pop(0)
                memsvc.status = (lambda kind, mid, addr, nn: STATUS[stt]) if stt else None
                reps = orig_handle(pk)
                memsvc.status = None
                # the uid of the new reply in the TLC state
                new_uid = st['uid']
                outbox[new_uid] = reps[0]
            elif name == 'DupU':
                outbox[st['uid']] = outbox[args[0]]
            elif name in ('DeliverRU', 'DeliverWU'):
                pk = outbox.pop(args[0])
                dev._deliver(dev.link, pk, 'deliver')
                settle()
            elif name == 'Drop':
                dev._fail_driver(dev.link)
                settle()
                inbox.clear()
                outbox.clear()
            elif name == 'Reconnect':
                nconn += 1
                dev.services[sv.PORT_MEM] = memsvc
                connect(nconn)
                query()
                dev.services[sv.PORT_MEM] = Manual()
            # ---- projection
            try:
                m_obj = cf.mem
                rdp = {k: (v._current_addr, v._bytes_left) for k, v in m_obj._read_requests.items()}
                wqp = {k: [(x._current_addr, len(x._data)) for x in q] for k, q in m_obj._write_requests.items()}
                lockp = m_obj._write_requests_lock.locked()
            except AttributeError:
                continue
            ok = True
            srd = st['rd'][0] if isinstance(st['rd'], dict) else st['rd'][0]
            if srd['rid'] == 0:
                ok &= (0 not in rdp)
            else:
                ok &= rdp.get(0) == (BASE + srd['cur'] * UNIT, srd['left'] * UNIT)
            swq = st['wq'][0]
            ok &= [(BASE + x['cur'] * UNIT, x['rest'] * UNIT) for x in swq] == wqp.get(0, [])
            if deck and st['link']:
                ok &= (st['dk'][0] != 0) == (dk.get('mgr') is not None and dk['mgr']._write_complete_cb is not None)
            ok &= (lockp == (st['wlock'] != 'free'))
            ok &= len(inbox) == len(st['up']) and len(outbox) == len(st['down'])
            if ok:
                matched += 1
            elif first is None:
                first = (total, label, {'rd': rdp, 'wq': wqp, 'lock': lockp, 'inbox': len(inbox), 'outbox': len(outbox)},
                         {'rd': st['rd'], 'wq': st['wq'], 'up': len(st['up']), 'down': len(st['down'])})
    return matched, total, first


def _replay_job(job):
    beh, deck = job
    try:
        return replay_behaviour(beh, deck)
    except Exception as e:       # a harness problem in the replay is drift evidence, not a verdict
        import traceback
        return (0, max(1, len(beh) - 1), ('exception', traceback.format_exc()[-800:]))


# --------------------------------------------------------------------------- main
def main(tier, seed, replay=None):
    out = common.Outcome('C06', tier, seed)
    rng = random.Random(seed)
    out.assumptions = [
        'firmware memory service semantics as in simdev.MemoryService (fw mem.c as remembered): reply = id, addr, status(, data)',
        'exactness clauses (ReadData/WriteData/tilings) are asserted for histories without duplicated replies; '
        'completion, exactly-once notification, write order and not-wedged under all faults (DESIGN 3.1(5a))',
        'write requests of one scenario have disjoint address ranges per memory so that chunks/notifications identify their request '
        '(exception: the repetition of a write that has already been notified, i.e. a retry)',
        'the deck memory is laid out as the firmware does (info table at 0, command section at 0x1000, one window per deck from 0x10000000); '
        'a request made through DeckMemoryManager/DeckMemory is complete when the client\'s own callback was called (or its blocking call returned)',
        'requests are only issued while the link is up; after a drop the harness reconnects before the epilogue',
    ]
    if replay:
        rp = json.load(open(replay))['replay']
        _init()
        t = execute(rp['scenario'])
        for (t, clause, at) in judge(out, [t], 'replay'):
            out.violation(signature(t, clause, at, rp['scenario']), clause,
                          {'event_index': at, 'detail': t['detail'], 'events': t['ev'][:60]}, rp)
        return out.finish()

    # 1. design spec: the exhaustive checks and the bug variants (each must be refuted) side by side
    from concurrent.futures import ThreadPoolExecutor
    cfgs = ['MC_MemProto_%s.cfg' % tier, 'MC_MemProto_deck_%s.cfg' % tier]
    bugs = [('emptyQueueIndex', 'MC_MemProto_bug.cfg'), ('errnoLookup', 'MC_MemProto_bug_errno.cfg'),
            ('registerAfterSend', 'MC_MemProto_bug_regafter.cfg'), ('deckCallBeforeClear', 'MC_MemProto_bug_deck.cfg')]
    with ThreadPoolExecutor(max_workers=len(cfgs) + len(bugs)) as ex:
        fc = [ex.submit(tlc.check, 'MC_MemProto.tla', c, coverage=(tier == 'thorough'), timeout=3000) for c in cfgs]
        fb = [ex.submit(tlc.expect_violation, 'MC_MemProto.tla', c, timeout=900, workers=2, heap='2g') for (_n, c) in bugs]
        for c, f in zip(cfgs, fc):
            out.add_tlc(c, f.result())
        for (n, _c), f in zip(bugs, fb):
            rb = f.result()
            out.sensitivity['spec:' + n] = 'refuted (%s) after %d states' % (rb.violated, rb.distinct)

    # 2. spec -> code
    nsim = 150 if tier == 'quick' else 1500
    jobs = []
    for (simcfg, isdeck, num) in (('SIM_MemProto.cfg', False, nsim), ('SIM_MemProto_deck.cfg', True, nsim // 3)):
        rs, behs = tlc.simulate('MC_MemProto.tla', simcfg, num=num, depth=30, seed=seed % 100000, timeout=900)
        out.add_tlc('%s (-simulate num=%d)' % (simcfg, num), rs)
        jobs += [(b, isdeck) for b in behs]
    behs = jobs
    reps = common.pmap(_replay_job, jobs, init=_init, maxtasks=200)
    steps = sum(x[1] for x in reps)
    msteps = sum(x[0] for x in reps)
    full = sum(1 for x in reps if x[0] == x[1])
    out.conformance['spec_to_code'] = {'behaviours': len(behs), 'fully_matched': full, 'steps': steps,
                                       'steps_matched': msteps,
                                       'first_mismatches': [str(x[2])[:400] for x in reps if x[2]][:3]}

    # 3. code -> spec
    scs = systematic_scenarios()
    nsys = len(scs)
    nrand = 700 if tier == 'quick' else 12000
    ndeck = 200 if tier == 'quick' else 3000
    for i in range(nrand):
        scs.append(gen_scenario(rng, tier, KINDS[i % len(KINDS)]))
    for i in range(ndeck):
        scs.append(gen_deck_scenario(rng, tier, KINDS[i % len(KINDS)]))
    traces = run_scenarios(scs)
    bad = judge(out, traces, 'real code')
    for (t, clause, at) in bad:
        sc = scs[t['id'] - 1]
        if clause == 'DeviceModelDiverged':
            raise common.MachineryError('simdev memory image and the monitor model disagree: %r' % (sc,))
        out.violation(signature(t, clause, at, sc), clause,
                      {'event_index': at, 'detail': t['detail'], 'events': t['ev'][:60]}, {'scenario': sc})
    out.evaluations = len(traces)
    out.distinct = len({json.dumps([e for e in t['ev'] if e['e'] in ('cs', 'up', 'note', 'dnote', 'drop')], sort_keys=True) for t in traces})
    out.rule = ('scenario = (operation list with chunk-boundary lengths -- plain reads/writes, and in deck scenarios the DeckMemoryManager client: '
                'query, read, write, blocking write with retry, commands --, fault script over the n-th memory message: dup/hold/error status '
                '(any byte 1..255)/link failure reported by the driver thread after the reply | by the sender | by the driver thread at send time, '
                'completion callbacks that start the next request, device mode sync|thread, optional yield point on packet_sent, '
                'schedule policy fifo|random|PCT|library-first); systematic part (%d): every read length 0..61, every write length 0..76, '
                'dup/err/drop at every chunk, every status byte for a read and for a write, failure at send time of every message of a small history, '
                'the deck client families; random part: %d plain + %d deck; distinct = distinct observable histories' % (nsys, nrand, ndeck))
    out.samples = [{'scenario': scs[i], 'events': traces[i]['ev'][:10]} for i in (0, 70, len(scs) - 1)]

    # 4. sensitivity (after the violations have been recorded: a self-test never masks a verdict).
    # A mutant counts as rejected only by a trace whose signature is neither a known finding nor
    # one that the tree under test produces by itself.
    known = set(common.known_findings('C06')) | {signature(t, c, a, scs[t['id'] - 1]) for (t, c, a) in bad}
    for name in sorted(MUTANTS):
        sub = MUTANTS[name][1](seed, tier)
        mt = run_scenarios(sub, mutant=name)
        o2 = common.Outcome('C06', tier, seed)
        mbad = judge(o2, mt, 'mutant ' + name)
        mbad = [(t, c, a) for (t, c, a) in mbad if signature(t, c, a, sub[t['id'] - 1]) not in known]
        out.sensitivity['mutant:' + name] = '%d of %d traces rejected beyond the known findings and the tree\'s own (%s)' % (
            len(mbad), len(mt), ','.join(sorted({c for (_t, c, _a) in mbad}))[:120])
        if not mbad:
            if bad:
                # the tree under test already violates the property in the same way: the self-test
                # cannot tell the mutant from the tree, and must not turn the detection into exit 2
                out.sensitivity['mutant:' + name] += ' -- not distinguishable from the violations of this tree'
                continue
            raise common.MachineryError('monitor did not reject in-memory mutant %s' % name)
    import copy
    t0 = copy.deepcopy(next(t for t in traces if any(e['e'] == 'note' and e['k'] == 'read_ok' and e['data'] for e in t['ev'])))
    for e in t0['ev']:
        if e['e'] == 'note' and e['k'] == 'read_ok' and e['data']:
            e['data'][0] ^= 1
            break
    o2 = common.Outcome('C06', tier, seed)
    cb = judge(o2, [t0], 'corrupted')
    out.sensitivity['binding:flip-one-read-byte'] = 'rejected' if cb else 'ACCEPTED'
    if not cb:
        raise common.MachineryError('trace spec accepted a corrupted read')
    return out.finish()
