"""C06 -- memory reads/writes exact, complete, never wedged.

spec/MemProto.tla (design), spec/MemProtoProps.tla, spec/MemProtoTrace.tla (monitor).
Real code: cflib.crazyflie.mem.Memory inside a real Crazyflie connected through sim:// to the
simulated device's memory service."""
import json
import random

from .. import common, tlc, vsched
from ..simdev import core as sd
from ..simdev import services as sv
from ..vsched import vtime

MEM_SIZE = 160
NMEM = 2
TYPE_GENERIC = 0x18      # TYPE_APP: handled by the generic MemoryElement branch


# --------------------------------------------------------------------------- device side
class MemFaults(sd.Faults):
    """Faults on the memory port only, indexed by the n-th memory reply / request."""

    def __init__(self, f):
        self.f = f
        self.mem_down = 0
        self.mem_up = 0
        self.dropped = False

    def uplink(self, dev, n, pk):
        if pk.port == sv.PORT_MEM and pk.channel in (1, 2):
            self.mem_up += 1
            if self.f.get('drop_by') == 'sender' and self.f.get('drop_after') == self.mem_up and not self.dropped:
                self.dropped = True
                return 'fail_sender'
        return 'ok'

    def downlink(self, dev, n, pk):
        if pk.port != sv.PORT_MEM or pk.channel not in (1, 2):
            return ['deliver']
        self.mem_down += 1
        k = self.mem_down
        acts = []
        hold = self.f.get('hold', {}).get(str(k))
        if hold:
            acts.append(('hold', hold))
        else:
            acts.append('deliver')
        if k in self.f.get('dup', ()):
            acts.append('dup')
        if self.f.get('drop_by') == 'driver' and self.f.get('drop_after') == k and not self.dropped:
            self.dropped = True
            acts.append('fail_driver')
        return acts


class LoggedMem(sv.MemoryService):
    def __init__(self, mems, world_ref, errs):
        super().__init__(mems)
        self.world_ref = world_ref
        self.errs = set(errs)
        self.k = 0

    def handle(self, pk):
        if pk.channel in (1, 2):
            self.k += 1
            k = self.k
            self.status = (lambda kind, mid, addr, n: 5) if k in self.errs else None   # EIO
        out = super().handle(pk)
        if pk.channel in (1, 2) and out:
            d = bytes(pk.data)
            st = bytes(out[0].data)[5]
            if pk.channel == 1:
                self.world_ref().event(e='mem_up', k='r', m=d[0] + 1, addr=int.from_bytes(d[1:5], 'little'),
                                       len=d[5], data=[], st=st, hint=getattr(pk, '_sim_hint', 0))
            else:
                self.world_ref().event(e='mem_up', k='w', m=d[0] + 1, addr=int.from_bytes(d[1:5], 'little'),
                                       len=len(d) - 5, data=list(d[5:]), st=st, hint=0)
        return out


# --------------------------------------------------------------------------- one execution
def make_policy(spec, est=400):
    kind, seed = spec
    rng = random.Random(seed)
    if kind == 'fifo':
        return vsched.FifoPolicy()
    if kind == 'random':
        return vsched.RandomPolicy(rng)
    return vsched.PCTPolicy(rng, depth=3, est_steps=est)


def execute(sc, mutant=None):
    """Run one scenario; returns the trace dict for MemProtoTrace (plus 'detail' for reports)."""
    import cflib.crazyflie as cfm
    rng = random.Random(sc['img_seed'])
    images = [bytearray(rng.randrange(256) for _ in range(MEM_SIZE)) for _ in range(NMEM)]
    img0 = [list(i) for i in images]
    state = {'rid': 0, 'cur': {}, 'dropped': 0, 'connected': 0, 'notes': 0}
    with vsched.scheduler(make_policy(sc['policy']), site_info=True, max_steps=60000) as s:
        w = sd.set_world(sd.World())
        mems = [{'type': TYPE_GENERIC, 'size': MEM_SIZE, 'image': images[i]} for i in range(NMEM)]
        dev = sv.standard_device(mems=[], mode=sc['mode'])
        dev.services[sv.PORT_MEM] = LoggedMem(mems, lambda: w, sc['faults'].get('err', ()))
        dev.faults = MemFaults(sc['faults'])
        dev.tagger = lambda: state['cur'].get(s.current().name if s.current() else None, 0)
        w.add('0', dev)
        cf = cfm.Crazyflie(rw_cache=None)
        if mutant:
            mutant(cf)

        # An application may start a new request from inside a completion callback (the library
        # says so: "call callbacks after the lock has been released to allow for new writes to be
        # initiated from the callback").  sc['reenter'] = {'on': kind of notification, 'op': request}
        # makes the first such notification do that.
        reenter = dict(sc.get('reenter') or {})

        def note(k, mem, addr, data):
            w.event(e='note', k=k, m=mem.id + 1, addr=addr, data=list(data))
            if reenter.get('on') == k and 'mems' in state:
                op = reenter.pop('op')
                reenter.clear()
                if op[0] == 'read':
                    api('read', op[1], op[2], op[3])
                else:
                    api('write', op[1], op[2], op[3], bytearray([0xA5] * op[3]), False)

        def hook_mem_callbacks():
            m = cf.mem
            m.mem_read_cb.add_callback(lambda mem, addr, data: note('read_ok', mem, addr, data))
            m.mem_read_failed_cb.add_callback(lambda mem, addr, data: note('read_fail', mem, addr, data))
            m.mem_write_cb.add_callback(lambda mem, addr: note('write_ok', mem, addr, []))
            m.mem_write_failed_cb.add_callback(lambda mem, addr: note('write_fail', mem, addr, []))

        def on_disc(uri):
            state['dropped'] += 1
            w.event(e='drop')
            hook_mem_callbacks()           # Memory replaces its Caller objects on disconnect
        cf.disconnected.add_callback(on_disc)
        cf.connected.add_callback(lambda uri: state.__setitem__('connected', state['connected'] + 1))
        hook_mem_callbacks()

        def api(kind, m, addr, length, data=None, flush=False):
            me = s.current().name
            state['rid'] += 1
            rid = state['rid']
            w.event(e='cs', rid=rid, kind=kind, m=m + 1, addr=addr, len=length,
                    data=list(data) if data is not None else [], flush=bool(flush))
            state['cur'][me] = rid
            try:
                mem = state['mems'][m]
                if kind == 'read':
                    ret = cf.mem.read(mem, addr, length)
                else:
                    ret = cf.mem.write(mem, addr, data, flush_queue=flush)
            finally:
                state['cur'][me] = 0
            w.event(e='ret', rid=rid, ret=bool(ret))
            return rid

        def outstanding():
            n = 0
            for e in w.log:
                if e.get('e') == 'ret' and e['ret']:
                    n += 1
                elif e.get('e') == 'note':
                    n -= 1
            return n

        def connect(attempt):
            c0 = state['connected']
            cf.open_link('sim://0/%d' % attempt)
            t_end = s.now + 20
            while state['connected'] == c0 and s.now < t_end:
                vtime.sleep(0.05)
            state['mems'] = [cf.mem.get_mem(i) for i in range(NMEM)]
            return state['connected'] > c0

        res = {'epilogue': False}

        def user():
            if not connect(1):
                res['connect_failed'] = True
                return
            drng = random.Random(sc['img_seed'] + 1)
            for op in sc['ops']:
                if state['dropped']:
                    break
                if op[0] == 'read':
                    api('read', op[1], op[2], op[3])
                elif op[0] == 'write':
                    data = bytearray(drng.randrange(256) for _ in range(op[3]))
                    api('write', op[1], op[2], op[3], data, op[4])
                elif op[0] == 'sleep':
                    vtime.sleep(op[1])
            # let everything in flight finish
            for _ in range(40):
                vtime.sleep(0.25)
                if sc['mode'] == 'sync' or True:
                    dev.flush_held()
            if state['dropped']:
                if not connect(2):
                    res['reconnect_failed'] = True
                    return
            # epilogue (fault-free): the subsystem must still serve requests ("nothing left behind")
            dev.services[sv.PORT_MEM].errs = set()
            dev.faults.f = {}
            dev.flush_held()
            n0 = sum(1 for e in w.log if e.get('e') == 'note' and e['k'] in ('read_ok', 'write_ok'))
            want = 0
            for m in range(NMEM):
                api('read', m, 1, 3)
                api('write', m, MEM_SIZE - 4, 2, bytearray([m + 1, 7]), False)
                want += 2
            for _ in range(40):
                vtime.sleep(0.25)
                got = sum(1 for e in w.log if e.get('e') == 'note' and e['k'] in ('read_ok', 'write_ok')) - n0
                if got >= want:
                    break
            res['epilogue'] = got >= want

        u = s.spawn(user, 'user')
        why = s.run(until=lambda: u.finished, horizon=200.0)
        rep = s.report()
        dead = [t for t in rep if t['status'] == 'dead']
        blocked_user = not u.finished
        try:
            lock = bool(cf.mem._write_requests_lock.locked())
            pending = bool(cf.mem._read_requests) or any(len(q) > 0 for q in cf.mem._write_requests.values())
        except AttributeError:
            lock, pending = False, False
        schedule = list(s.trace)
    ev = []
    hasdup = False
    for e in w.log:
        k = e.get('e')
        if k == 'cs':
            ev.append({'e': 'cs', 'rid': e['rid'], 'kind': e['kind'], 'm': e['m'], 'addr': e['addr'],
                       'len': e['len'], 'data': e['data'], 'flush': e['flush']})
        elif k == 'ret':
            ev.append({'e': 'ret', 'rid': e['rid'], 'ret': e['ret']})
        elif k == 'up' and e.get('port') == sv.PORT_MEM and e.get('chan') == 1 and e.get('hint'):
            ev.append({'e': 'tx', 'm': e['data'][0] + 1, 'hint': e['hint']})
        elif k == 'mem_up':
            ev.append({'e': 'up', 'k': e['k'], 'm': e['m'], 'addr': e['addr'], 'len': e['len'],
                       'data': e['data'], 'st': e['st'], 'hint': e['hint']})
        elif k == 'note':
            ev.append({'e': 'note', 'k': e['k'], 'm': e['m'], 'addr': e['addr'], 'data': e['data']})
        elif k == 'drop':
            ev.append({'e': 'drop'})
        elif k == 'link_error':
            ev.append({'e': 'lerr'})
        elif k == 'down' and e.get('how') == 'dup' and e.get('port') == sv.PORT_MEM:
            hasdup = True
    ev.append({'e': 'end', 'lock': lock, 'pending': pending, 'epilogue': bool(res['epilogue']),
               'dead': bool(dead), 'hung': blocked_user, 'images': [list(i) for i in images]})
    return {'mems': NMEM, 'img0': img0, 'hasdup': hasdup, 'ev': ev,
            'detail': {'why': why, 'dead': [t.get('traceback', '')[-600:] for t in dead],
                       'blocked_user': blocked_user, 'res': res,
                       'threads': [(t['name'], t['status'], t.get('site')) for t in rep if t['status'] != 'finished']}}


# --------------------------------------------------------------------------- scenario sources
LENS_R = [0, 1, 19, 20, 21, 39, 40, 41, 60, 61]
LENS_W = [0, 1, 24, 25, 26, 49, 50, 51, 75, 76]


def _place_writes(rng, lens):
    """disjoint, distinct address ranges inside [0, MEM_SIZE-8) for the writes of one memory"""
    out = []
    pos = rng.randrange(0, 3)
    for ln in lens:
        if pos + max(ln, 1) > MEM_SIZE - 8:
            break
        out.append((pos, ln))
        pos += max(ln, 1) + rng.randrange(0, 3)
    return out


def gen_scenario(rng, tier, kind):
    ops = []
    nw = [rng.randint(0, 3) for _ in range(NMEM)]
    writes = []
    for m in range(NMEM):
        lens = [rng.choice(LENS_W) if rng.random() < 0.8 else rng.randint(0, 60) for _ in range(nw[m])]
        if sum(max(x, 1) for x in lens) > MEM_SIZE - 20:
            lens = lens[:1]
        for (a, ln) in _place_writes(rng, lens):
            writes.append(('write', m, a, ln, rng.random() < 0.25))
    reads = []
    for _ in range(rng.randint(0, 3)):
        ln = rng.choice(LENS_R) if rng.random() < 0.8 else rng.randint(0, 61)
        reads.append(('read', rng.randrange(NMEM), rng.randrange(0, MEM_SIZE - ln - 1), ln))
    ops = writes + reads
    rng.shuffle(ops)
    # keep per-memory write order as placed (addresses ascending) irrelevant; add sleeps
    out = []
    for op in ops:
        out.append(op)
        r = rng.random()
        if r < 0.3:
            out.append(('sleep', rng.choice([0.01, 0.3, 1.5])))
    faults = {}
    if kind in ('dup', 'mixed'):
        faults['dup'] = sorted(set(rng.randrange(1, 9) for _ in range(rng.randint(1, 2))))
    if kind in ('err', 'mixed'):
        faults['err'] = sorted(set(rng.randrange(1, 9) for _ in range(rng.randint(1, 2))))
    if kind in ('hold', 'mixed') and rng.random() < 0.7:
        faults['hold'] = {str(rng.randrange(1, 7)): rng.randint(1, 2)}
    if kind in ('drop', 'mixed') and (kind == 'drop' or rng.random() < 0.3):
        faults['drop_after'] = rng.randrange(1, 8)
        faults['drop_by'] = rng.choice(['driver', 'sender'])
    return {'ops': out, 'faults': faults, 'mode': rng.choice(['sync', 'thread']),
            'policy': (rng.choice(['fifo', 'random', 'pct']), rng.randrange(1 << 30)),
            'img_seed': rng.randrange(1 << 30)}


def reenter_scenarios():
    """A completion callback that starts a new request: from success and from failure notifications,
    failures by error status and by link drop (driver- and sender-reported), both device modes."""
    out = []
    RW = ('write', 0, MEM_SIZE - 14, 2)       # a range no other request of these scenarios touches
    RR = ('read', 1, 7, 3)
    k = 0
    for mode in ('sync', 'thread'):
        for nop in (RW, RR):
            base_w = [('write', 0, 2, 30, False), ('write', 0, 60, 3, False), ('sleep', 1.0)]
            base_r = [('read', 0, 2, 45), ('sleep', 1.0)]
            cases = [('write_ok', base_w, {}), ('read_ok', base_r, {}),
                     ('write_fail', base_w, {'err': [1]}), ('write_fail', base_w, {'err': [2]}),
                     ('read_fail', base_r, {'err': [2]}),
                     ('write_fail', base_w, {'drop_after': 1, 'drop_by': 'driver'}),
                     ('write_fail', base_w, {'drop_after': 2, 'drop_by': 'driver'}),
                     ('read_fail', base_r, {'drop_after': 1, 'drop_by': 'driver'}),
                     ('write_fail', base_w, {'drop_after': 2, 'drop_by': 'sender'}),
                     ('read_fail', base_r, {'drop_after': 2, 'drop_by': 'sender'})]
            for (on, ops, faults) in cases:
                for pol in (('fifo', 0), ('pct', 1000 + k), ('random', 2000 + k)):
                    k += 1
                    out.append({'ops': list(ops), 'faults': dict(faults), 'mode': mode, 'policy': pol, 'img_seed': 77 + k,
                                'reenter': {'on': on, 'op': nop}})
    return out


def systematic_scenarios():
    """Every chunk-boundary length for one read and one write, at two addresses, and the
    duplicated-final-ack family (dup of every k-th reply for a k-chunk write followed by idle)."""
    out = reenter_scenarios()
    for ln in range(0, 62):
        out.append({'ops': [('read', 0, 3, ln)], 'faults': {}, 'mode': 'sync', 'policy': ('fifo', 0), 'img_seed': ln})
    for ln in range(0, 77):
        out.append({'ops': [('write', 1, 5, ln, False)], 'faults': {}, 'mode': 'sync', 'policy': ('fifo', 0), 'img_seed': ln})
    for ln in (0, 1, 25, 26, 50, 51):
        nchunks = max(1, (ln + 24) // 25)
        for k in range(1, nchunks + 1):
            for mode in ('sync', 'thread'):
                out.append({'ops': [('write', 0, 2, ln, False), ('sleep', 1.0)], 'faults': {'dup': [k]},
                            'mode': mode, 'policy': ('fifo', 0), 'img_seed': ln})
                out.append({'ops': [('write', 0, 2, ln, False), ('write', 0, 90, 3, False), ('sleep', 1.0)],
                            'faults': {'dup': [k]}, 'mode': mode, 'policy': ('fifo', 0), 'img_seed': ln})
                out.append({'ops': [('write', 0, 2, ln, False), ('sleep', 1.0)], 'faults': {'err': [k]},
                            'mode': mode, 'policy': ('fifo', 0), 'img_seed': ln})
    for ln in (0, 1, 20, 21, 40, 41):
        nchunks = max(1, (ln + 19) // 20)
        for k in range(1, nchunks + 1):
            out.append({'ops': [('read', 0, 2, ln), ('sleep', 1.0)], 'faults': {'dup': [k]},
                        'mode': 'sync', 'policy': ('fifo', 0), 'img_seed': ln})
            out.append({'ops': [('read', 0, 2, ln), ('sleep', 1.0)], 'faults': {'err': [k]},
                        'mode': 'sync', 'policy': ('fifo', 0), 'img_seed': ln})
            for by in ('driver', 'sender'):
                out.append({'ops': [('read', 0, 2, ln), ('write', 1, 7, 30, False), ('sleep', 1.0)],
                            'faults': {'drop_after': k, 'drop_by': by},
                            'mode': 'sync', 'policy': ('fifo', 0), 'img_seed': ln})
    return out


# --------------------------------------------------------------------------- mutants
def _mut_read_chunk(cf):
    """read chunks of 21 bytes"""
    from cflib.crazyflie import mem as memmod
    memmod._ReadRequest.MAX_DATA_LENGTH = 21
    cf._undo = lambda: setattr(memmod._ReadRequest, 'MAX_DATA_LENGTH', 20)


def _mut_write_pop_early(cf):
    """complete a multi-chunk write after the first acknowledged chunk"""
    from cflib.crazyflie import mem as memmod
    orig = memmod._WriteRequest.write_done

    def patched(self, addr):
        r = orig(self, addr)
        return True if r is False else r
    memmod._WriteRequest.write_done = patched
    cf._undo = lambda: setattr(memmod._WriteRequest, 'write_done', orig)


def _mut_swallow_read_fail(cf):
    m = cf.mem
    orig = m._handle_chan_read

    def patched(cmd, payload):
        import struct
        (addr, status) = struct.unpack('<IB', payload[0:5])
        if status != 0:
            m._read_requests.pop(cmd, None)
            return
        return orig(cmd, payload)
    m._handle_chan_read = patched


def _mut_empty_queue_index(cf):
    """the pre-fix _handle_chan_write: index [0] of a possibly empty queue with the lock held"""
    import struct
    m = cf.mem

    def patched(cmd, payload):
        id = cmd
        (addr, status) = struct.unpack('<IB', payload[0:5])
        if id in m._write_requests:
            m._write_requests_lock.acquire()
            wreq = m._write_requests[id][0]
            ok = fail = False
            if status == 0:
                if wreq.write_done(addr):
                    m._write_requests[id].pop(0)
                    ok = True
                    if len(m._write_requests[id]) > 0:
                        m._write_requests[id][0].start()
            else:
                m._write_requests[id].pop(0)
                fail = True
                if len(m._write_requests[id]) > 0:
                    m._write_requests[id][0].start()
            m._write_requests_lock.release()
            if ok:
                m.mem_write_cb.call(wreq.mem, wreq.addr)
            if fail:
                m.mem_write_failed_cb.call(wreq.mem, wreq.addr)
    m._handle_chan_write = patched


def _mut_lifo_writes(cf):
    """start the newest queued write next instead of the oldest"""
    m = cf.mem
    orig_write = m.write

    def patched(memory, addr, data, flush_queue=False, progress_cb=None):
        r = orig_write(memory, addr, data, flush_queue, progress_cb)
        q = m._write_requests.get(memory.id, [])
        if len(q) > 2:
            q.insert(1, q.pop())
        return r
    m.write = patched


def _mut_wrong_continuation(cf):
    from cflib.crazyflie import mem as memmod
    orig = memmod._ReadRequest.add_data

    def patched(self, addr, data):
        r = orig(self, addr, data)
        return r
    # continuation address off by one chunk when three chunks are needed
    orig_req = memmod._ReadRequest._request_new_chunk

    def patched_req(self):
        if self._bytes_left == 1 and len(self.data) >= 40:
            self._current_addr += 1
            self.addr_shifted = True
        return orig_req(self)
    memmod._ReadRequest._request_new_chunk = patched_req
    cf._undo = lambda: setattr(memmod._ReadRequest, '_request_new_chunk', orig_req)


MUTANTS = {'read_chunk_21': _mut_read_chunk, 'write_done_early': _mut_write_pop_early,
           'swallow_read_failure': _mut_swallow_read_fail, 'empty_queue_index': _mut_empty_queue_index,
           'lifo_writes': _mut_lifo_writes, 'wrong_continuation': _mut_wrong_continuation}


def _exec_job(job):
    sc, mutant = job
    holder = {}

    def install(cf):
        holder['cf'] = cf
        MUTANTS[mutant](cf)
    try:
        return execute(sc, install if mutant else None)
    finally:
        cf = holder.get('cf')
        if cf is not None and hasattr(cf, '_undo'):
            cf._undo()


def _init():
    vsched.load_cflib()
    sd.install()


def run_scenarios(scs, mutant=None):
    return common.pmap(_exec_job, [(sc, mutant) for sc in scs], init=_init, maxtasks=400)


# --------------------------------------------------------------------------- judging
def judge(out, traces, label):
    slim = []
    for i, t in enumerate(traces):
        t['id'] = i + 1
        slim.append({k: v for k, v in t.items() if k != 'detail'})
    verdicts, st = common.validate_traces('MemProtoTrace.tla', 'TRACE_MemProto.cfg', slim)
    out.traces += len(traces)
    out.states += st['states']
    out.transitions += st['transitions']
    out.tlc_runs.append({'config': 'TRACE_MemProto (%s)' % label, 'states': st['states'],
                         'transitions': st['transitions'], 'wall_s': round(st['wall_s'], 2), 'traces': len(traces)})
    bad = []
    for t in traces:
        clause, at = verdicts[t['id']][0], verdicts[t['id']][1]
        if clause != 'ok':
            bad.append((t, clause, at))
    return bad


def signature(t, clause, at, sc):
    """violated clause + canonical witness class (what kind of history produced it)"""
    f = sc.get('faults', {}) if sc else {}
    kinds = sorted(k for k in ('dup', 'err', 'hold', 'drop_after') if f.get(k))
    d = t.get('detail', {})
    if clause == 'UnfinishedIssuedDuringDisconnect':
        return clause
    if clause == 'Deadlock':
        sites = sorted({th[2][1] for th in d.get('threads', []) if th[1] == 'blocked' and th[2] and
                        th[0].startswith(('_Incoming', 'user', 'simdriver', 'Thread:'))})
        if '_call_all_failed_callbacks' in sites and f.get('drop_by') == 'sender':
            return 'Deadlock/link-error-from-sender-under-write-lock'
        return 'Deadlock/' + '+'.join(sites)
    if clause in ('Wedged', 'ThreadDied', 'NotServedAfterwards', 'Incomplete'):
        tb = ' '.join(d.get('dead', []))
        site = 'IndexError' if 'IndexError' in tb else ('KeyError' if 'KeyError' in tb else
                                                        ('ZeroDivision' if 'ZeroDivision' in tb else 'other'))
        return '%s/%s/%s' % (clause, '+'.join(kinds) or 'nofault', site)
    return '%s/%s' % (clause, '+'.join(kinds) or 'nofault')


# --------------------------------------------------------------------------- spec -> code replay
UNIT = 5      # model length unit: SIM config RC=4, WC=5  <->  20 / 25 bytes


def replay_behaviour(beh):
    """Drive the real Memory along one TLC behaviour of MemProto (SIM constants).  The device is
    stepped manually: Dev(st) serves the oldest request, Deliver*(r) hands one reply to the
    dispatcher.  After every step the projection of the real object is compared with the TLC
    state.  Returns (matched_steps, total_steps, first_mismatch)."""
    import cflib.crazyflie as cfm
    from cflib.crtp.crtpstack import CRTPPacket  # noqa
    images = [bytearray((i * 7 + 3) & 0xFF for i in range(MEM_SIZE)) for _ in range(1)]
    total = matched = 0
    first = None
    with vsched.scheduler(vsched.FifoPolicy(), max_steps=40000) as s:
        w = sd.set_world(sd.World())
        inbox, outbox = [], {}
        mems = [{'type': TYPE_GENERIC, 'size': MEM_SIZE, 'image': images[0]}]
        dev = sv.standard_device(mems=mems, mode='sync')
        memsvc = dev.services[sv.PORT_MEM]
        w.add('0', dev)
        cf = cfm.Crazyflie(rw_cache=None)
        connected = []
        cf.connected.add_callback(lambda uri: connected.append(uri))
        notes = {}

        def settle():
            s.run(horizon=s.now + 0.5)

        def connect(n):
            u = s.spawn(lambda: cf.open_link('sim://0/%d' % n), 'user')
            s.run(until=lambda: u.finished and len(connected) >= n, horizon=s.now + 30)
            settle()
        connect(1)
        nconn = 1
        # from now on memory-port chunk messages are intercepted: manual device
        orig_handle = memsvc.handle

        class Manual:
            def handle(self, pk):
                if pk.channel in (1, 2):
                    inbox.append(pk)
                    return []
                return orig_handle(pk)
        dev.services[sv.PORT_MEM] = Manual()
        rid_of = {}          # (kind, addr) -> rid for notes
        noted = {}

        def hook():
            cf.mem.mem_read_cb.add_callback(lambda mem, addr, data: noted.setdefault(('r', addr), []).append('ok'))
            cf.mem.mem_read_failed_cb.add_callback(lambda mem, addr, data: noted.setdefault(('r', addr), []).append('fail'))
            cf.mem.mem_write_cb.add_callback(lambda mem, addr: noted.setdefault(('w', addr), []).append('ok'))
            cf.mem.mem_write_failed_cb.add_callback(lambda mem, addr: noted.setdefault(('w', addr), []).append('fail'))
        hook()
        cf.disconnected.add_callback(lambda uri: hook())
        uid_map = {}
        nreq = 0
        for (label, st) in beh[1:]:
            name, args = tlc.parse_label(label)
            total += 1
            if name == 'URead':
                m, a, n = args
                u = s.spawn(lambda: cf.mem.read(cf.mem.get_mem(m), a * UNIT, n * UNIT), 'user')
                s.run(until=lambda: u.finished, horizon=s.now + 5)
            elif name == 'UWrite':
                m, a, n, f = args
                nreq_here = len(st['req'])
                # distinct start addresses per request so notifications identify it (model uses Addrs)
                data = bytearray((nreq_here * 31 + i) & 0xFF for i in range(n * UNIT))
                u = s.spawn(lambda: cf.mem.write(cf.mem.get_mem(m), a * UNIT, data, flush_queue=f), 'user')
                s.run(until=lambda: u.finished, horizon=s.now + 5)
            elif name == 'Dev':
                stt = args[0]
                if not inbox:
                    first = first or (total, 'Dev: real inbox empty')
                    break
                pk = inbox.pop(0)
                memsvc.status = (lambda kind, mid, addr, nn: 5) if stt else None
                reps = orig_handle(pk)
                memsvc.status = None
                # the uid of the new reply in the TLC state
                new_uid = st['uid']
                outbox[new_uid] = reps[0]
            elif name == 'DupU':
                outbox[st['uid']] = outbox[args[0]]
            elif name in ('DeliverRU', 'DeliverWU'):
                pk = outbox.pop(args[0])
                dev._deliver(dev.link, pk, 'deliver')
                settle()
            elif name == 'Drop':
                dev._fail_driver(dev.link)
                settle()
                inbox.clear()
                outbox.clear()
            elif name == 'Reconnect':
                nconn += 1
                dev.services[sv.PORT_MEM] = memsvc
                connect(nconn)
                dev.services[sv.PORT_MEM] = Manual()
            # ---- projection
            try:
                m_obj = cf.mem
                rdp = {k: (v._current_addr, v._bytes_left) for k, v in m_obj._read_requests.items()}
                wqp = {k: [(x._current_addr, len(x._data)) for x in q] for k, q in m_obj._write_requests.items()}
                lockp = m_obj._write_requests_lock.locked()
            except AttributeError:
                continue
            ok = True
            srd = st['rd'][0] if isinstance(st['rd'], dict) else st['rd'][0]
            if srd['rid'] == 0:
                ok &= (0 not in rdp)
            else:
                ok &= rdp.get(0) == (srd['cur'] * UNIT, srd['left'] * UNIT)
            swq = st['wq'][0]
            ok &= [(x['cur'] * UNIT, x['rest'] * UNIT) for x in swq] == wqp.get(0, [])
            ok &= (lockp == (st['wlock'] != 'free'))
            ok &= len(inbox) == len(st['up']) and len(outbox) == len(st['down'])
            if ok:
                matched += 1
            elif first is None:
                first = (total, label, {'rd': rdp, 'wq': wqp, 'lock': lockp, 'inbox': len(inbox), 'outbox': len(outbox)},
                         {'rd': st['rd'], 'wq': st['wq'], 'up': len(st['up']), 'down': len(st['down'])})
    return matched, total, first


def _replay_job(beh):
    try:
        return replay_behaviour(beh)
    except Exception as e:       # a harness problem in the replay is drift evidence, not a verdict
        import traceback
        return (0, max(1, len(beh) - 1), ('exception', traceback.format_exc()[-800:]))


# --------------------------------------------------------------------------- main
def main(tier, seed, replay=None):
    out = common.Outcome('C06', tier, seed)
    rng = random.Random(seed)
    out.assumptions = [
        'firmware memory service semantics as in simdev.MemoryService (fw mem.c as remembered): reply = id, addr, status(, data)',
        'exactness clauses (ReadData/WriteData/tilings) are asserted for histories without duplicated replies; '
        'completion, exactly-once notification, write order and not-wedged under all faults (DESIGN 3.1(5a))',
        'write requests of one scenario have disjoint address ranges per memory so that chunks/notifications identify their request',
        'requests are only issued while the link is up; after a drop the harness reconnects before the epilogue',
    ]
    if replay:
        rp = json.load(open(replay))['replay']
        _init()
        t = execute(rp['scenario'])
        for (t, clause, at) in judge(out, [t], 'replay'):
            out.violation(signature(t, clause, at, rp['scenario']), clause,
                          {'event_index': at, 'detail': t['detail'], 'events': t['ev'][:60]}, rp)
        return out.finish()

    # 1. design spec
    cfg = 'MC_MemProto_%s.cfg' % tier
    r = tlc.check('MC_MemProto.tla', cfg, coverage=(tier == 'thorough'), timeout=3000)
    out.add_tlc(cfg, r)
    rb = tlc.expect_violation('MC_MemProto.tla', 'MC_MemProto_bug.cfg', timeout=600)
    out.sensitivity['spec:emptyQueueIndex'] = 'refuted (%s) after %d states' % (rb.violated, rb.distinct)

    # 2. spec -> code
    nsim = 150 if tier == 'quick' else 1500
    rs, behs = tlc.simulate('MC_MemProto.tla', 'SIM_MemProto.cfg', num=nsim, depth=30, seed=seed % 100000, timeout=900)
    out.add_tlc('SIM_MemProto.cfg (-simulate num=%d)' % nsim, rs)
    reps = common.pmap(_replay_job, behs, init=_init, maxtasks=200)
    steps = sum(x[1] for x in reps)
    msteps = sum(x[0] for x in reps)
    full = sum(1 for x in reps if x[0] == x[1])
    out.conformance['spec_to_code'] = {'behaviours': len(behs), 'fully_matched': full, 'steps': steps,
                                       'steps_matched': msteps,
                                       'first_mismatches': [str(x[2])[:400] for x in reps if x[2]][:3]}

    # 3. code -> spec
    scs = systematic_scenarios()
    kinds = ['none', 'dup', 'err', 'hold', 'drop', 'mixed']
    nrand = 1200 if tier == 'quick' else 20000
    for i in range(nrand):
        scs.append(gen_scenario(rng, tier, kinds[i % len(kinds)]))
    traces = run_scenarios(scs)
    bad = judge(out, traces, 'real code')
    for (t, clause, at) in bad:
        sc = scs[t['id'] - 1]
        if clause == 'DeviceModelDiverged':
            raise common.MachineryError('simdev memory image and the monitor model disagree: %r' % (sc,))
        out.violation(signature(t, clause, at, sc), clause,
                      {'event_index': at, 'detail': t['detail'], 'events': t['ev'][:60]}, {'scenario': sc})
    out.evaluations = len(traces)
    out.distinct = len({json.dumps([e for e in t['ev'] if e['e'] in ('cs', 'up', 'note', 'drop')], sort_keys=True) for t in traces})
    out.rule = ('scenario = (operation list with chunk-boundary lengths, fault script over the n-th memory reply: dup/hold/error/drop by driver|sender, '
                'device mode sync|thread, schedule policy fifo|random|PCT); systematic part: every read length 0..61, every write length 0..76, '
                'dup/err/drop at every chunk; distinct = distinct observable histories')
    out.samples = [{'scenario': scs[i], 'events': traces[i]['ev'][:10]} for i in (0, 70, len(scs) - 1)]

    # 4. sensitivity
    sub = systematic_scenarios()[::3] + [gen_scenario(random.Random(seed + 1 + i), tier, kinds[i % 6]) for i in range(200)]
    for name in sorted(MUTANTS):
        mt = run_scenarios(sub, mutant=name)
        o2 = common.Outcome('C06', tier, seed)
        mbad = judge(o2, mt, 'mutant ' + name)
        known = common.known_findings('C06')
        mbad = [(t, c, a) for (t, c, a) in mbad if signature(t, c, a, sub[t['id'] - 1]) not in known]
        out.sensitivity['mutant:' + name] = '%d of %d traces rejected beyond the known findings (%s)' % (
            len(mbad), len(mt), ','.join(sorted({c for (_t, c, _a) in mbad}))[:120])
        if not mbad:
            raise common.MachineryError('monitor did not reject in-memory mutant %s' % name)
    import copy
    t0 = copy.deepcopy(next(t for t in traces if any(e['e'] == 'note' and e['k'] == 'read_ok' and e['data'] for e in t['ev'])))
    for e in t0['ev']:
        if e['e'] == 'note' and e['k'] == 'read_ok' and e['data']:
            e['data'][0] ^= 1
            break
    o2 = common.Outcome('C06', tier, seed)
    cb = judge(o2, [t0], 'corrupted')
    out.sensitivity['binding:flip-one-read-byte'] = 'rejected' if cb else 'ACCEPTED'
    if not cb:
        raise common.MachineryError('trace spec accepted a corrupted read')
    return out.finish()
