"""C14 -- stored configuration images round-trip and validity follows the checksum.

spec/Images.tla (design), spec/ImagesProps.tla (the property; CRC-32 and the EEPROM checksum are
computed by TLC), spec/ImagesTrace.tla (monitor + conformance for cases recorded from the real
I2CElement, OWElement, LighthouseMemory/LighthouseMemHelper, TrajectoryMemory, LEDTimingsDriverMemory,
DeckMemoryManager, LocoMemory, LocoMemory2, LighthouseConfigFileManager and ParamFileManager).

Python only drives the real classes through a byte-array memory handler, logs the requests and
callbacks, and converts representations (float <-> IEEE bytes, str <-> bytes, int <-> bytes)."""
import copy
import itertools
import json
import os
import random
import shutil
import struct

from .. import common, tlc, vsched

JVM = ('-Xss64m',)
TRACE_ENV = {'JAVA_TOOL_OPTIONS': '-Xss64m'}
NAMES = {1: 'Board name', 2: 'Board revision', 3: 'Custom'}
IDS = {v: k for k, v in NAMES.items()}
FORMATS = ['eeprom', 'ow', 'lh', 'lhfile', 'paramfile', 'poly', 'led', 'deck', 'loco', 'loco2']


# --------------------------------------------------------------------------- representation
def f4(b):
    return struct.unpack('<f', bytes(b))[0]


def b4(x):
    return list(struct.pack('<f', x))


def f8(b):
    return struct.unpack('<d', bytes(b))[0]


def b8(x):
    if x != x:                            # YAML has one NaN (".nan"): sign and payload are not content
        return [0, 0, 0, 0, 0, 0, 248, 127]
    return list(struct.pack('<d', x))


def u32(b):
    return int.from_bytes(bytes(b), 'little')


def le(x, n):
    return list(int(x).to_bytes(n, 'little'))


def f4_ok(b):
    """A float32 bit pattern that survives float32 -> Python float -> float32 (signalling NaNs do not)."""
    return b4(f4(b)) == list(b)


# --------------------------------------------------------------------------- the byte-array memory
class FakeMem:
    """Stands in for cflib.crazyflie.mem.Memory: same read/write entry points, same callbacks
    (new_data(mem, addr, bytearray) / read failed / write_done(mem, addr) / write failed), one
    request answered per deliver() call.  regions: {base: bytearray}; a request must lie inside
    one region, otherwise it fails (as a firmware memory handler answers with an error status)."""

    def __init__(self, regs, writeonly=False):
        self.regs = {int(b): bytearray(d) for b, d in regs.items()}
        self.writeonly = writeonly
        self.queue = []
        self.issued = []
        self.cb = {'read': [], 'read_failed': [], 'write': [], 'write_failed': []}
        self.raised = False

    def attach(self, **cbs):
        for k, fn in cbs.items():
            self.cb[k].append(fn)

    def detach_all(self):
        for k in self.cb:
            self.cb[k] = []

    # -- the API the elements use
    def read(self, memory, addr, length):
        if any(q['k'] == 'r' and q['mem'] is memory for q in self.queue):
            return False                      # Memory.read refuses a second read for the same memory
        q = {'k': 'r', 'mem': memory, 'addr': int(addr), 'len': int(length), 'data': []}
        self.queue.append(q)
        self.issued.append(q)
        return True

    def write(self, memory, addr, data, flush_queue=False, progress_cb=None):
        data = list(data)
        struct.pack('B' * len(data), *data)   # what _WriteRequest does with the data
        q = {'k': 'w', 'mem': memory, 'addr': int(addr), 'len': len(data), 'data': data}
        self.queue.append(q)
        self.issued.append(q)
        return True

    # -- the environment
    def _region(self, addr, n):
        for r, d in self.regs.items():
            if r <= addr and addr + n <= r + len(d):
                return r
        return None

    def take_issued(self):
        out = [{'k': q['k'], 'addr': q['addr'], 'len': q['len'], 'data': list(q['data'])} for q in self.issued]
        self.issued = []
        return out

    def call(self, fn, *args):
        try:
            fn(*args)
        except Exception:
            self.raised = True
            return True
        return False

    def deliver(self):
        q = self.queue.pop(0)
        r = self._region(q['addr'], q['len'])
        raised = False
        if q['k'] == 'r':
            ok = r is not None
            data = bytearray(self.regs[r][q['addr'] - r:q['addr'] - r + q['len']]) if ok else bytearray()
            for fn in list(self.cb['read' if ok else 'read_failed']):
                raised |= self.call(fn, q['mem'], q['addr'], bytearray(data))
            return ok, list(data), raised
        ok = r is not None or self.writeonly
        if r is not None:
            self.regs[r][q['addr'] - r:q['addr'] - r + q['len']] = bytes(q['data'])
        for fn in list(self.cb['write' if ok else 'write_failed']):
            raised |= self.call(fn, q['mem'], q['addr'])
        return ok, [], raised


class Recorder:
    def __init__(self, fm):
        self.fm = fm
        self.ev = []

    def user(self, op, fn):
        raised = self.fm.call(fn)
        self.ev.append({'e': 'user', 'op': op, 'reqs': self.fm.take_issued(), 'raised': raised})

    def pump(self, limit=2000):
        while self.fm.queue and limit > 0:
            limit -= 1
            ok, data, raised = self.fm.deliver()
            self.ev.append({'e': 'deliver', 'ok': ok, 'data': data, 'reqs': self.fm.take_issued(), 'raised': raised})

    def corrupt(self, pos, val):
        if self.fm.regs[0][pos - 1] == val:
            return                            # not a corruption
        self.fm.regs[0][pos - 1] = val
        self.ev.append({'e': 'corrupt', 'pos': pos, 'val': val})

    def done(self, obs):
        self.ev.append({'e': 'done', 'obs': obs})


# --------------------------------------------------------------------------- drivers (the real code)
def _regs(case):
    return {r['base']: r['data'] for r in case['regs0']}


def _warm(case):
    """Half of the corrupted cases (deterministically) are parsed by an element object that has
    read the intact image before."""
    import zlib
    if 'warm' in case:
        return bool(case['warm'])
    return bool(case.get('corrupt')) and zlib.crc32(repr((case['content'], case.get('corrupt'))).encode()) % 2 == 0


def drive_eeprom(case, rec, fm):
    from cflib.crazyflie.mem import I2CElement, MemoryElement
    c = case['content']
    w = I2CElement(id=0, type=MemoryElement.TYPE_I2C, size=len(fm.regs[0]), mem_handler=fm)
    fm.attach(read=w.new_data, write=w.write_done)
    w.elements = {'version': c['ver'], 'radio_channel': c['ch'], 'radio_speed': c['speed'],
                  'pitch_trim': f4(c['pitch']), 'roll_trim': f4(c['roll']),
                  'radio_address': int.from_bytes(bytes(c['addr']), 'little')}
    rec.user('write', lambda: w.write_data(lambda *a: None))
    rec.pump()
    fm.detach_all()
    r = I2CElement(id=0, type=MemoryElement.TYPE_I2C, size=len(fm.regs[0]), mem_handler=fm)   # the parser
    fm.attach(read=r.new_data, write=r.write_done)
    if _warm(case):
        # the same element object has already read the intact image once (as cfclient does when
        # the user refreshes): nothing of that first result may survive into the next update
        scratch = Recorder(fm)
        scratch.user('update', lambda: r.update(lambda m: None))
        scratch.pump()
    for (p, v) in case.get('corrupt', []):
        rec.corrupt(p, v)
    seen = []
    rec.user('update', lambda: r.update(lambda m: seen.append(m)))
    rec.pump()
    e = r.elements
    parsed = {'ver': e.get('version', 0), 'ch': e.get('radio_channel', 0), 'speed': e.get('radio_speed', 0),
              'pitch': b4(e['pitch_trim']) if 'pitch_trim' in e else [],
              'roll': b4(e['roll_trim']) if 'roll_trim' in e else [],
              'addr': le(e['radio_address'], 5) if 'radio_address' in e else []}
    return {'reported': bool(seen), 'valid': bool(r.valid), 'raised': fm.raised, 'parsed': parsed}


def drive_ow(case, rec, fm):
    from cflib.crazyflie.mem import MemoryElement, OWElement
    c = case['content']
    w = OWElement(id=0, type=MemoryElement.TYPE_1W, size=len(fm.regs[0]), addr='0D00000000000001', mem_handler=fm)
    fm.attach(read=w.new_data, write=w.write_done)
    w.pins = u32(c['pins'])
    w.vid = c['vid']
    w.pid = c['pid']
    w.elements = {}
    for e in c['elems']:
        w.elements[NAMES[e['id']]] = bytes(e['str']).decode('ISO-8859-1')
    rec.user('write', lambda: w.write_data(lambda *a: None))
    rec.pump()
    fm.detach_all()
    r = OWElement(id=0, type=MemoryElement.TYPE_1W, size=len(fm.regs[0]), addr='0D00000000000001', mem_handler=fm)
    fm.attach(read=r.new_data, write=r.write_done)
    if _warm(case):
        scratch = Recorder(fm)
        scratch.user('update', lambda: r.update(lambda m: None))
        scratch.pump()
    for (p, v) in case.get('corrupt', []):
        rec.corrupt(p, v)
    seen = []
    rec.user('update', lambda: r.update(lambda m: seen.append(m)))
    rec.pump()
    elems = sorted(({'id': IDS[k], 'str': list(v.encode('ISO-8859-1'))} for k, v in r.elements.items()),
                   key=lambda x: x['id'])
    parsed = {'pins': le(r.pins, 4) if r.pins is not None else [], 'vid': r.vid or 0, 'pid': r.pid or 0, 'elems': elems}
    return {'reported': bool(seen), 'valid': bool(r.valid), 'raised': fm.raised, 'parsed': parsed}


class _FakeMemSub:
    def __init__(self, mems):
        self.mems = mems

    def get_mems(self, t):
        return tuple(m for m in self.mems if m.type == t)


class _FakeCf:
    def __init__(self, mems):
        self.mem = _FakeMemSub(mems)


def _geo_obj(g, conv):
    from cflib.crazyflie.mem import LighthouseBsGeometry
    o = LighthouseBsGeometry()
    f = [conv(x) for x in g['f']]
    o.origin = f[0:3]
    o.rotation_matrix = [f[3:6], f[6:9], f[9:12]]
    o.valid = g['valid']
    return o


def _geo_rec(i, o, conv):
    f = list(o.origin) + [x for row in o.rotation_matrix for x in row]
    return {'id': i, 'f': [conv(x) for x in f], 'valid': bool(o.valid)}


SWEEP = ['phase', 'tilt', 'curve', 'gibmag', 'gibphase', 'ogeemag', 'ogeephase']


def _calib_obj(k, conv):
    from cflib.crazyflie.mem import LighthouseBsCalibration
    o = LighthouseBsCalibration()
    f = [conv(x) for x in k['f']]
    for s in range(2):
        for j, name in enumerate(SWEEP):
            setattr(o.sweeps[s], name, f[7 * s + j])
    o.uid = u32(k['uid'])
    o.valid = k['valid']
    return o


def _calib_rec(i, o, conv):
    f = [getattr(o.sweeps[s], name) for s in range(2) for name in SWEEP]
    return {'id': i, 'f': [conv(x) for x in f], 'uid': le(o.uid, 4), 'valid': bool(o.valid)}


def drive_lh(case, rec, fm):
    from cflib.crazyflie.mem import LighthouseMemHelper, LighthouseMemory, MemoryElement
    c = case['content']
    m = LighthouseMemory(id=0, type=MemoryElement.TYPE_LH, size=0x2000, mem_handler=fm)
    fm.attach(read=m.new_data, read_failed=m.new_data_failed, write=m.write_done, write_failed=m.write_failed)
    helper = LighthouseMemHelper(_FakeCf([m]))
    geos = {}
    for g in c['geos']:
        geos[g['id']] = _geo_obj(g, f4)
    calibs = {}
    for k in c['calibs']:
        calibs[k['id']] = _calib_obj(k, f4)
    res = {'w': [], 'geos': None, 'calibs': None}
    rec.user('write_geos', lambda: helper.write_geos(geos, lambda ok: res['w'].append(ok)))
    rec.pump()
    rec.user('write_calibs', lambda: helper.write_calibs(calibs, lambda ok: res['w'].append(ok)))
    rec.pump()
    # a second helper / memory object reads everything back
    fm.detach_all()
    m2 = LighthouseMemory(id=0, type=MemoryElement.TYPE_LH, size=0x2000, mem_handler=fm)
    fm.attach(read=m2.new_data, read_failed=m2.new_data_failed, write=m2.write_done, write_failed=m2.write_failed)
    helper2 = LighthouseMemHelper(_FakeCf([m2]))
    rec.user('read_geos', lambda: helper2.read_all_geos(lambda d: res.__setitem__('geos', d)))
    rec.pump()
    rec.user('read_calibs', lambda: helper2.read_all_calibs(lambda d: res.__setitem__('calibs', d)))
    rec.pump()
    return {'geos': [_geo_rec(i, o, b4) for i, o in (res['geos'] or {}).items()],
            'calibs': [_calib_rec(i, o, b4) for i, o in (res['calibs'] or {}).items()],
            'wok': len(res['w']) == 2 and all(res['w'])}


def _in_content_order(result, ids):
    keys = [i for i in ids if i in result] + sorted(k for k in result if k not in ids)
    return [(k, result[k]) for k in keys]


def drive_lhfile(case, rec, fm):
    from cflib.localization.lighthouse_config_manager import LighthouseConfigFileManager as M
    c = case['content']
    d = tlc.scratch_dir('c14file-')
    try:
        path = os.path.join(d, 'system.yaml')
        geos = {g['id']: _geo_obj(g, f8) for g in c['geos']}
        calibs = {k['id']: _calib_obj(k, f8) for k in c['calibs']}
        rec.user('filewrite', lambda: M.write(path, geos=geos, calibs=calibs, system_type=c['systype']))
        for field in case.get('tamper', []):
            _tamper(path, field)
            rec.ev.append({'e': 'tamper', 'field': field})
        out = {}
        rec.user('fileread', lambda: out.__setitem__('r', M.read(path)))
        if 'r' not in out:
            return {'raised': True, 'geos': [], 'calibs': [], 'systype': 0}
        rg, rc, st = out['r']
        return {'raised': False,
                'geos': [_geo_rec(i, o, b8) for i, o in _in_content_order(rg, [g['id'] for g in c['geos']])],
                'calibs': [_calib_rec(i, o, b8) for i, o in _in_content_order(rc, [k['id'] for k in c['calibs']])],
                'systype': st}
    finally:
        shutil.rmtree(d, ignore_errors=True)


def _tamper(path, field):
    txt = open(path).read().split('\n')
    for i, line in enumerate(txt):
        if field == 'type' and line.startswith('type:'):
            txt[i] = 'type: other'
        if field == 'version' and line.startswith('version:'):
            txt[i] = "version: '2'"
    open(path, 'w').write('\n'.join(txt))


def _pval(v):
    if v['t'] == 'n':
        return None
    if v['t'] == 'i':
        return int.from_bytes(bytes(v['b']), 'little', signed=True)
    return f8(v['b'])


def _pval_rec(x):
    if x is None:
        return {'t': 'n', 'b': []}
    if isinstance(x, bool) or isinstance(x, int):
        return {'t': 'i', 'b': list(int(x).to_bytes(8, 'little', signed=True))}
    if isinstance(x, float):
        return {'t': 'f', 'b': b8(x)}
    return {'t': 'other:' + type(x).__name__, 'b': []}


def drive_paramfile(case, rec, fm):
    from cflib.crazyflie.param import PersistentParamState
    from cflib.localization.param_io import ParamFileManager as M
    c = case['content']
    d = tlc.scratch_dir('c14file-')
    try:
        path = os.path.join(d, 'params.yaml')
        params = {}
        for p in c['params']:
            params[bytes(p['name']).decode('latin-1')] = PersistentParamState(p['stored'], _pval(p['dv']), _pval(p['sv']))
        rec.user('filewrite', lambda: M.write(path, params=params))
        for field in case.get('tamper', []):
            _tamper(path, field)
            rec.ev.append({'e': 'tamper', 'field': field})
        out = {}
        rec.user('fileread', lambda: out.__setitem__('r', M.read(path)))
        if 'r' not in out:
            return {'raised': True, 'params': []}
        names = [bytes(p['name']).decode('latin-1') for p in c['params']]
        return {'raised': False,
                'params': [{'name': list(str(k).encode('latin-1', 'replace')), 'stored': s.is_stored,
                            'dv': _pval_rec(s.default_value), 'sv': _pval_rec(s.stored_value)}
                           for k, s in _in_content_order(out['r'], names)]}
    finally:
        shutil.rmtree(d, ignore_errors=True)


def drive_poly(case, rec, fm):
    from cflib.crazyflie.mem import MemoryElement, Poly4D, TrajectoryMemory
    c = case['content']
    m = TrajectoryMemory(id=0, type=MemoryElement.TYPE_TRAJ, size=4096, mem_handler=fm)
    fm.attach(write=m.write_done, write_failed=m.write_failed)
    m.trajectory = [Poly4D(f4(p['dur']), *[Poly4D.Poly([f4(x) for x in p[a]]) for a in ('x', 'y', 'z', 'yaw')])
                    for p in c['pieces']]
    out = {}
    rec.user('write', lambda: out.__setitem__('ret', m.write_data(lambda *a: None, start_addr=c['addr'])))
    rec.pump()
    return {'ret': out.get('ret', -1) if out.get('ret') is not None else -1}


def drive_led(case, rec, fm):
    from cflib.crazyflie.mem import MemoryElement
    from cflib.crazyflie.mem.led_timings_driver_memory import LEDTimingsDriverMemory
    c = case['content']
    m = LEDTimingsDriverMemory(id=0, type=MemoryElement.TYPE_DRIVER_LEDTIMING, size=2048, mem_handler=fm)
    fm.attach(read=m.new_data, write=m.write_done)
    for t in c['timings']:
        m.add(t['time'], {'r': t['r'], 'g': t['g'], 'b': t['b']}, leds=t['leds'], fade=bool(t['fade']), rotate=t['rotate'])
    rec.user('write', lambda: m.write_data(lambda *a: None))
    rec.pump()
    return {'none': 0}


FLAGS = ['is_valid', 'is_started', 'supports_read', 'supports_write', 'supports_fw_upgrade', 'is_fw_upgrade_required',
         'is_bootloader_active', 'supports_reset_to_fw', 'supports_reset_to_bootloader']


def drive_deck(case, rec, fm):
    from cflib.crazyflie.mem import DeckMemoryManager, MemoryElement
    m = DeckMemoryManager(id=0, type=MemoryElement.TYPE_DECK_MEMORY, size=0x2000, mem_handler=fm)
    fm.attach(read=m._new_data, read_failed=m._new_data_failed, write=m._write_done, write_failed=m._write_failed)
    out = {}
    rec.user('query', lambda: m.query_decks(lambda d: out.__setitem__('ok', d), lambda e: out.__setitem__('fail', e)))
    rec.pump()
    decks = []
    for i, dm in sorted((out.get('ok') or {}).items()):
        decks.append({'idx': i, 'flags': [bool(getattr(dm, f)) for f in FLAGS], 'hash': le(dm.required_hash, 4),
                      'len': le(dm.required_length, 4), 'base': le(dm._base_address, 4), 'name': list(dm.name.encode('utf-8'))})
    return {'ok': 'ok' in out, 'failed': 'fail' in out, 'decks': decks}


def _anchor(a):
    return {'pos': [b4(x) for x in a.position], 'valid': bool(a.is_valid)}


def drive_loco(case, rec, fm):
    from cflib.crazyflie.mem import LocoMemory, MemoryElement
    m = LocoMemory(id=0, type=MemoryElement.TYPE_LOCO, size=0x2000, mem_handler=fm)
    fm.attach(read=m.new_data)
    seen = []
    rec.user('update', lambda: m.update(lambda x: seen.append(x)))
    rec.pump()
    return {'reported': bool(seen), 'valid': bool(m.valid), 'nr': m.nr_of_anchors, 'anchors': [_anchor(a) for a in m.anchor_data]}


def drive_loco2(case, rec, fm):
    from cflib.crazyflie.mem import LocoMemory2, MemoryElement
    m = LocoMemory2(id=0, type=MemoryElement.TYPE_LOCO2, size=0x12000, mem_handler=fm)
    fm.attach(read=m.new_data)
    rec.user('update_ids', lambda: m.update_id_list(lambda x: None))
    rec.pump()
    rec.user('update_active', lambda: m.update_active_id_list(lambda x: None))
    rec.pump()
    rec.user('update_data', lambda: m.update_data(lambda x: None))
    rec.pump()
    data = [dict(id=i, **_anchor(a)) for i, a in sorted(m.anchor_data.items())]
    return {'ids': list(m.anchor_ids), 'active': list(m.active_anchor_ids), 'data': data,
            'idsValid': bool(m.ids_valid), 'activeValid': bool(m.active_ids_valid), 'dataValid': bool(m.data_valid)}


DRIVERS = {'eeprom': drive_eeprom, 'ow': drive_ow, 'lh': drive_lh, 'lhfile': drive_lhfile, 'paramfile': drive_paramfile,
           'poly': drive_poly, 'led': drive_led, 'deck': drive_deck, 'loco': drive_loco, 'loco2': drive_loco2}


def execute(case, mutant=None):
    """Run one case against the real code; returns the trace (without id)."""
    undo = MUTANTS[mutant]() if mutant else None
    try:
        fm = FakeMem(_regs(case), writeonly=case['fmt'] in ('poly', 'led'))
        rec = Recorder(fm)
        try:
            obs = DRIVERS[case['fmt']](case, rec, fm)
        except Exception as e:           # a driver-level failure is an observation too, not a crash of the check
            obs = {'harness_exception': '%s: %s' % (type(e).__name__, e)}
        rec.done(obs)
        return {'fmt': case['fmt'], 'content': case['content'], 'env': case['env'], 'regs0': case['regs0'], 'ev': rec.ev}
    finally:
        if undo:
            undo()


# --------------------------------------------------------------------------- in-memory mutants
def _patch(obj, name, new):
    old = getattr(obj, name)
    setattr(obj, name, new)
    return lambda: setattr(obj, name, old)


def _mut_ee_modulus():
    from cflib.crazyflie.mem.i2c_element import I2CElement
    return _patch(I2CElement, '_checksum256', lambda self, st: sum(list(st)) % 255)


def _mut_ee_ignore_checksum():
    """the verdict no longer depends on the checksum comparison"""
    from cflib.crazyflie.mem.i2c_element import I2CElement
    old = I2CElement.new_data

    def new_data(self, mem, addr, data):
        cb = self._update_finished_cb

        def wrapped(m):
            self.valid = True
            cb(m)
        if cb is not None and mem.id == self.id and bytes(data[0:4]) == b'0xBC' or addr == 16:
            self._update_finished_cb = wrapped
        old(self, mem, addr, data)
        if self._update_finished_cb is wrapped:
            self._update_finished_cb = cb
    return _patch(I2CElement, 'new_data', new_data)


def _mut_ee_checksum_short():
    """checksum over the fields only (token left out) on both sides: images still round-trip"""
    from cflib.crazyflie.mem.i2c_element import I2CElement
    return _patch(I2CElement, '_checksum256', lambda self, st: sum(list(st)[4:]) % 256)


def _mut_ow_header_nocrc():
    from cflib.crazyflie.mem.ow_element import OWElement

    def hdr(self, data):
        (start, self.pins, self.vid, self.pid, crc) = struct.unpack('<BIBBB', data)
        return start == 0xEB
    return _patch(OWElement, '_parse_and_check_header', hdr)


def _mut_ow_elem_crc_range():
    """element CRC computed without the version/length bytes, writer and parser alike"""
    from binascii import crc32

    from cflib.crazyflie.mem.ow_element import OWElement
    old_w = OWElement.write_data

    def write_data(self, cb):
        captured = {}
        real = self.mem_handler

        class H:
            def write(_s, mem, addr, data, **kw):
                captured['d'] = list(data)
                return True
        self.mem_handler = H()
        try:
            old_w(self, cb)
        finally:
            self.mem_handler = real
        d = captured['d']
        d[-1] = crc32(bytes(d[10:-1])) & 0xff
        real.write(self, 0, tuple(d))

    def check(self, data):
        crc = data[-1]
        elem_data = data[2:-1]
        if (crc32(bytes(elem_data)) & 0xff) == crc:
            while len(elem_data) > 0:
                (eid, elen) = struct.unpack('BB', elem_data[:2])
                self.elements[self.element_mapping[eid]] = elem_data[2:2 + elen].decode('ISO-8859-1')
                elem_data = elem_data[2 + elen:]
            return True
        return False
    u1 = _patch(OWElement, 'write_data', write_data)
    u2 = _patch(OWElement, '_parse_and_check_elements', check)
    return lambda: (u1(), u2())


def _mut_ow_drop_element():
    """parser stops after the first TLV"""
    from binascii import crc32

    from cflib.crazyflie.mem.ow_element import OWElement

    def check(self, data):
        crc = data[-1]
        elem_data = data[2:-1]
        if (crc32(data[:-1]) & 0xff) == crc:
            if len(elem_data) > 0:
                (eid, elen) = struct.unpack('BB', elem_data[:2])
                self.elements[self.element_mapping[eid]] = elem_data[2:2 + elen].decode('ISO-8859-1')
            return True
        return False
    return _patch(OWElement, '_parse_and_check_elements', check)


def _mut_lh_geo_transposed():
    """rotation matrix stored column by column (writer and parser agree, firmware would not)"""
    from cflib.crazyflie.mem.lighthouse_memory import LighthouseBsGeometry as G

    def add(self, data):
        self._add_vector(data, self.origin)
        for c in range(3):
            self._add_vector(data, [self.rotation_matrix[r][c] for r in range(3)])
        data += struct.pack('<?', self.valid)

    def setf(self, data):
        self.origin = self._read_vector(data[0:12])
        cols = [self._read_vector(data[12 * (i + 1):12 * (i + 2)]) for i in range(3)]
        self.rotation_matrix = [[cols[c][r] for c in range(3)] for r in range(3)]
        self.valid = struct.unpack('<?', data[48:])[0]
    u1 = _patch(G, 'add_mem_data', add)
    u2 = _patch(G, 'set_from_mem_data', setf)
    return lambda: (u1(), u2())


def _mut_lh_calib_uid16():
    from cflib.crazyflie.mem.lighthouse_memory import LighthouseBsCalibration as C

    def setf(self, data):
        self.sweeps[0] = self._unpack_sweep_calibration(data[0:28])
        self.sweeps[1] = self._unpack_sweep_calibration(data[28:56])
        self.uid, _pad, self.valid = struct.unpack('<HH?', data[56:])
    return _patch(C, 'set_from_mem_data', setf)


def _mut_lhfile_skip_bs0():
    from cflib.localization import lighthouse_config_manager as L
    old = L.LighthouseConfigFileManager.write

    def write(file_name, geos={}, calibs={}, system_type=2):
        return old(file_name, geos={i: g for i, g in geos.items() if i}, calibs=calibs, system_type=system_type)
    return _patch(L.LighthouseConfigFileManager, 'write', staticmethod(write))


def _mut_paramfile_stored_as_default():
    from cflib.crazyflie.param import PersistentParamState
    from cflib.localization import param_io as P
    old = P.ParamFileManager.write

    def write(file_name, params={}):
        return old(file_name, params={k: PersistentParamState(v.is_stored, v.default_value, v.default_value if v.is_stored else None)
                                      for k, v in params.items()})
    return _patch(P.ParamFileManager, 'write', staticmethod(write))


def _mut_poly_duration_first():
    from cflib.crazyflie.mem.trajectory_memory import Poly4D
    old = Poly4D.pack

    def pack(self):
        d = old(self)
        return d[-4:] + d[:-4]
    return _patch(Poly4D, 'pack', pack)


def _mut_led_little_endian():
    from cflib.crazyflie.mem.led_timings_driver_memory import LEDTimingsDriverMemory as M
    old = M.write_data

    def write_data(self, cb):
        real = self.mem_handler

        class H:
            def write(_s, mem, addr, data, **kw):
                d = bytearray(data)
                for i in range(0, len(d) - 4, 4):
                    d[i + 1], d[i + 2] = d[i + 2], d[i + 1]
                return real.write(mem, addr, d, **kw)
        self.mem_handler = H()
        try:
            old(self, cb)
        finally:
            self.mem_handler = real
    return _patch(M, 'write_data', write_data)


def _mut_deck_mask_swap():
    from cflib.crazyflie.mem.deck_memory import DeckMemory
    u1 = _patch(DeckMemory, 'MASK_SUPPORTS_READ', 8)
    u2 = _patch(DeckMemory, 'MASK_SUPPORTS_WRITE', 4)
    return lambda: (u1(), u2())


def _mut_deck_name_17():
    from cflib.crazyflie.mem.deck_memory import DeckMemory
    old = DeckMemory._parse

    def _parse(self, data):
        old(self, data)
        if self.name:
            self.name = self.name[:17]
    return _patch(DeckMemory, '_parse', _parse)


def _mut_loco_valid_inverted():
    from cflib.crazyflie.mem.loco_memory import AnchorData

    def setf(self, data):
        x, y, z, v = struct.unpack('<fff?', data)
        self.position = (x, y, z)
        self.is_valid = not v
    return _patch(AnchorData, 'set_from_mem_data', setf)


def _mut_loco2_skip_first_id():
    from cflib.crazyflie.mem.loco_memory_2 import LocoMemory2
    old = LocoMemory2._handle_id_list_data

    def h(self, data):
        old(self, bytearray([data[0]]) + bytearray(data[2:]) + bytearray([0]))
    return _patch(LocoMemory2, '_handle_id_list_data', h)


MUTANTS = {
    'ee_checksum_modulus_255': _mut_ee_modulus,
    'ee_verdict_ignores_checksum': _mut_ee_ignore_checksum,
    'ee_checksum_skips_token': _mut_ee_checksum_short,
    'ow_header_crc_not_checked': _mut_ow_header_nocrc,
    'ow_element_crc_range': _mut_ow_elem_crc_range,
    'ow_parser_drops_elements': _mut_ow_drop_element,
    'lh_geometry_transposed': _mut_lh_geo_transposed,
    'lh_calib_uid_16bit': _mut_lh_calib_uid16,
    'lhfile_skips_base_station_0': _mut_lhfile_skip_bs0,
    'paramfile_stored_value_lost': _mut_paramfile_stored_as_default,
    'poly_duration_first': _mut_poly_duration_first,
    'led_colour_little_endian': _mut_led_little_endian,
    'deck_read_write_masks_swapped': _mut_deck_mask_swap,
    'deck_name_truncated': _mut_deck_name_17,
    'loco_valid_inverted': _mut_loco_valid_inverted,
    'loco2_first_id_skipped': _mut_loco2_skip_first_id,
}
MUTANT_FMT = {'ee': 'eeprom', 'ow': 'ow', 'lh': 'lh', 'lhfile': 'lhfile', 'paramfile': 'paramfile', 'poly': 'poly',
              'led': 'led', 'deck': 'deck', 'loco': 'loco', 'loco2': 'loco2'}


# --------------------------------------------------------------------------- case builders
def blank(n, fill):
    return [fill] * n


def rand_f4(rng):
    specials = [[0, 0, 0, 0], [0, 0, 0, 128], [0, 0, 128, 127], [0, 0, 128, 255], [0, 0, 192, 127], [255, 255, 127, 127],
                [255, 255, 127, 255], [1, 0, 0, 0], [255, 255, 127, 0], [0, 0, 128, 0], [0, 0, 128, 63], [219, 15, 73, 64]]
    while True:
        b = rng.choice(specials) if rng.random() < 0.3 else [rng.randrange(256) for _ in range(4)]
        if f4_ok(b):
            return list(b)


def rand_f8(rng, f32=False):
    """doubles a YAML file can hold: any double except non-canonical NaNs"""
    specials = [0.0, -0.0, float('inf'), float('-inf'), float('nan'), 5e-324, 1.7976931348623157e308, 0.1, 1e16, 1e-5,
                1e22, 123456789012345678.0, -1.5e-300]
    if f32:
        return b8(f4(rand_f4(rng)))
    if rng.random() < 0.4:
        return b8(rng.choice(specials))
    while True:
        b = [rng.randrange(256) for _ in range(8)]
        x = f8(b)
        if x == x:
            return b


def case_eeprom(ver, ch, speed, pitch, roll, addr, fill=255, size=32, corrupt=()):
    return {'fmt': 'eeprom', 'content': {'ver': ver, 'ch': ch, 'speed': speed, 'pitch': list(pitch), 'roll': list(roll), 'addr': list(addr)},
            'env': {'fill': fill, 'cor': True}, 'regs0': [{'base': 0, 'data': blank(size, fill)}], 'corrupt': [list(c) for c in corrupt]}


def case_ow(pins, vid, pid, elems, size=112, corrupt=()):
    return {'fmt': 'ow', 'content': {'pins': list(pins), 'vid': vid, 'pid': pid, 'elems': [{'id': i, 'str': list(s)} for i, s in elems]},
            'env': {'size': size, 'cor': True}, 'regs0': [{'base': 0, 'data': blank(size, 255)}], 'corrupt': [list(c) for c in corrupt]}


def lh_regs(nbs):
    return [{'base': 256 * b, 'data': blank(49, 0)} for b in range(nbs)] + \
           [{'base': 4096 + 256 * b, 'data': blank(61, 0)} for b in range(nbs)]


def case_lh(geos, calibs, nbs=16):
    return {'fmt': 'lh', 'content': {'geos': geos, 'calibs': calibs}, 'env': {'nbs': nbs}, 'regs0': lh_regs(nbs)}


def rand_geo(rng, i, fl, n=12):
    return {'id': i, 'f': [fl(rng) for _ in range(n)], 'valid': rng.random() < 0.7}


def rand_calib(rng, i, fl):
    d = rand_geo(rng, i, fl, 14)
    return {'id': i, 'f': d['f'], 'uid': [rng.randrange(256) for _ in range(4)], 'valid': d['valid']}


def case_deck(recs, ver=3):
    img = [ver]
    for (bf1, bf2, h, ln, base, name) in recs:
        img += [bf1, bf2] + list(h) + list(ln) + list(base) + list(name) + [0] * (18 - len(name))
    return {'fmt': 'deck', 'content': [], 'env': {'none': 0}, 'regs0': [{'base': 0, 'data': img}]}


def anchor_page(rng):
    return rand_f4(rng) + rand_f4(rng) + rand_f4(rng) + [rng.choice([0, 1, 1, 255, rng.randrange(256)])]


def case_loco(pages):
    return {'fmt': 'loco', 'content': [], 'env': {'none': 0},
            'regs0': [{'base': 0, 'data': [len(pages)]}] + [{'base': 4096 + 256 * i, 'data': p} for i, p in enumerate(pages)]}


def case_loco2(ids, active, pages):
    regs = [{'base': 0, 'data': [len(ids)] + list(ids) + [0] * (16 - len(ids))},
            {'base': 4096, 'data': [len(active)] + list(active) + [0] * (16 - len(active))}]
    for i in sorted(set(ids)):
        regs.append({'base': 8192 + 256 * i, 'data': pages[i]})
    return {'fmt': 'loco2', 'content': [], 'env': {'none': 0}, 'regs0': regs}


# --------------------------------------------------------------------------- case sources (code -> spec)
ORDERS = [o for n in range(4) for o in itertools.permutations([1, 2, 3], n)]


def eeprom_image_len(ver):
    return 16 if ver == 0 else 21


def cases_enumerated(tier, rng):
    quick = tier == 'quick'
    out = []
    # ---- EEPROM: every single-byte corruption (position x 255 values) of several images
    ee_contents = [(0, 80, 2, [0, 0, 0, 0], [0, 0, 0, 0], [231] * 5, 255), (1, 80, 2, [0, 0, 0, 0], [0, 0, 0, 0], [231] * 5, 255),
                   (1, 125, 0, [0, 0, 128, 63], [219, 15, 73, 192], [1, 2, 3, 4, 5], 0), (0, 0, 1, [0, 0, 192, 127], [1, 0, 0, 0], [0] * 5, 0)]
    for _ in range(0 if quick else 8):
        ee_contents.append((rng.randrange(2), rng.randrange(256), rng.randrange(256), rand_f4(rng), rand_f4(rng),
                            [rng.randrange(256) for _ in range(5)], rng.choice([0, 255, rng.randrange(256)])))
    nth = 0
    for (ver, ch, sp, p, r, a, fill) in ee_contents:
        out.append(case_eeprom(ver, ch, sp, p, r, a, fill))
        img_len = eeprom_image_len(ver)
        base = execute_image(case_eeprom(ver, ch, sp, p, r, a, fill))
        nth += 1
        for pos in range(1, img_len + 1):
            for val in (range(256) if (nth <= 2 or not quick) else range(pos % 5, 256, 5)):
                if val != base[pos - 1]:
                    out.append(case_eeprom(ver, ch, sp, p, r, a, fill, corrupt=[(pos, val)]))
    # ---- EEPROM: random contents, uncorrupted / corrupted anywhere (also behind the image) / two bytes
    for k in range(1500 if quick else 20000):
        ver = rng.randrange(2)
        c = case_eeprom(ver, rng.randrange(256), rng.randrange(256), rand_f4(rng), rand_f4(rng), [rng.randrange(256) for _ in range(5)],
                        rng.choice([0, 255, rng.randrange(256)]))
        m = k % 4
        if m == 1:
            c['corrupt'] = [[rng.randrange(1, 22), rng.randrange(256)]]
        elif m == 2:
            c['corrupt'] = [[rng.randrange(1, 22), rng.randrange(256)], [rng.randrange(1, 22), rng.randrange(256)]]
        elif m == 3:      # version byte changed and checksum byte chosen freely: reaches "valid" images of the other version
            c['corrupt'] = [[5, 1 - ver], [rng.choice([16, 21]), rng.randrange(256)]]
        out.append(c)
    # ---- 1-wire: every key order, name/revision/custom lengths covering every element-area length
    def ow_str(n):
        return [rng.randrange(256) for _ in range(n)]
    for size in ([112] if quick else [112, 272]):
        room = min(size - 11, 255)
        for o in ORDERS:
            if len(o) == 0:
                lens = [()]
            elif len(o) == 1:
                lens = [(n,) for n in range(0, room - 1)]
            elif len(o) == 2:
                step = 11 if quick else 1
                lens = [(a, b) for a in range(0, room - 3) for b in ({0, 1, room - 4 - a} | set(range(0, room - 3 - a, step)))
                        if 0 <= b <= room - 4 - a]
                if size == 272:
                    lens = [x for x in lens if x[0] % 11 == 0 and (x[1] % 3 == 0 or x[0] + x[1] == room - 4)]
            else:
                grid = [0, 1, 2, 3, 30, 60] if quick else [0, 1, 2, 3, 5, 8, 13, 21, 34, 55, 64, 66, 68, 70, 89]
                if size == 272:
                    grid = [0, 1, 2, 56, 57, 58, 84]
                lens = [(a, b, c) for a in grid for b in grid for c in grid if a + b + c + 6 <= room]
                lens += [(a, b, room - 6 - a - b) for a in grid for b in grid if a + b + 6 <= room]
            for ln in lens:
                out.append(case_ow([rng.randrange(256) for _ in range(4)], rng.randrange(256), rng.randrange(256),
                                   [(i, ow_str(n)) for i, n in zip(o, ln)], size=size))
    # ---- 1-wire: every single-byte corruption of a few images
    ow_contents = [([1, 0, 0, 0], 0xBC, 9, [(1, list(b'bcLoco')), (2, list(b'D'))]),
                   ([0, 0, 0, 0], 0, 0, []),
                   ([255, 255, 255, 255], 255, 255, [(3, [0, 255]), (1, list(b'x'))])]
    for _ in range(0 if quick else 5):
        o = rng.choice(ORDERS)
        ow_contents.append(([rng.randrange(256) for _ in range(4)], rng.randrange(256), rng.randrange(256),
                            [(i, ow_str(rng.randrange(0, 12))) for i in o]))
    for (pins, vid, pid, elems) in ow_contents:
        base = execute_image(case_ow(pins, vid, pid, elems))
        n = 11 + base[9]
        for pos in range(1, n + 1):
            for val in (range(256) if (not quick or pos <= 12) else [0, 1, 2, 3, 5, 74, 235, 255]):
                if val != base[pos - 1]:
                    out.append(case_ow(pins, vid, pid, elems, corrupt=[(pos, val)]))
    # ---- lighthouse memory: subsets of the 16 base stations
    for k in range(150 if quick else 1000):
        nbs = 16 if k % 10 else rng.choice([2, 4, 8])
        gs = sorted(rng.sample(range(16), rng.randrange(0, 17)))
        cs = sorted(rng.sample(range(16), rng.randrange(0, 17)))
        if k % 3 == 0:
            rng.shuffle(gs)
            rng.shuffle(cs)
        out.append(case_lh([rand_geo(rng, i, rand_f4) for i in gs], [rand_calib(rng, i, rand_f4) for i in cs], nbs))
    for bits in range(0, 1 << 16, 257 if quick else 53):
        gs = [i for i in range(16) if bits >> i & 1]
        out.append(case_lh([rand_geo(rng, i, rand_f4) for i in gs], [rand_calib(rng, i, rand_f4) for i in gs[::2]], 16))
    # ---- lighthouse YAML file / parameter YAML file
    for k in range(300 if quick else 5000):
        gs = sorted(rng.sample(range(16), rng.randrange(0, 17)))
        cs = sorted(rng.sample(range(16), rng.randrange(0, 17)))
        fl = (lambda r: rand_f8(r, True)) if k % 2 else rand_f8
        c = {'fmt': 'lhfile', 'content': {'geos': [rand_geo(rng, i, fl) for i in gs], 'calibs': [rand_calib(rng, i, fl) for i in cs],
                                          'systype': rng.choice([1, 2])}, 'env': {'none': 0}, 'regs0': []}
        if k % 25 == 7:
            c['tamper'] = [rng.choice(['type', 'version'])]
        out.append(c)
    pnames = ['ring.effect', 'sound.freq', 'on', 'yes', 'null', '1.5', '123', 'a.b', 'activeMarker.mode', 'cppm.angPitch', '~', 'true',
              'kalman.initialX', 'x: y', '- z', '#c', "q'uo\"te", ' lead', 'é.ü']
    for k in range(300 if quick else 5000):
        ps = []
        for nm in rng.sample(pnames, rng.randrange(0, 8)):
            kind = rng.randrange(3)
            def val():
                if kind == 0:
                    return {'t': 'i', 'b': list(rng.choice([0, 1, 255, 65535, 2 ** 32 - 1, -1, -128, -2 ** 31, rng.randrange(-2 ** 31, 2 ** 32)])
                                                .to_bytes(8, 'little', signed=True))}
                return {'t': 'f', 'b': rand_f8(rng, kind == 1)}
            st = rng.random() < 0.5
            ps.append({'name': list(nm.encode('latin-1')), 'stored': st, 'dv': val(), 'sv': val() if st else {'t': 'n', 'b': []}})
        c = {'fmt': 'paramfile', 'content': {'params': ps}, 'env': {'none': 0}, 'regs0': []}
        if k % 25 == 7:
            c['tamper'] = [rng.choice(['type', 'version'])]
        out.append(c)
    # ---- polynomial trajectories, LED timings
    for k in range(150 if quick else 2000):
        pieces = [{a: [rand_f4(rng) for _ in range(8)] for a in ('x', 'y', 'z', 'yaw')} for _ in range(rng.randrange(0, 5))]
        for p in pieces:
            p['dur'] = rand_f4(rng)
        out.append({'fmt': 'poly', 'content': {'addr': rng.choice([0, 132, 264, 1000]), 'pieces': pieces}, 'env': {'none': 0}, 'regs0': []})
    def timing(t=None, r=None, g=None, b=None):
        return {'time': t if t is not None else rng.randrange(1, 256), 'r': rng.randrange(256) if r is None else r,
                'g': rng.randrange(256) if g is None else g, 'b': rng.randrange(256) if b is None else b,
                'leds': rng.randrange(16), 'fade': rng.randrange(2), 'rotate': rng.randrange(8)}
    led = [[]]
    for lvl in range(256):            # every level of every channel
        led.append([timing(r=lvl, g=0, b=0), timing(r=0, g=lvl, b=0), timing(r=0, g=0, b=lvl)])
    for leds in range(16):
        for fade in range(2):
            for rot in range(8):
                led.append([{'time': 1 + leds, 'r': 0, 'g': 0, 'b': 0, 'leds': leds, 'fade': fade, 'rotate': rot}])
    # steps of duration 0: black with and without leds/fade/rotate (only the all-zero step is the
    # terminator and cannot be stored), between ordinary steps
    for leds, fade, rot in [(0, 0, 0), (3, 0, 0), (0, 1, 0), (0, 0, 5), (15, 1, 7)]:
        z = {'time': 0, 'r': 0, 'g': 0, 'b': 0, 'leds': leds, 'fade': fade, 'rotate': rot}
        led.append([z])
        led.append([timing(), z, timing()])
        led.append([z, dict(z, r=255), timing(t=0)])
    for k in range(100 if quick else 2000):
        led.append([timing(t=(0 if rng.random() < 0.15 else None)) for _ in range(rng.randrange(1, 12))])
    for ts in led:
        out.append({'fmt': 'led', 'content': {'timings': ts}, 'env': {'none': 0}, 'regs0': []})
    # ---- deck memory info: all 2^7 x 2^2 bit-field combinations x name lengths
    def deck_rec(bf1, bf2, n=None):
        n = rng.randrange(0, 19) if n is None else n
        return (bf1, bf2, [rng.randrange(256) for _ in range(4)], [rng.randrange(256) for _ in range(4)],
                [rng.randrange(256) for _ in range(4)], [rng.randrange(33, 127) for _ in range(n)])
    for bf1 in range(128):
        for bf2 in range(4):
            for n in ([0, 7, 17, 18] if quick else range(19)):
                recs = [deck_rec(rng.randrange(128), rng.randrange(4)) for _ in range(8)]
                recs[rng.randrange(8)] = deck_rec(bf1, bf2, n)
                out.append(case_deck(recs))
    for k in range(50 if quick else 1000):
        out.append(case_deck([deck_rec(rng.randrange(256), rng.randrange(256)) for _ in range(8)], ver=3 if k % 10 else rng.randrange(256)))
    # ---- loco anchor lists
    for k in range(150 if quick else 2000):
        out.append(case_loco([anchor_page(rng) for _ in range(rng.choice([0, 1, 2, 8, rng.randrange(0, 40)]))]))
    out.append(case_loco([anchor_page(rng) for _ in range(255)]))
    for k in range(150 if quick else 2000):
        ids = [rng.randrange(256) for _ in range(rng.randrange(0, 17))]
        if k % 3:
            ids = list(dict.fromkeys(ids))
        act = rng.sample(ids, rng.randrange(0, len(ids) + 1)) if ids else []
        out.append(case_loco2(ids, act, {i: anchor_page(rng) for i in set(ids)}))
    return out


def execute_image(case):
    """The image the real writer produces for a case (used only to enumerate corruption positions)."""
    t = execute(dict(case, corrupt=[]))
    for e in t['ev']:
        for q in e.get('reqs', []):
            if q['k'] == 'w':
                return q['data']
    raise common.MachineryError('writer issued no write for %r' % (case['content'],))


# --------------------------------------------------------------------------- spec -> code
def _tla(v):
    """TLC value (as parsed by harness.tlc) -> the JSON shape the harness uses."""
    if isinstance(v, dict):
        if v and all(isinstance(k, int) for k in v):
            return v                      # a function with integer keys: handled by the caller
        return {k: _tla(x) for k, x in v.items()}
    if isinstance(v, (list, tuple)):
        return [_tla(x) for x in v]
    return v


def _regs_from_tla(v):
    if not v:
        return []
    if isinstance(v, list):               # domain 1..n cannot happen for regs (bases start at 0)
        raise common.MachineryError('unexpected regs value %r' % (v,))
    return [{'base': int(b), 'data': list(d)} for b, d in sorted(v.items())]


def case_from_behaviour(beh):
    """A TLC behaviour of Images (list of (label, state)) -> case + expected final state."""
    start = next((st for (lab, st) in beh if st.get('phase') == 'run'), None)
    if start is None:
        return None
    case = {'fmt': start['fmt'], 'content': _tla(start['content']), 'env': _tla(start['env']),
            'regs0': _regs_from_tla(start['regs']), 'corrupt': [], 'tamper': []}
    # corruptions / tampering are read off the state changes (the action labels of guarded
    # disjuncts carry no parameters)
    for (_l0, s0), (_l1, s1) in zip(beh, beh[1:]):
        if s0.get('phase') != 'run' or s1.get('ncor') == s0.get('ncor'):
            continue
        if s0['regs'] != s1['regs']:
            d0, d1 = s0['regs'][0], s1['regs'][0]
            pos = next(i for i in range(len(d0)) if d0[i] != d1[i])
            case['corrupt'].append([pos + 1, d1[pos]])
        elif s0['lib'].get('type') != s1['lib'].get('type'):
            case['tamper'].append('type')
        elif s0['lib'].get('version') != s1['lib'].get('version'):
            case['tamper'].append('version')
    last = beh[-1][1]
    exp = None
    if last.get('phase') == 'done':
        exp = {'obs': _tla(last['obs']), 'wrote': _tla(last['wrote']), 'regs': _regs_from_tla(last['regs'])}
    return case, exp


def final_of_trace(t):
    """obs, write history and memory at the end of a recorded trace (plain replay of the log)."""
    regs = {r['base']: list(r['data']) for r in t['regs0']}
    wrote, pend = [], []
    for e in t['ev']:
        if e['e'] in ('user', 'deliver'):
            if e['e'] == 'deliver' and pend:
                q = pend.pop(0)
                if q['k'] == 'w':
                    for r, d in regs.items():
                        if r <= q['addr'] and q['addr'] + q['len'] <= r + len(d):
                            d[q['addr'] - r:q['addr'] - r + q['len']] = q['data']
            for q in e['reqs']:
                pend.append(q)
                if q['k'] == 'w':
                    wrote.append({'addr': q['addr'], 'data': q['data']})
        elif e['e'] == 'corrupt':
            regs[0][e['pos'] - 1] = e['val']
    return {'obs': t['ev'][-1]['obs'], 'wrote': wrote, 'regs': [{'base': b, 'data': d} for b, d in sorted(regs.items())]}


# --------------------------------------------------------------------------- running / judging
def _exec_job(job):
    case, mutant = job
    return execute(case, mutant)


def _init():
    vsched.load_cflib()


def run_cases(cases, mutant=None):
    return common.pmap(_exec_job, [(c, mutant) for c in cases], init=_init)


def judge(out, traces, label, count=True, strict=True):
    for i, t in enumerate(traces):
        t['id'] = i + 1
    chunk = max(200, min(4000, (len(traces) + common.NCPU - 1) // common.NCPU))
    verdicts, st = common.validate_traces('ImagesTrace.tla', 'TRACE_Images.cfg', traces, env=TRACE_ENV, timeout=3000, chunk=chunk)
    if count:
        out.traces += len(traces)
    out.states += st['states']
    out.transitions += st['transitions']
    out.tlc_runs.append({'config': 'TRACE_Images (%s)' % label, 'states': st['states'], 'transitions': st['transitions'],
                         'wall_s': round(st['wall_s'], 2), 'traces': len(traces)})
    bad, drift = [], []
    for i, t in enumerate(traces):
        clause, at, conf, conf_at = verdicts[t['id']]
        if clause.startswith('Harness') and strict:
            raise common.MachineryError('trace %d (%s): %s at event %s -- harness and memory model disagree: %s' %
                                        (t['id'], t['fmt'], clause, at, json.dumps(t)[:600]))
        if clause != 'ok':
            bad.append((i, clause, at))
        elif not conf:
            drift.append((i, conf_at))
    return bad, drift


def signature(case, trace, clause):
    """Violated clause + canonical witness class."""
    fmt = case['fmt']
    cor = 'corrupted' if case.get('corrupt') else 'as-written'
    if fmt == 'ow':
        mem = final_of_trace(trace)['regs'][0]['data']
        from binascii import crc32
        if len(mem) >= 11 and (crc32(bytes([mem[9]])) & 0xff) == mem[10]:
            return '%s/ow:%s:crc8-of-length-byte-equals-next-byte' % (clause, cor)
        return '%s/ow:%s:elems=%d' % (clause, cor, len(case['content']['elems']))
    if fmt == 'eeprom':
        return '%s/eeprom:%s:v%d' % (clause, cor, case['content']['ver'])
    return '%s/%s' % (clause, fmt)


def strip(case):
    return {k: case[k] for k in ('fmt', 'content', 'env', 'regs0', 'corrupt', 'tamper') if k in case}


def main(tier, seed, replay=None):
    out = common.Outcome('C14', tier, seed)
    rng = random.Random(seed)
    out.assumptions = [
        'memory handler = in-process byte-array fake with the read/write/callback interface of cflib.crazyflie.mem.Memory; '
        'a request outside the memory fails; parsing uses a fresh element object (as after Memory.refresh)',
        'layouts demanded by ImagesProps are the firmware structures as remembered (configblock, deck info TLV, lighthouse '
        'geometry/calibration, poly4d, ledring timing, deck memory info v3, loco anchor pages); they are not in the sandbox',
        'floats are IEEE bit patterns; signalling-NaN float32 patterns and non-canonical double NaNs are not representable '
        'as Python floats / YAML and are excluded from the contents',
        'EEPROM: valid iff token+version(0|1)+checksum over the bytes of the stored version; a version byte flipped 0<->1 is '
        'outside "every single corrupted byte is detected" (it changes the covered bytes)',
        '1-wire: order of TLVs free; CRC-ok => valid demanded only for well-formed element areas (ids 1..3)',
        'file round trips: entries with valid=False are not file content; edited envelopes are conformance-only',
        'LED timings: time 1..255 (0 is the terminator), leds 0..15, rotate 0..7; RGB565 scaling as in C13',
    ]
    if replay:
        rp = json.load(open(replay))['replay']
        if 'lh_scenario' in rp:
            from . import X01
            X01._init()
            sc = dict(rp['lh_scenario'], bugs=X01.detect_as_is())
            t = X01.run_script(sc)
            bad, _ = X01.judge(out, [t], 'replay (lighthouse configuration writer)')
            for (i, clause, at) in bad:
                out.violation('LhStore/' + X01.signature(t, clause, at), clause, {'event_index': at, 'events': X01._window(t, at)}, rp)
            return out.finish()
        _init()
        case = rp['case']
        t = execute(case)
        bad, _ = judge(out, [t], 'replay')
        for (i, clause, at) in bad:
            out.violation(signature(case, t, clause), clause, {'event_index': at, 'trace': t}, {'case': strip(case)})
        return out.finish()

    # 1. design spec: exhaustive; every bug variant must be refuted
    if tier == 'quick':
        r = tlc.check('MC_Images.tla', 'MC_Images_quick.cfg', timeout=1500, jvm=JVM)
        out.add_tlc('MC_Images_quick.cfg', r)
    else:
        r = tlc.check('MC_ImagesThorough.tla', 'MC_Images_thorough.cfg', timeout=3000, jvm=JVM, coverage=True)
        out.add_tlc('MC_Images_thorough.cfg', r)
    for cfg in ['MC_Images_bug_shortcut.cfg'] + ([] if tier == 'quick' else
                                                 ['MC_Images_bug_nosum.cfg', 'MC_Images_bug_sumrange.cfg', 'MC_Images_bug_droplast.cfg']):
        rb = tlc.expect_violation('MC_Images.tla', cfg, timeout=1500, jvm=JVM)
        st = rb.error_trace[-1][1] if rb.error_trace else {}
        out.sensitivity['spec:' + cfg] = 'refuted (%s) after %d states; witness %s %s' % (
            rb.violated, rb.distinct, st.get('fmt'), json.dumps(_tla(st.get('content')))[:200])

    # 2. spec -> code: TLC behaviours replayed into the real classes, final states compared
    _init()
    nsim = 300 if tier == 'quick' else 3000
    rs, behs = tlc.simulate('MC_ImagesSim.tla', 'SIM_Images.cfg', num=nsim, depth=200, seed=seed % 100000, timeout=1500, jvm=JVM)
    out.add_tlc('SIM_Images.cfg (-simulate num=%d)' % nsim, rs)
    sims = [x for x in (case_from_behaviour(b) for b in behs) if x]
    sim_cases = [x[0] for x in sims]
    sim_traces = run_cases(sim_cases)
    matched, complete, mism = 0, 0, []
    for (case, exp), t in zip(sims, sim_traces):
        if exp is None:
            continue
        complete += 1
        if final_of_trace(t) == exp:
            matched += 1
        elif len(mism) < 3:
            mism.append({'case': strip(case), 'spec': exp['obs'], 'code': t['ev'][-1]['obs']})
    out.conformance['spec_to_code'] = {'behaviours': len(sims), 'complete': complete, 'matched': matched, 'first_mismatches': mism}

    # 3. code -> spec: own enumerations + seeded random, judged by the monitor
    cases = cases_enumerated(tier, rng)
    traces = run_cases(cases)
    all_cases = sim_cases + cases
    all_traces = sim_traces + traces
    order = list(range(len(all_cases)))
    random.Random(seed).shuffle(order)          # balance the TLC batches (lighthouse traces are long)
    all_cases = [all_cases[i] for i in order]
    all_traces = [all_traces[i] for i in order]
    bad, drift = judge(out, all_traces, 'real code')
    out.conformance['code_to_spec'] = {'traces': len(all_traces), 'explained_by_design_spec': len(all_traces) - len(drift) - len(bad),
                                       'drift_examples': [{'fmt': all_cases[i]['fmt'], 'at': at, 'content': str(all_cases[i]['content'])[:200]}
                                                          for i, at in drift[:3]]}
    for (i, clause, at) in bad:
        t = all_traces[i]
        out.violation(signature(all_cases[i], t, clause), clause,
                      {'event_index': at, 'fmt': t['fmt'], 'content': t['content'], 'corrupt': all_cases[i].get('corrupt'),
                       'observation': t['ev'][-1]['obs'], 'memory': final_of_trace(t)['regs'][:1]},
                      {'case': strip(all_cases[i])})
    # 3b. "lighthouse geometry and calibration ... round-trip ... any subset of base stations" on the way
    # configuration file -> Crazyflie memory -> file as the library does it: LighthouseConfigWriter /
    # LighthouseMemHelper (cflib/localization/lighthouse_config_manager.py) driven through complete store and
    # read requests, judged by the LhConfig monitor (spec/LhConfig*.tla, the extra spec X01; only its
    # single-request families: every subset shape incl. the empty one x write-failure pattern x persist result)
    from . import X01
    lh_as_is = sorted(X01.detect_as_is())
    lh_scs = X01.fam_store(tier, rng) + X01.fam_reads(tier, rng)
    for i, sc in enumerate(lh_scs):
        sc['backend'] = 'memory' if i % 2 else 'fake'
        sc['bugs'] = lh_as_is
    lh_traces = X01.run_scenarios(lh_scs)
    lh_bad, lh_drift = X01.judge(out, lh_traces, 'lighthouse configuration writer/reader (LhConfigTrace)')
    out.conformance['lh_store_code_to_spec'] = {'traces': len(lh_traces), 'rejected_by_monitor': len(lh_bad), 'drift': len(lh_drift)}
    lh_sig = {}
    for (i, clause, at) in lh_bad:
        sig = 'LhStore/' + X01.signature(lh_traces[i], clause, at)
        n_ev = (at, sum(len(c['ev']) for c in lh_traces[i]['chunks']))
        if sig not in lh_sig or n_ev < lh_sig[sig][0]:
            lh_sig[sig] = (n_ev, i, clause, at)
    for sig, (n_ev, i, clause, at) in sorted(lh_sig.items()):
        out.violation(sig, clause, {'event_index': at, 'events': X01._window(lh_traces[i], at)},
                      {'lh_scenario': {k: v for k, v in lh_scs[i].items() if k != 'bugs'}})
    out.evaluations = len(all_traces) + len(lh_traces)
    per = {'lighthouse-store/read requests': len(lh_traces)}
    for c in all_cases:
        per[c['fmt']] = per.get(c['fmt'], 0) + 1
    out.extra['cases_per_format'] = per
    out.distinct = len({json.dumps(strip(c), sort_keys=True) for c in all_cases})
    out.rule = ('case = (format, content, environment, initial memory, corruptions/tampering); sources: TLC -simulate behaviours of '
                'Images, exhaustive single-byte corruptions of EEPROM and 1-wire images, every 1-wire key order x length grid covering '
                'every element-area length, all deck bit-field combinations x name lengths, all RGB levels, seeded random contents; '
                'distinct = distinct cases; each exercises at least one write or one parse of the real classes')
    picks = [next(i for i, c in enumerate(all_cases) if c['fmt'] == f) for f in ('eeprom', 'ow', 'deck', 'led')]
    out.samples = [{'case': str(strip(all_cases[i]))[:400], 'events': [{k: (str(v)[:120]) for k, v in e.items()} for e in all_traces[i]['ev'][:6]]}
                   for i in picks if i < len(all_cases)]
    out.exhaustive = False

    # 4. sensitivity: in-memory mutants must be rejected by the monitor; a corrupted trace must be rejected
    by_fmt = {}
    for c in cases:
        by_fmt.setdefault(c['fmt'], []).append(c)
    mtraces, mtag = [], []
    for name in sorted(MUTANTS):
        fmt = MUTANT_FMT[name.split('_')[0]]
        pool = by_fmt[fmt]
        sub = pool[::max(1, len(pool) // (150 if tier == 'quick' else 1000))]
        mt = run_cases(sub, mutant=name)
        mtraces += mt
        mtag += [name] * len(mt)
    o2 = common.Outcome('C14', tier, seed)
    mbad, _ = judge(o2, mtraces, 'in-memory mutants', strict=False)
    out.tlc_runs += o2.tlc_runs
    for name in sorted(MUTANTS):
        hit = [(i, c) for (i, c, _a) in mbad if mtag[i] == name]
        out.sensitivity['mutant:' + name] = '%d of %d traces rejected %s' % (len(hit), mtag.count(name), sorted({c for _i, c in hit}))
        if not hit:
            raise common.MachineryError('monitor did not reject in-memory mutant %s' % name)
    t0 = copy.deepcopy(next(t for t, c in zip(traces, cases) if c['fmt'] == 'eeprom' and not c['corrupt']))
    t0['ev'][-1]['obs']['parsed']['ch'] = (t0['ev'][-1]['obs']['parsed']['ch'] + 1) % 256
    t1 = copy.deepcopy(next(t for t, c in zip(traces, cases) if c['fmt'] == 'ow' and len(c['content']['elems']) == 2))
    idx = next(i for i, e in enumerate(t1['ev']) if e['e'] == 'deliver' and e['data'])
    del t1['ev'][idx]
    o2 = common.Outcome('C14', tier, seed)
    cbad, cdrift = judge(o2, [t0, t1], 'corrupted traces', strict=False)
    rej = {i for (i, _c, _a) in cbad} | {i for (i, _a) in cdrift}
    out.sensitivity['binding:field-changed/event-dropped'] = 'rejected' if rej == {0, 1} else 'ACCEPTED %s' % sorted({0, 1} - rej)
    if rej != {0, 1}:
        raise common.MachineryError('trace spec accepted a corrupted trace')
    return out.finish()
